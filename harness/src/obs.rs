//! Observations of replies, in the shape spec/Eval.tla's `Agree` expects.
use crate::astjson::numeric_json;
use crate::conv::text;
use rink_core::output::{NumberParts, QueryError, QueryReply};
use rink_core::types::{Dimensionality, Number, Numeric};
use serde_json::{json, Value};

pub fn dims_json(d: &Dimensionality) -> Value {
    Value::Array(d.iter().map(|(u, e)| json!({"u": text(u.as_str()), "e": e})).collect())
}

pub fn number_json(n: &Number) -> Value {
    match n.value {
        Numeric::Rational(_) => {
            let v = numeric_json(&n.value);
            json!({"t": "num", "v": v, "d": dims_json(&n.unit)})
        }
        Numeric::Float(f) => json!({"t": "float", "d": dims_json(&n.unit), "f": format!("{:e}", f)}),
    }
}

pub fn opt_text(s: &Option<String>) -> Value {
    match s {
        Some(s) => text(s),
        None => Value::Null,
    }
}

/// Everything the specification may want to know about a NumberParts.
pub fn parts_json(p: &NumberParts) -> Value {
    json!({
        "raw": p.raw_value.as_ref().map(number_json),
        "exact": opt_text(&p.exact_value),
        "approx": opt_text(&p.approx_value),
        "factor": opt_text(&p.factor),
        "divfactor": opt_text(&p.divfactor),
        "raw_unit": p.raw_unit.as_ref().map(dims_json),
        "unit": opt_text(&p.unit),
        "quantity": opt_text(&p.quantity),
        "dimensions": opt_text(&p.dimensions),
        "raw_dimensions": p.raw_dimensions.as_ref().map(dims_json),
    })
}

pub fn reply_obs(r: &Result<QueryReply, QueryError>) -> Value {
    match r {
        Ok(QueryReply::Number(p)) => {
            let mut o = p.raw_value.as_ref().map(number_json).unwrap_or(json!({"t": "other", "kind": "number-noraw"}));
            o["kind"] = json!("number");
            o["parts"] = parts_json(p);
            o
        }
        Ok(QueryReply::Duration(d)) => {
            let mut o = d.raw.raw_value.as_ref().map(number_json).unwrap_or(json!({"t": "other", "kind": "duration-noraw"}));
            o["kind"] = json!("duration");
            o["parts"] = parts_json(&d.raw);
            o["breakdown"] = json!([parts_json(&d.years), parts_json(&d.weeks), parts_json(&d.days),
                                    parts_json(&d.hours), parts_json(&d.minutes), parts_json(&d.seconds)]);
            o
        }
        Ok(QueryReply::Conversion(c)) => json!({"t": "conversion", "parts": parts_json(&c.value)}),
        Ok(QueryReply::UnitList(l)) => json!({"t": "unitlist", "list": l.list.iter().map(parts_json).collect::<Vec<_>>(), "rest": parts_json(&l.rest)}),
        Ok(QueryReply::Date(d)) => json!({"t": "date", "rfc3339": d.rfc3339, "fields": [d.year, d.month, d.day, d.hour, d.minute, d.second, d.nanosecond]}),
        Ok(QueryReply::Substance(s)) => json!({"t": "subst", "name": text(&s.name), "amount": parts_json(&s.amount),
            "props": s.properties.iter().map(|p| json!({"name": text(&p.name), "value": parts_json(&p.value)})).collect::<Vec<_>>()}),
        Ok(QueryReply::Def(d)) => json!({"t": "def", "canon": text(&d.canon_name), "def": opt_text(&d.def),
            "value": d.value.as_ref().map(parts_json)}),
        Ok(QueryReply::Factorize(f)) => json!({"t": "factorize", "list": f.factorizations.iter().map(|x|
            x.units.iter().map(|(k, v)| json!({"u": text(k), "e": v})).collect::<Vec<_>>()).collect::<Vec<_>>()}),
        Ok(QueryReply::UnitsFor(u)) => json!({"t": "unitsfor", "of": parts_json(&u.of), "cats": u.units.iter().map(|c|
            json!({"cat": opt_text(&c.category), "units": c.units.iter().map(|s| text(s)).collect::<Vec<_>>()})).collect::<Vec<_>>()}),
        Ok(QueryReply::Search(s)) => json!({"t": "search", "n": s.results.len()}),
        Err(QueryError::Generic { message }) => json!({"t": "err", "c": "generic", "msg": message}),
        Err(QueryError::NotFound(nf)) => json!({"t": "err", "c": "notfound", "msg": nf.got}),
        Err(QueryError::Conformance(c)) => json!({"t": "err", "c": "conformance",
            "left": parts_json(&c.left), "right": parts_json(&c.right), "suggestions": c.suggestions,
            "suggestions_cp": c.suggestions.iter().map(|s| text(s)).collect::<Vec<_>>()}),
    }
}

/// A date *value* (C14): seconds since the Unix epoch (as a signed limb integer), nanoseconds of the second
/// (chrono reports a leap second as >= 10^9), the exact UTC offset in seconds, and the variant.
pub fn datetime_json(d: &rink_core::types::GenericDateTime) -> Value {
    use chrono::Offset;
    use rink_core::types::GenericDateTime;
    let (variant, secs, nanos, off) = match d {
        GenericDateTime::Fixed(d) => ("fixed", d.timestamp(), d.timestamp_subsec_nanos(), d.offset().fix().local_minus_utc()),
        GenericDateTime::Timezone(d) => ("tz", d.timestamp(), d.timestamp_subsec_nanos(), d.offset().fix().local_minus_utc()),
    };
    json!({"variant": variant, "secs": crate::conv::int_json(&num_bigint::BigInt::from(secs)), "ns": nanos, "off": off})
}
