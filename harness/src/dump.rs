//! Canonical JSON dump of a loaded `Registry`, field by field from its public maps
//! (DESIGN.md Appendix C). Names are code point arrays, numbers limb arrays.
use crate::astjson::{expr_json, numeric_json};
use crate::conv::text;
use crate::obs::{dims_json, number_json};
use rink_core::ast::Expr;
use rink_core::Context;
use serde_json::{json, Value};

pub fn registry_json(ctx: &Context) -> Value {
    let r = &ctx.registry;
    let base: Vec<Value> = r.base_units.iter().map(|b| text(b.as_str())).collect();
    let long_names: Vec<Value> = r
        .base_unit_long_names
        .iter()
        .map(|(k, v)| json!({"short": text(k), "long": text(v)}))
        .collect();
    let units: Vec<Value> = r
        .units
        .iter()
        .map(|(name, val)| {
            let def = r.definitions.get(name);
            let mut o = json!({"name": text(name), "s": name, "val": number_json(val),
                "alias": matches!(def, Some(Expr::Unit { .. }))});
            if let Some(d) = def {
                o["def"] = expr_json(d);
            }
            if let Some(c) = r.categories.get(name) {
                o["cat"] = text(c);
            }
            o
        })
        .collect();
    let prefixes: Vec<Value> = r
        .prefixes
        .iter()
        .map(|(name, v)| json!({"name": text(name), "s": name, "v": numeric_json(v)}))
        .collect();
    let quantities: Vec<Value> = r
        .quantities
        .iter()
        .map(|(d, name)| json!({"name": text(name), "s": name, "dims": dims_json(d)}))
        .collect();
    let decomposition: Vec<Value> = r
        .decomposition_units
        .iter()
        .map(|(d, name)| json!({"name": text(name), "dims": dims_json(d)}))
        .collect();
    let defs: Vec<Value> = r
        .definitions
        .iter()
        .map(|(name, e)| json!({"name": text(name), "s": name, "def": expr_json(e), "is_unit": r.units.contains_key(name)}))
        .collect();
    let substances: Vec<Value> = r
        .substances
        .iter()
        .map(|(name, s)| {
            json!({"name": text(name), "s": name, "amount": number_json(&s.amount),
                "props": s.properties.properties.iter().map(|(pn, p)| json!({
                    "name": text(pn), "s": pn,
                    "input": number_json(&p.input), "input_name": text(&p.input_name),
                    "output": number_json(&p.output), "output_name": text(&p.output_name),
                })).collect::<Vec<_>>()})
        })
        .collect();
    let symbols: Vec<Value> = r
        .substance_symbols
        .iter()
        .map(|(k, v)| json!({"sym": text(k), "name": text(v)}))
        .collect();
    let docs: Vec<Value> = r.docs.keys().map(|k| text(k)).collect();
    let categories: Vec<Value> = r
        .categories
        .iter()
        .map(|(k, v)| json!({"name": text(k), "cat": text(v)}))
        .collect();
    let category_names: Vec<Value> = r
        .category_names
        .iter()
        .map(|(k, v)| json!({"id": text(k), "name": text(v)}))
        .collect();
    json!({
        "base": base, "long_names": long_names, "units": units, "prefixes": prefixes,
        "quantities": quantities, "decomposition": decomposition, "defs": defs,
        "substances": substances, "symbols": symbols, "docs": docs, "categories": categories,
        "category_names": category_names, "datepatterns": r.datepatterns.len(),
    })
}

/// The definitions as WRITTEN in a source text (parsed with gnu_units::parse_str): what C08 compares the
/// loaded registry against. Prefix definitions never reach `Registry::definitions`, and a unit's recorded
/// definition may have been overwritten: the source is the reference.
pub fn source_defs_json(text_src: &str) -> Value {
    use rink_core::ast::Def;
    let defs = rink_core::loader::gnu_units::parse_str(text_src);
    let list: Vec<Value> = defs
        .defs
        .iter()
        .filter_map(|d| match &*d.def {
            Def::Prefix { expr, is_long } => Some(json!({"name": text(&d.name), "s": d.name, "kind": "prefix", "long": is_long, "def": expr_json(&expr.0)})),
            Def::Unit { expr } => Some(json!({"name": text(&d.name), "s": d.name, "kind": "unit", "def": expr_json(&expr.0)})),
            Def::Quantity { expr } => Some(json!({"name": text(&d.name), "s": d.name, "kind": "quantity", "def": expr_json(&expr.0)})),
            _ => None,
        })
        .collect();
    Value::Array(list)
}
