//! `Expr` / `Query` -> JSON in the shape of spec/Grammar.tla (constants as limb arrays, names as
//! code points). The crate's own Serialize prints constants as decimal strings, which TLC cannot
//! take apart.
use crate::conv::{int_json, nat_limbs, text};
use rink_core::ast::{BinOpType, Conversion, Degree, Expr, Query, UnaryOpType};
use rink_core::output::Digits;
use rink_core::types::Numeric;
use serde_json::{json, Value};

pub fn numeric_json(v: &Numeric) -> Value {
    match v {
        Numeric::Rational(r) => {
            let n = r.numer();
            let d = r.denom();
            json!({"n": int_json(n.inner()), "d": nat_limbs(d.inner().magnitude())})
        }
        Numeric::Float(f) => json!({"float": format!("{:e}", f)}),
    }
}

pub fn degree_name(d: &Degree) -> &'static str {
    match d {
        Degree::Celsius => "celsius",
        Degree::Fahrenheit => "fahrenheit",
        Degree::Reaumur => "reaumur",
        Degree::Romer => "romer",
        Degree::Delisle => "delisle",
        Degree::Newton => "newton",
    }
}

pub fn binop_name(op: BinOpType) -> &'static str {
    match op {
        BinOpType::Add => "add",
        BinOpType::Sub => "sub",
        BinOpType::Frac => "frac",
        BinOpType::Pow => "pow",
        BinOpType::Equals => "equals",
        BinOpType::ShiftL => "shl",
        BinOpType::ShiftR => "shr",
        BinOpType::Mod => "mod",
        BinOpType::And => "and",
        BinOpType::Or => "or",
        BinOpType::Xor => "xor",
    }
}

pub fn expr_json(e: &Expr) -> Value {
    match e {
        Expr::Unit { name } => json!({"k": "unit", "name": text(name)}),
        Expr::Quote { string } => json!({"k": "quote", "s": text(string)}),
        Expr::Const { value } => match value {
            Numeric::Rational(_) => json!({"k": "const", "v": numeric_json(value)}),
            Numeric::Float(_) => json!({"k": "constf"}),
        },
        Expr::Date { .. } => json!({"k": "date"}),
        Expr::BinOp(b) => json!({"k": "bin", "op": binop_name(b.op), "l": expr_json(&b.left), "r": expr_json(&b.right)}),
        Expr::UnaryOp(u) => {
            let op = match u.op {
                UnaryOpType::Negative => "neg",
                UnaryOpType::Positive => "pos",
                UnaryOpType::Degree(ref d) => degree_name(d),
            };
            json!({"k": "un", "op": op, "e": expr_json(&u.expr)})
        }
        Expr::Mul { exprs } => json!({"k": "mul", "es": exprs.iter().map(expr_json).collect::<Vec<_>>()}),
        Expr::Of { property, expr } => json!({"k": "of", "prop": text(property), "e": expr_json(expr)}),
        Expr::Call { func, args } => json!({"k": "call", "f": func.name(), "args": args.iter().map(expr_json).collect::<Vec<_>>()}),
        Expr::Error { .. } => json!({"k": "err"}),
    }
}

pub fn digits_json(d: &Digits) -> Value {
    match d {
        Digits::Default => json!({"m": "default", "n": []}),
        Digits::FullInt => json!({"m": "full", "n": []}),
        Digits::Digits(n) => json!({"m": "digits", "n": nat_limbs(&num_bigint::BigUint::from(*n))}),
        Digits::Fraction => json!({"m": "frac", "n": []}),
        Digits::Scientific => json!({"m": "sci", "n": []}),
        Digits::Engineering => json!({"m": "eng", "n": []}),
    }
}

pub fn query_json(q: &Query) -> Value {
    match q {
        Query::Expr(e) => json!({"k": "expr", "e": expr_json(e)}),
        Query::Convert(e, conv, base, digits) => {
            let c = match conv {
                Conversion::None => json!({"c": "none"}),
                Conversion::Expr(t) => json!({"c": "expr", "e": expr_json(t)}),
                Conversion::Degree(d) => json!({"c": "degree", "deg": degree_name(d)}),
                Conversion::List(l) => json!({"c": "list", "names": l.iter().map(|s| text(s)).collect::<Vec<_>>()}),
                Conversion::Offset(o) => json!({"c": "offset", "secs": o}),
                Conversion::Timezone(tz) => json!({"c": "tz", "name": text(tz.name())}),
            };
            json!({"k": "convert", "e": expr_json(e), "conv": c, "base": base.unwrap_or(0), "digits": digits_json(digits)})
        }
        Query::Factorize(e) => json!({"k": "factorize", "e": expr_json(e)}),
        Query::UnitsFor(e) => json!({"k": "unitsfor", "e": expr_json(e)}),
        Query::Search(s) => json!({"k": "search", "s": text(s)}),
        Query::Error(_) => json!({"k": "qerr"}),
    }
}

/// JSON (Grammar.tla shape) -> Expr, with the crate's own constructors (used by C11).
pub fn json_expr(v: &Value) -> Option<Expr> {
    use crate::conv::{json_int, limbs_nat, untext};
    use rink_core::ast::Function;
    use rink_core::types::{BigInt, BigRat};
    let k = v["k"].as_str()?;
    Some(match k {
        "unit" => Expr::new_unit(untext(&v["name"])),
        "quote" => Expr::Quote { string: untext(&v["s"]) },
        "const" => {
            let n = json_int(&v["v"]["n"]);
            let d = num_bigint::BigInt::from(limbs_nat(&v["v"]["d"]));
            Expr::new_const(Numeric::Rational(BigRat::ratio(&BigInt::from(n), &BigInt::from(d))))
        }
        "bin" => {
            let l = json_expr(&v["l"])?;
            let r = json_expr(&v["r"])?;
            let op = match v["op"].as_str()? {
                "add" => BinOpType::Add,
                "sub" => BinOpType::Sub,
                "frac" => BinOpType::Frac,
                "pow" => BinOpType::Pow,
                "equals" => BinOpType::Equals,
                "shl" => BinOpType::ShiftL,
                "shr" => BinOpType::ShiftR,
                "mod" => BinOpType::Mod,
                "and" => BinOpType::And,
                "or" => BinOpType::Or,
                "xor" => BinOpType::Xor,
                _ => return None,
            };
            Expr::new_bin(op, l, r)
        }
        "un" => {
            let e = json_expr(&v["e"])?;
            match v["op"].as_str()? {
                "neg" => Expr::new_negate(e),
                "pos" => Expr::new_plus(e),
                "celsius" => Expr::new_suffix(Degree::Celsius, e),
                "fahrenheit" => Expr::new_suffix(Degree::Fahrenheit, e),
                "reaumur" => Expr::new_suffix(Degree::Reaumur, e),
                "romer" => Expr::new_suffix(Degree::Romer, e),
                "delisle" => Expr::new_suffix(Degree::Delisle, e),
                "newton" => Expr::new_suffix(Degree::Newton, e),
                _ => return None,
            }
        }
        "mul" => Expr::Mul { exprs: v["es"].as_array()?.iter().map(json_expr).collect::<Option<Vec<_>>>()? },
        "of" => Expr::new_of(&untext(&v["prop"]), json_expr(&v["e"])?),
        "call" => Expr::new_call(
            Function::from_name(v["f"].as_str()?)?,
            v["args"].as_array()?.iter().map(json_expr).collect::<Option<Vec<_>>>()?,
        ),
        _ => return None,
    })
}
