//! Shared helpers for the conformance harness binaries.
//!
//! Trusted base (DESIGN.md section 2): text <-> code points, bigint <-> base-4096
//! limbs, JSON I/O, a tiny PRNG, process control. Everything else is decided by the
//! TLA+ specification.

pub mod rng;
pub mod conv;
pub mod astjson;
pub mod obs;
pub mod worker;
pub mod dump;
pub mod session;
