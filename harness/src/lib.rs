pub fn hello() {}
