//! C19: drives the real `rink_sandbox::Alloc`.
//!
//!   rv-alloc replay <cases.ndjson> <scale>   run TLC-generated sequences (one per line),
//!                                            print one observation line per case
//!   rv-alloc stress <threads> <epochs> <ops> <limit>   free-running threads, one event per epoch
use rink_sandbox::Alloc;
use rv_harness::rng::{seed_from_env, Rng};
use serde_json::{json, Value};
use std::alloc::{GlobalAlloc, Layout};
use std::collections::BTreeMap;
use std::io::{BufRead, Write};
use std::sync::{Arc, Barrier, Mutex};

fn pattern(blk: u64, i: usize) -> u8 {
    (blk as usize * 31 + i * 7 + 3) as u8
}

unsafe fn fill(p: *mut u8, n: usize, blk: u64) {
    for i in 0..n {
        *p.add(i) = pattern(blk, i);
    }
}

unsafe fn intact(p: *mut u8, n: usize, blk: u64) -> bool {
    (0..n).all(|i| *p.add(i) == pattern(blk, i))
}

fn replay(path: &str, scale: usize) {
    let f = std::fs::File::open(path).expect("cases file");
    let out = std::io::stdout();
    let mut out = std::io::BufWriter::new(out.lock());
    for line in std::io::BufReader::new(f).lines() {
        let line = line.unwrap();
        if line.trim().is_empty() {
            continue;
        }
        let case: Value = serde_json::from_str(&line).unwrap();
        let res = std::panic::catch_unwind(|| replay_one(&case, scale));
        match res {
            Ok(v) => writeln!(out, "{}", v).unwrap(),
            Err(e) => writeln!(out, "{}", json!({"panic": panic_text(e)})).unwrap(),
        }
    }
}

fn panic_text(e: Box<dyn std::any::Any + Send>) -> String {
    if let Some(s) = e.downcast_ref::<String>() {
        s.clone()
    } else if let Some(s) = e.downcast_ref::<&str>() {
        s.to_string()
    } else {
        "panic".to_string()
    }
}

fn replay_one(case: &Value, scale: usize) -> Value {
    {
        let limit = case["limit"].as_u64().unwrap() as usize * scale;
        let a = Alloc::new(limit);
        let mut blocks: BTreeMap<u64, (*mut u8, usize)> = BTreeMap::new();
        let mut obs = vec![];
        let mut intact_ok = true;
        let mut zero_ok = true;
        for op in case["ops"].as_array().unwrap() {
            let kind = op["op"].as_str().unwrap();
            let size = op["size"].as_u64().unwrap() as usize * scale;
            let blk = op["blk"].as_u64().unwrap();
            unsafe {
                match kind {
                    "alloc" | "allocz" => {
                        let layout = Layout::from_size_align(size, 8).unwrap();
                        let p = if kind == "alloc" { a.alloc(layout) } else { a.alloc_zeroed(layout) };
                        if !p.is_null() {
                            if kind == "allocz" && !(0..size).all(|i| *p.add(i) == 0) {
                                zero_ok = false;
                            }
                            fill(p, size, blk);
                            blocks.insert(blk, (p, size));
                        }
                        obs.push(!p.is_null());
                    }
                    "realloc" => {
                        let (p, old) = blocks[&blk];
                        let layout = Layout::from_size_align(old, 8).unwrap();
                        let q = a.realloc(p, layout, size);
                        if q.is_null() {
                            // the original block must be intact and still owned
                            if !intact(p, old, blk) {
                                intact_ok = false;
                            }
                        } else {
                            if !intact(q, old.min(size), blk) {
                                intact_ok = false;
                            }
                            fill(q, size, blk);
                            blocks.insert(blk, (q, size));
                        }
                        obs.push(!q.is_null());
                    }
                    "dealloc" => {
                        let (p, old) = blocks.remove(&blk).unwrap();
                        if !intact(p, old, blk) {
                            intact_ok = false;
                        }
                        a.dealloc(p, Layout::from_size_align(old, 8).unwrap());
                        obs.push(true);
                    }
                    "reset" => {
                        a.reset_max();
                        obs.push(true);
                    }
                    _ => panic!("unknown op"),
                }
            }
        }
        let peak = a.get_max();
        a.reset_max();
        let usage = a.get_max();
        let live: usize = blocks.values().map(|b| b.1).sum();
        for (_, (p, n)) in blocks {
            unsafe { a.dealloc(p, Layout::from_size_align(n, 8).unwrap()) };
        }
        a.reset_max();
        let after_free = a.get_max();
        json!({"obs": obs, "peak": peak, "usage": usage, "live_bytes": live,
               "after_free": after_free, "intact": intact_ok, "zeroed": zero_ok})
    }
}

struct Shared(Alloc);
unsafe impl Sync for Shared {}

/// Free-running stress: every thread owns its blocks; after each epoch (barrier) the main
/// thread reads peak and usage. One NDJSON event per epoch, for Trace_AllocAbs.tla.
fn stress(threads: usize, epochs: usize, ops: usize, limit: usize) {
    let seed = seed_from_env();
    let a = Arc::new(Shared(Alloc::new(limit)));
    let bar = Arc::new(Barrier::new(threads + 1));
    let logs: Arc<Mutex<Vec<Vec<Value>>>> = Arc::new(Mutex::new(vec![vec![]; threads]));
    let sizes = [1usize, limit / 7 + 1, limit / 3, limit / 2, limit, limit + 1];
    let mut handles = vec![];
    for t in 0..threads {
        let a = a.clone();
        let bar = bar.clone();
        let logs = logs.clone();
        handles.push(std::thread::spawn(move || {
            let mut rng = Rng::new(seed ^ ((t as u64 + 1) << 32));
            let mut blocks: BTreeMap<u64, (usize, usize)> = BTreeMap::new(); // blk -> (ptr, size)
            let mut next_blk = (t as u64) * 1_000_000 + 1;
            let mut bad = false;
            for _e in 0..epochs {
                let mut mine = vec![];
                let r = std::panic::catch_unwind(std::panic::AssertUnwindSafe(|| {
                for _ in 0..ops {
                    let choice = rng.below(10);
                    let size = *rng.pick(&sizes);
                    unsafe {
                        if blocks.is_empty() || choice < 4 {
                            let layout = Layout::from_size_align(size, 8).unwrap();
                            let z = rng.chance(1, 2);
                            let p = if z { a.0.alloc_zeroed(layout) } else { a.0.alloc(layout) };
                            let blk = next_blk;
                            next_blk += 1;
                            if !p.is_null() {
                                fill(p, size, blk);
                                blocks.insert(blk, (p as usize, size));
                            }
                            mine.push(json!({"thr": t, "op": if z {"allocz"} else {"alloc"}, "blk": blk, "size": size, "ok": !p.is_null()}));
                        } else if choice < 7 {
                            let keys: Vec<u64> = blocks.keys().copied().collect();
                            let blk = *rng.pick(&keys);
                            let (p, old) = blocks[&blk];
                            let q = a.0.realloc(p as *mut u8, Layout::from_size_align(old, 8).unwrap(), size);
                            if q.is_null() {
                                if !intact(p as *mut u8, old, blk) { bad = true; }
                            } else {
                                if !intact(q, old.min(size), blk) { bad = true; }
                                fill(q, size, blk);
                                blocks.insert(blk, (q as usize, size));
                            }
                            mine.push(json!({"thr": t, "op": "realloc", "blk": blk, "size": size, "old": old, "ok": !q.is_null()}));
                        } else {
                            let keys: Vec<u64> = blocks.keys().copied().collect();
                            let blk = *rng.pick(&keys);
                            let (p, old) = blocks.remove(&blk).unwrap();
                            if !intact(p as *mut u8, old, blk) { bad = true; }
                            a.0.dealloc(p as *mut u8, Layout::from_size_align(old, 8).unwrap());
                            mine.push(json!({"thr": t, "op": "dealloc", "blk": blk, "size": old, "ok": true}));
                        }
                    }
                }
                }));
                if r.is_err() {
                    bad = true;
                }
                if bad {
                    mine.push(json!({"thr": t, "op": "corrupt", "blk": 0, "size": 0, "ok": false}));
                }
                logs.lock().unwrap()[t] = mine;
                bar.wait(); // end of epoch: quiescent
                bar.wait(); // main has read the counters
            }
            for (_, (p, n)) in blocks {
                unsafe { a.0.dealloc(p as *mut u8, Layout::from_size_align(n, 8).unwrap()) };
            }
        }));
    }
    let out = std::io::stdout();
    let mut out = std::io::BufWriter::new(out.lock());
    for e in 0..epochs {
        bar.wait();
        let peak = a.0.get_max();
        a.0.reset_max();
        let usage = a.0.get_max();
        let ops: Vec<Value> = logs.lock().unwrap().iter().flat_map(|v| v.clone()).collect();
        writeln!(out, "{}", json!({"ev": "epoch", "n": e, "threads": threads, "limit": limit, "ops": ops, "peak": peak, "usage": usage})).unwrap();
        bar.wait();
    }
    for h in handles {
        if h.join().is_err() {
            writeln!(out, "{}", json!({"ev": "panic", "limit": limit})).unwrap();
        }
    }
    a.0.reset_max();
    writeln!(out, "{}", json!({"ev": "end", "usage": a.0.get_max(), "limit": limit})).unwrap();
}

// ---------------------------------------------------------------------------------------------
// Scheduled replay: TLC-generated interleavings driven through the schedule points.

struct SchedState {
    steps: Vec<(usize, String)>,
    i: usize,
    holding: Vec<bool>,
    free_run: bool,
    desync: Option<String>,
}

static SCHED: Mutex<Option<SchedState>> = Mutex::new(None);
static CV: std::sync::Condvar = std::sync::Condvar::new();
thread_local! { static TID: std::cell::Cell<usize> = std::cell::Cell::new(0); }

fn gate(label: &'static str) {
    let tid = TID.with(|t| t.get());
    if tid == 0 {
        return;
    }
    let mut g = SCHED.lock().unwrap();
    {
        let s = g.as_mut().unwrap();
        if s.holding[tid] {
            s.holding[tid] = false;
            s.i += 1;
            CV.notify_all();
        }
    }
    loop {
        let s = g.as_mut().unwrap();
        if s.free_run {
            return;
        }
        if s.i >= s.steps.len() {
            s.free_run = true;
            s.desync = Some(format!("schedule exhausted at gate {} of thread {}", label, tid));
            CV.notify_all();
            return;
        }
        if s.steps[s.i].0 == tid {
            if s.steps[s.i].1 != label {
                s.desync = Some(format!("step {}: model expects thread {} at {}, code is at {}", s.i, tid, s.steps[s.i].1, label));
                s.free_run = true;
                CV.notify_all();
                return;
            }
            s.holding[tid] = true;
            return;
        }
        let (g2, to) = CV.wait_timeout(g, std::time::Duration::from_millis(2000)).unwrap();
        g = g2;
        if to.timed_out() {
            let s = g.as_mut().unwrap();
            if !s.free_run {
                s.desync = Some(format!("step {}: thread {} waited 2s at {} (turn of thread {})", s.i, tid, label, s.steps.get(s.i).map(|x| x.0).unwrap_or(0)));
                s.free_run = true;
                CV.notify_all();
            }
            return;
        }
    }
}

fn finish_thread() {
    let tid = TID.with(|t| t.get());
    let mut g = SCHED.lock().unwrap();
    let s = g.as_mut().unwrap();
    if s.holding[tid] {
        s.holding[tid] = false;
        s.i += 1;
        CV.notify_all();
    }
}

fn sched(path: &str, scale: usize) {
    rink_sandbox::verif::set_point_hook(Some(gate));
    let f = std::fs::File::open(path).expect("schedule file");
    let out = std::io::stdout();
    let mut out = std::io::BufWriter::new(out.lock());
    for line in std::io::BufReader::new(f).lines() {
        let line = line.unwrap();
        if line.trim().is_empty() {
            continue;
        }
        let case: Value = serde_json::from_str(&line).unwrap();
        let limit = case["limit"].as_u64().unwrap() as usize * scale;
        let steps: Vec<(usize, String)> = case["steps"]
            .as_array()
            .unwrap()
            .iter()
            .filter(|s| s["at"] != "m_store")
            .map(|s| (s["t"].as_u64().unwrap() as usize, s["at"].as_str().unwrap().to_string()))
            .collect();
        let nthreads = steps.iter().map(|s| s.0).max().unwrap_or(1);
        // per-thread programs from the 'idle' (start) steps
        let mut programs: Vec<Vec<(String, usize, u64)>> = vec![vec![]; nthreads + 1];
        for s in case["steps"].as_array().unwrap() {
            if s["at"] == "idle" {
                programs[s["t"].as_u64().unwrap() as usize].push((
                    s["op"].as_str().unwrap().to_string(),
                    s["size"].as_u64().unwrap() as usize * scale,
                    s["blk"].as_u64().unwrap(),
                ));
            }
        }
        *SCHED.lock().unwrap() = Some(SchedState { steps, i: 0, holding: vec![false; nthreads + 1], free_run: false, desync: None });
        let a = Arc::new(Shared(Alloc::new(limit)));
        let table: Arc<Mutex<BTreeMap<u64, (usize, usize)>>> = Arc::new(Mutex::new(BTreeMap::new()));
        let results: Arc<Mutex<Vec<Value>>> = Arc::new(Mutex::new(vec![]));
        let bad = Arc::new(Mutex::new(false));
        let mut hs = vec![];
        for t in 1..=nthreads {
            let prog = programs[t].clone();
            let a = a.clone();
            let table = table.clone();
            let results = results.clone();
            let bad = bad.clone();
            hs.push(std::thread::spawn(move || {
                TID.with(|x| x.set(t));
                for (op, size, blk) in prog {
                    gate("idle");
                    let ok;
                    unsafe {
                        match op.as_str() {
                            "alloc" | "allocz" => {
                                let layout = Layout::from_size_align(size, 8).unwrap();
                                let p = if op == "alloc" { a.0.alloc(layout) } else { a.0.alloc_zeroed(layout) };
                                if !p.is_null() {
                                    fill(p, size, blk);
                                    table.lock().unwrap().insert(blk, (p as usize, size));
                                }
                                ok = !p.is_null();
                            }
                            "realloc" => {
                                let ent = table.lock().unwrap().get(&blk).copied();
                                if let Some((p, old)) = ent {
                                    let q = a.0.realloc(p as *mut u8, Layout::from_size_align(old, 8).unwrap(), size);
                                    if q.is_null() {
                                        if !intact(p as *mut u8, old, blk) { *bad.lock().unwrap() = true; }
                                    } else {
                                        if !intact(q, old.min(size), blk) { *bad.lock().unwrap() = true; }
                                        fill(q, size, blk);
                                        table.lock().unwrap().insert(blk, (q as usize, size));
                                    }
                                    ok = !q.is_null();
                                } else {
                                    // the block the model reallocates does not exist here (earlier divergence)
                                    results.lock().unwrap().push(json!({"t": t, "op": "skipped", "blk": blk, "size": size, "ok": false}));
                                    continue;
                                }
                            }
                            "dealloc" => {
                                let ent = table.lock().unwrap().remove(&blk);
                                if let Some((p, old)) = ent {
                                    if !intact(p as *mut u8, old, blk) { *bad.lock().unwrap() = true; }
                                    a.0.dealloc(p as *mut u8, Layout::from_size_align(old, 8).unwrap());
                                    ok = true;
                                } else {
                                    results.lock().unwrap().push(json!({"t": t, "op": "skipped", "blk": blk, "size": size, "ok": false}));
                                    continue;
                                }
                            }
                            _ => { ok = true; }
                        }
                    }
                    results.lock().unwrap().push(json!({"t": t, "op": op, "blk": blk, "size": size, "ok": ok}));
                }
                finish_thread();
                TID.with(|x| x.set(0));
            }));
        }
        let mut panicked = false;
        for h in hs {
            if h.join().is_err() {
                panicked = true;
            }
        }
        if panicked {
            *SCHED.lock().unwrap_or_else(|e| e.into_inner()) = None;
            writeln!(out, "{}", json!({"panic": "a model thread panicked inside the allocator"})).unwrap();
            continue;
        }
        let desync = SCHED.lock().unwrap().as_ref().unwrap().desync.clone();
        *SCHED.lock().unwrap() = None;
        let peak = a.0.get_max();
        a.0.reset_max();
        let usage = a.0.get_max();
        let tbl = table.lock().unwrap().clone();
        let live: usize = tbl.values().map(|b| b.1).sum();
        for (_, (p, n)) in tbl {
            unsafe { a.0.dealloc(p as *mut u8, Layout::from_size_align(n, 8).unwrap()) };
        }
        a.0.reset_max();
        let after_free = a.0.get_max();
        let res = results.lock().unwrap().clone();
        writeln!(out, "{}", json!({"results": res, "peak": peak, "usage": usage, "live_bytes": live,
            "after_free": after_free, "intact": !*bad.lock().unwrap(), "desync": desync})).unwrap();
    }
    rink_sandbox::verif::set_point_hook(None);
}

fn main() {
    std::panic::set_hook(Box::new(|_| {}));
    let args: Vec<String> = std::env::args().collect();
    match args.get(1).map(|s| s.as_str()) {
        Some("replay") => replay(&args[2], args[3].parse().unwrap()),
        Some("sched") => sched(&args[2], args[3].parse().unwrap()),
        Some("stress") => stress(
            args[2].parse().unwrap(),
            args[3].parse().unwrap(),
            args[4].parse().unwrap(),
            args[5].parse().unwrap(),
        ),
        _ => {
            eprintln!("usage: rv-alloc replay|stress ...");
            std::process::exit(2);
        }
    }
}
