//! C18: drives the real `rink_sandbox::Sandbox` with a test service whose requests can
//! add, panic, sleep, allocate, exit or carry a big payload.
//!
//!   rv-sandbox run <cases.ndjson> [jobs]   one observation line per case (in input order); every
//!                                          case runs in its own process (`one`), `jobs` at a time
//!                                          (async_ctrlc allows a single Sandbox per process)
//!   rv-sandbox one <case-json>             run one case here, print its observation
//!   rv-sandbox --child                     the sandboxed child (rink_sandbox::become_child)
//!
//! A case is `{"plan":[kind..], "gaps":[ms..], "mode":"async"|"block", "timeout_ms":n, "limit":bytes,
//! "slow_ms":n, "abandon_ms":n, "big_bytes":n}` with request kinds ok | panic | overrun | oom | exit | big |
//! slow (handler sleeps slow_ms, within the limit) | bigin / bigout (payload only in the request / only in
//! the reply) and the environment events
//!   abandon / abover   the caller drops the future of `execute(slow)` / `execute(overrun)` after abandon_ms
//!                      (reply class `abandoned`; if the call returned earlier, what it returned)
//!   kill               the child is killed from outside (SIGKILL) while it is idle: the harness waits until
//!                      the parent task is waiting for a request, kills the pid of the last `spawned` event and,
//!                      when the next entry has a gap, waits until that process is gone (reply class `env`)
//! The observation lists, per plan entry, the
//! reply class (ok + echoed id + own-result flag + child pid / panic / timeout / crashed /
//! send_failed / recv_failed / hang / other + error text) and the protocol events logged through
//! the guarded hook `rink_sandbox::verif::event` plus the caller's own call/ret marks.
use rink_sandbox::{Alloc, Error, Sandbox, Service};
use serde_derive::{Deserialize, Serialize};
use serde_json::{json, Value};
use std::ffi::OsString;
use std::io::{BufRead, Error as IoError, Write};
use std::sync::atomic::{AtomicUsize, Ordering};
use std::sync::{Arc, Mutex};
use std::time::{Duration, Instant};

#[global_allocator]
static GLOBAL: Alloc = Alloc::new(usize::MAX);

#[derive(Serialize, Deserialize, Clone)]
struct TestConfig {
    timeout_ms: u64,
    limit: usize,
}

#[derive(Serialize, Deserialize)]
enum Req {
    Add(u32, i64, i64),
    Panic(u32),
    Sleep(u32, u64),
    Alloc(u32, usize),
    Exit(u32),
    Big(u32, Vec<u8>),
    SlowAdd(u32, u64, i64, i64),
    BigIn(u32, Vec<u8>),
    BigOut(u32, u32),
}

#[derive(Serialize, Deserialize)]
enum Res {
    Sum { id: u32, value: i64, pid: u32 },
    Slept { id: u32, pid: u32 },
    Allocated { id: u32, pid: u32, sum: u64 },
    Echo { id: u32, pid: u32, data: Vec<u8>, checksum: u64 },
    Digest { id: u32, pid: u32, len: u32, checksum: u64 },
}

/// Like cli/src/service.rs (RinkService), the service keeps state behind a mutex that is held for the whole of
/// `handle`: a panic poisons it, so a child that is kept after a panic cannot serve later requests normally.
struct TestSvc {
    served: Mutex<u64>,
}

fn checksum(data: &[u8]) -> u64 {
    let mut h: u64 = 0xcbf29ce484222325;
    for b in data {
        h ^= *b as u64;
        h = h.wrapping_mul(0x100000001b3);
    }
    h
}

impl Service for TestSvc {
    type Req = Req;
    type Res = Res;
    type Config = TestConfig;

    fn args(_config: &Self::Config) -> Vec<OsString> {
        vec!["--child".into()]
    }

    fn timeout(config: &Self::Config) -> Duration {
        Duration::from_millis(config.timeout_ms)
    }

    fn create(config: Self::Config) -> Result<Self, IoError> {
        // as cli/src/service.rs does: the limit is set when the service is created in the child
        GLOBAL.set_limit(config.limit);
        Ok(TestSvc { served: Mutex::new(0) })
    }

    fn handle(&self, request: Self::Req) -> Self::Res {
        let mut served = self.served.lock().unwrap();
        *served += 1;
        let pid = std::process::id();
        match request {
            Req::Add(id, a, b) => Res::Sum { id, value: a + b, pid },
            Req::Panic(id) => panic!("rv-sandbox test panic id={}", id),
            Req::Sleep(id, ms) => {
                std::thread::sleep(Duration::from_millis(ms));
                Res::Slept { id, pid }
            }
            Req::Alloc(id, bytes) => {
                // allocate and touch beyond the limit: the limiting allocator refuses, the child aborts
                let mut v: Vec<u8> = Vec::with_capacity(bytes);
                v.resize(bytes, 1);
                let mut sum = 0u64;
                let mut i = 0;
                while i < v.len() {
                    sum += v[i] as u64;
                    i += 4096;
                }
                Res::Allocated { id, pid, sum: std::hint::black_box(sum) }
            }
            Req::Exit(_id) => std::process::exit(0),
            Req::Big(id, data) => {
                let checksum = checksum(&data);
                Res::Echo { id, pid, data, checksum }
            }
            Req::SlowAdd(id, ms, a, b) => {
                std::thread::sleep(Duration::from_millis(ms));
                Res::Sum { id, value: a + b, pid }
            }
            Req::BigIn(id, data) => Res::Digest { id, pid, len: data.len() as u32, checksum: checksum(&data) },
            Req::BigOut(id, n) => {
                let data = payload(id, n as usize);
                let checksum = checksum(&data);
                Res::Echo { id, pid, data, checksum }
            }
        }
    }
}

// ---------------------------------------------------------------------------------------------
// event log (protocol events of parent.rs through the guarded hook, call/ret marks of the caller)

static EVENTS: Mutex<Vec<(String, i64)>> = Mutex::new(Vec::new());

fn log_event(name: &'static str, value: i64) {
    if let Ok(mut g) = EVENTS.lock() {
        g.push((name.to_string(), value));
    }
}

fn payload(id: u32, n: usize) -> Vec<u8> {
    (0..n).map(|i| ((i as u32).wrapping_mul(31).wrapping_add(id.wrapping_mul(7)) % 251) as u8).collect()
}

const BIG_BYTES: usize = 200_000; // > 64 KiB pipe buffer: request and reply need several write/read steps

#[derive(Clone, Copy)]
struct Params {
    timeout_ms: u64,
    limit: usize,
    slow_ms: u64,
    abandon_ms: u64,
    big_bytes: usize,
}

fn make_req(kind: &str, id: u32, p: &Params) -> Req {
    match kind {
        "ok" => Req::Add(id, 100 + id as i64, 7 * id as i64),
        "slow" | "abandon" => Req::SlowAdd(id, p.slow_ms, 100 + id as i64, 7 * id as i64),
        "panic" => Req::Panic(id),
        "overrun" | "abover" => Req::Sleep(id, p.timeout_ms * 20),
        "oom" => Req::Alloc(id, p.limit * 2),
        "exit" => Req::Exit(id),
        "big" => Req::Big(id, payload(id, p.big_bytes)),
        "bigin" => Req::BigIn(id, payload(id, p.big_bytes)),
        "bigout" => Req::BigOut(id, p.big_bytes as u32),
        other => panic!("unknown request kind {}", other),
    }
}

fn classify(kind: &str, id: u32, p: &Params, r: Result<rink_sandbox::Response<Res>, Error>) -> Value {
    match r {
        Ok(resp) => match resp.result {
            Res::Sum { id: rid, value, pid } => {
                let own = matches!(kind, "ok" | "slow" | "abandon") && rid == id && value == (100 + id as i64) + 7 * id as i64;
                json!({"class": "ok", "res": "sum", "id": rid, "value": value, "pid": pid, "own": own})
            }
            Res::Echo { id: rid, pid, data, checksum: cs } => {
                let own = matches!(kind, "big" | "bigout") && rid == id && data == payload(id, p.big_bytes) && cs == checksum(&data);
                json!({"class": "ok", "res": "echo", "id": rid, "len": data.len(), "pid": pid, "own": own})
            }
            Res::Digest { id: rid, pid, len, checksum: cs } => {
                let own = kind == "bigin" && rid == id && len as usize == p.big_bytes && cs == checksum(&payload(id, p.big_bytes));
                json!({"class": "ok", "res": "digest", "id": rid, "len": len, "pid": pid, "own": own})
            }
            Res::Slept { id: rid, pid } => json!({"class": "ok", "res": "slept", "id": rid, "pid": pid, "own": false}),
            Res::Allocated { id: rid, pid, .. } => {
                json!({"class": "ok", "res": "allocated", "id": rid, "pid": pid, "own": false})
            }
        },
        Err(Error::Panic(msg)) => {
            let own = msg.contains(&format!("rv-sandbox test panic id={}", id));
            let short: String = msg.chars().take(160).collect();
            json!({"class": "panic", "own": own, "text": short})
        }
        Err(Error::Timeout(d)) => json!({"class": "timeout", "text": format!("{:?}", d)}),
        Err(Error::Crashed) => json!({"class": "crashed"}),
        Err(Error::Send(what)) => json!({"class": "send_failed", "text": what}),
        Err(Error::Recv(e)) => json!({"class": "recv_failed", "text": e.to_string()}),
        Err(e) => json!({"class": "other", "text": format!("{} / {:?}", e, e)}),
    }
}

const PARENT_EVENTS: [&str; 6] = ["spawned", "handshake_done", "request_written", "response", "delivered", "killed"];

/// (the parent task is waiting for a request: child booted, nothing in flight; pid of the last child spawned)
fn parent_state() -> (bool, Option<i64>) {
    let g = EVENTS.lock().unwrap();
    let last = g.iter().rev().find(|(n, _)| PARENT_EVENTS.contains(&n.as_str()));
    let idle = matches!(last, Some((n, _)) if n == "handshake_done" || n == "delivered");
    let pid = g.iter().rev().find(|(n, _)| n == "spawned").map(|(_, v)| *v);
    (idle, pid)
}

/// is the process gone (reaped, or a zombie: its pipe ends are closed)?
fn process_gone(pid: i64) -> bool {
    match std::fs::read_to_string(format!("/proc/{}/stat", pid)) {
        Err(_) => true,
        Ok(s) => match s.rfind(')') {
            Some(i) => matches!(s[i + 1..].trim_start().chars().next(), Some('Z') | Some('X')),
            None => false,
        },
    }
}

/// Environment event: the child is killed from outside while it is idle.
async fn kill_idle_child(id: u32, wait_gone: bool) -> Value {
    let t = Instant::now();
    // let the parent task finish what it is doing (restart after a fault, first start): it runs on this thread
    let mut state = parent_state();
    while !state.0 && t.elapsed() < Duration::from_secs(3) {
        async_std::task::sleep(Duration::from_millis(2)).await;
        state = parent_state();
    }
    let (idle, pid) = state;
    let mut v = json!({"class": "env", "idle": idle, "pid": pid});
    log_event("envkill", id as i64);
    if let Some(pid) = pid {
        let was_gone = process_gone(pid);
        let rc = unsafe { libc::kill(pid as i32, libc::SIGKILL) };
        v["already_gone"] = json!(was_gone);
        v["rc"] = json!(rc);
        if wait_gone {
            let t1 = Instant::now();
            while !process_gone(pid) && t1.elapsed() < Duration::from_secs(5) {
                std::thread::sleep(Duration::from_millis(1));
            }
            v["gone"] = json!(process_gone(pid));
        }
    }
    v
}

fn run_one(case: &Value) -> Value {
    let plan: Vec<String> = case["plan"].as_array().unwrap().iter().map(|k| k.as_str().unwrap().to_string()).collect();
    let gaps: Vec<u64> = case["gaps"].as_array().map(|a| a.iter().map(|g| g.as_u64().unwrap_or(0)).collect()).unwrap_or_default();
    let block = case["mode"].as_str() == Some("block");
    let timeout_ms = case["timeout_ms"].as_u64().unwrap_or(200);
    let params = Params {
        timeout_ms,
        limit: case["limit"].as_u64().unwrap_or(32 << 20) as usize,
        slow_ms: case["slow_ms"].as_u64().unwrap_or(timeout_ms / 2),
        abandon_ms: case["abandon_ms"].as_u64().unwrap_or(timeout_ms / 8),
        big_bytes: case["big_bytes"].as_u64().map(|n| n as usize).unwrap_or(BIG_BYTES),
    };
    let call_deadline = Duration::from_millis(case["deadline_ms"].as_u64().unwrap_or(5000));
    rink_sandbox::verif::set_event_hook(Some(log_event));
    let t0 = Instant::now();
    let replies = async_std::task::block_on(async {
        let mut replies = vec![];
        let sandbox = match Sandbox::<TestSvc>::new(TestConfig { timeout_ms, limit: params.limit }).await {
            Ok(s) => s,
            Err(e) => {
                replies.push(json!({"class": "other", "text": format!("Sandbox::new failed: {}", e)}));
                return replies;
            }
        };
        for (i, kind) in plan.iter().enumerate() {
            let id = (i + 1) as u32;
            let gap = gaps.get(i).copied().unwrap_or(0);
            if i > 0 && gap > 0 {
                if block {
                    std::thread::sleep(Duration::from_millis(gap));
                } else {
                    async_std::task::sleep(Duration::from_millis(gap)).await;
                }
            }
            let t = Instant::now();
            if kind == "kill" {
                let mut v = kill_idle_child(id, gaps.get(i + 1).copied().unwrap_or(0) > 0).await;
                v["ms"] = json!(t.elapsed().as_millis() as u64);
                replies.push(v);
                continue;
            }
            let req = make_req(kind, id, &params);
            // the caller gives up on this request: the future returned by execute is dropped
            let give_up = if kind == "abandon" || kind == "abover" { Duration::from_millis(params.abandon_ms) } else { call_deadline };
            log_event("call", id as i64);
            let r = async_std::future::timeout(give_up, sandbox.execute(req)).await;
            log_event("ret", id as i64);
            let mut v = match r {
                Ok(r) => classify(kind, id, &params, r),
                Err(_) if give_up < call_deadline => json!({"class": "abandoned"}),
                Err(_) => json!({"class": "hang", "text": format!("execute did not return within {:?}", call_deadline)}),
            };
            v["ms"] = json!(t.elapsed().as_millis() as u64);
            let hang = v["class"] == "hang";
            replies.push(v);
            if hang {
                break; // the call is still pending inside the Sandbox; nothing more can be said
            }
        }
        let _ = async_std::future::timeout(Duration::from_secs(2), sandbox.terminate()).await;
        replies
    });
    rink_sandbox::verif::set_event_hook(None);
    let events: Vec<Value> = EVENTS.lock().unwrap().iter().map(|(n, v)| json!([n, v])).collect();
    json!({"replies": replies, "events": events, "wall_ms": t0.elapsed().as_millis() as u64})
}

fn run_many(path: &str, jobs: usize) {
    let f = std::fs::File::open(path).expect("cases file");
    let cases: Vec<String> = std::io::BufReader::new(f)
        .lines()
        .map(|l| l.unwrap())
        .filter(|l| !l.trim().is_empty())
        .collect();
    let n = cases.len();
    let cases = Arc::new(cases);
    let results: Arc<Vec<Mutex<Option<String>>>> = Arc::new((0..n).map(|_| Mutex::new(None)).collect());
    let next = Arc::new(AtomicUsize::new(0));
    let exe = std::env::current_exe().expect("current exe");
    let mut threads = vec![];
    for _ in 0..jobs.max(1) {
        let (cases, results, next, exe) = (cases.clone(), results.clone(), next.clone(), exe.clone());
        threads.push(std::thread::spawn(move || loop {
            let i = next.fetch_add(1, Ordering::SeqCst);
            if i >= cases.len() {
                break;
            }
            let line = one_process(&exe, &cases[i]);
            *results[i].lock().unwrap() = Some(line);
        }));
    }
    for t in threads {
        t.join().unwrap();
    }
    let out = std::io::stdout();
    let mut out = std::io::BufWriter::new(out.lock());
    for r in results.iter() {
        writeln!(out, "{}", r.lock().unwrap().take().unwrap()).unwrap();
    }
}

/// One case in its own process. Whatever that process does (panic of the parent task, abort,
/// no output, overrunning its watchdog) is data.
fn one_process(exe: &std::path::Path, case: &str) -> String {
    use std::process::{Command, Stdio};
    let child = match Command::new(exe)
        .arg("one")
        .arg(case)
        .stdin(Stdio::null())
        .stdout(Stdio::piped())
        .stderr(Stdio::piped())
        .spawn()
    {
        Ok(c) => c,
        Err(e) => return json!({"tool_error": format!("cannot start the case process: {}", e)}).to_string(),
    };
    let pid = child.id();
    // watchdog: 5 requests x 5 s deadline + slack
    let done = Arc::new(Mutex::new(false));
    let killed = Arc::new(Mutex::new(false));
    {
        let (done, killed) = (done.clone(), killed.clone());
        std::thread::spawn(move || {
            let t0 = Instant::now();
            while t0.elapsed() < Duration::from_secs(40) {
                std::thread::sleep(Duration::from_millis(50));
                if *done.lock().unwrap() {
                    return;
                }
            }
            *killed.lock().unwrap() = true;
            unsafe {
                libc::kill(pid as i32, libc::SIGKILL);
            }
        });
    }
    let out = child.wait_with_output();
    *done.lock().unwrap() = true;
    let out = match out {
        Ok(o) => o,
        Err(e) => return json!({"tool_error": format!("waiting for the case process: {}", e)}).to_string(),
    };
    let stdout = String::from_utf8_lossy(&out.stdout);
    let stderr = String::from_utf8_lossy(&out.stderr);
    let tail: String = stderr.chars().rev().take(600).collect::<String>().chars().rev().collect();
    if let Some(line) = stdout.lines().rev().find(|l| l.starts_with('{')) {
        if let Ok(mut v) = serde_json::from_str::<Value>(line) {
            v["exit"] = json!(out.status.code());
            return v.to_string();
        }
    }
    json!({"replies": [], "events": [], "crash": {"exit": out.status.code(), "watchdog": *killed.lock().unwrap(),
           "stderr": tail}})
    .to_string()
}

fn main() {
    let args: Vec<String> = std::env::args().collect();
    if args.len() > 1 && args[1] == "--child" {
        unsafe {
            // an aborting child must not write a core file
            let lim = libc::rlimit { rlim_cur: 0, rlim_max: 0 };
            libc::setrlimit(libc::RLIMIT_CORE, &lim);
        }
        rink_sandbox::become_child::<TestSvc, _>(&GLOBAL);
    }
    match args.get(1).map(|s| s.as_str()) {
        Some("one") => {
            let case: Value = serde_json::from_str(&args[2]).expect("case json");
            let v = run_one(&case);
            println!("{}", v);
            let _ = std::io::stdout().flush();
            std::process::exit(0);
        }
        Some("run") => {
            let jobs = args.get(3).and_then(|s| s.parse().ok()).unwrap_or(16);
            run_many(&args[2], jobs);
        }
        _ => {
            eprintln!("usage: rv-sandbox run <cases.ndjson> [jobs] | one <case-json> | --child");
            std::process::exit(2);
        }
    }
}
