//! C20: a tiny fault-injecting HTTP/1.1 server (std::net only).
//!
//!   rv-httpd <body-file> [--default MODE] [--log FILE] [--hold MS]
//!
//! Binds 127.0.0.1:0, prints `PORT <n>` on stdout, serves until stdin reaches EOF (so that
//! it never outlives the check that started it) or it is killed.  One thread per connection.
//! The behaviour is chosen by the request path (anything after the mode is ignored, so the
//! URL can still end in `/currency.json`); a path that names no mode uses `--default`.
//!
//!   /ok/<pieces>/...            200, Content-Length = full length, body sent in <pieces> flushes
//!   /cut/<k>/<pieces>/...       200, Content-Length = FULL length, only the first k body bytes are
//!                               sent (the pieces that fit, then the rest up to k), then the
//!                               connection is closed
//!   /okclose/<pieces>/...       200 WITHOUT Content-Length and without chunked encoding (`Connection: close`:
//!                               the body ends where the connection ends), complete body, orderly close
//!   /cutclose/<k>/<pieces>/...  the same framing, only the first k body bytes, then the same orderly close:
//!                               no HTTP client can tell this answer from a complete one by its framing
//!   /status/<code>/...          status <code> with a small body (Content-Length correct);
//!                               3xx carries a Location header pointing at /ok/1/
//!   /stall/none/...             request is read, nothing is ever sent
//!   /stall/<k>/<pieces>/...     headers + first k body bytes, then silence
//!                               (stalls hold the connection for --hold ms, default 4000, or until
//!                               the client goes away)
//!
//! "Connection refused" is not a mode: the check points the client at a port nobody listens on.
//! Every request is appended to the log file as `<path> <bytes of body sent>`.
use std::io::{Read, Write};
use std::net::{Shutdown, TcpListener, TcpStream};
use std::sync::{Arc, Mutex};
use std::time::{Duration, Instant};

struct Cfg {
    body: Vec<u8>,
    default_mode: String,
    log: Option<Mutex<std::fs::File>>,
    hold: Duration,
    port: u16,
}

const PAUSE: Duration = Duration::from_millis(12);

fn read_request(s: &mut TcpStream) -> Option<String> {
    let mut buf = Vec::new();
    let mut tmp = [0u8; 1024];
    let _ = s.set_read_timeout(Some(Duration::from_secs(5)));
    loop {
        match s.read(&mut tmp) {
            Ok(0) => return None,
            Ok(n) => {
                buf.extend_from_slice(&tmp[..n]);
                if buf.windows(4).any(|w| w == b"\r\n\r\n") {
                    break;
                }
                if buf.len() > 65536 {
                    return None;
                }
            }
            Err(_) => return None,
        }
    }
    let text = String::from_utf8_lossy(&buf);
    let line = text.lines().next()?;
    let mut it = line.split_whitespace();
    let _method = it.next()?;
    Some(it.next()?.to_string())
}

/// Send `data[..upto]` in about `pieces` flushes of equal size (piece boundaries are those of
/// the full body, so "cut after the k-th piece" and "complete" share their prefixes).
fn send_pieces(s: &mut TcpStream, data: &[u8], upto: usize, pieces: usize) -> usize {
    let pieces = pieces.max(1);
    let size = (data.len() + pieces - 1) / pieces;
    let size = size.max(1);
    let mut sent = 0;
    while sent < upto {
        let end = (sent + size).min(upto);
        if s.write_all(&data[sent..end]).is_err() {
            return sent;
        }
        let _ = s.flush();
        sent = end;
        if sent < upto {
            std::thread::sleep(PAUSE);
        }
    }
    sent
}

fn hold_open(s: &mut TcpStream, hold: Duration) {
    let t0 = Instant::now();
    let _ = s.set_read_timeout(Some(Duration::from_millis(50)));
    let mut tmp = [0u8; 256];
    while t0.elapsed() < hold {
        match s.read(&mut tmp) {
            Ok(0) => return, // client went away
            Ok(_) => {}
            Err(e) => {
                use std::io::ErrorKind::*;
                match e.kind() {
                    WouldBlock | TimedOut | Interrupted => {}
                    _ => return,
                }
            }
        }
    }
}

fn reason(code: u32) -> &'static str {
    match code {
        200 => "OK",
        301 => "Moved Permanently",
        302 => "Found",
        304 => "Not Modified",
        400 => "Bad Request",
        403 => "Forbidden",
        404 => "Not Found",
        500 => "Internal Server Error",
        502 => "Bad Gateway",
        503 => "Service Unavailable",
        _ => "Status",
    }
}

fn head(code: u32, len: usize, extra: &str) -> String {
    format!(
        "HTTP/1.1 {} {}\r\nServer: rv-httpd\r\nContent-Type: application/json\r\nContent-Length: {}\r\n{}Connection: close\r\n\r\n",
        code,
        reason(code),
        len,
        extra
    )
}

/// 200 whose body is delimited by the end of the connection (RFC 9112 section 6.3, case 8)
fn head_close() -> String {
    "HTTP/1.1 200 OK\r\nServer: rv-httpd\r\nContent-Type: application/json\r\nConnection: close\r\n\r\n".to_string()
}

fn num(parts: &[&str], i: usize, default: usize) -> usize {
    parts.get(i).and_then(|x| x.parse::<usize>().ok()).unwrap_or(default)
}

fn handle(mut s: TcpStream, cfg: Arc<Cfg>) {
    let _ = s.set_nodelay(true);
    let path = match read_request(&mut s) {
        Some(p) => p,
        None => return,
    };
    let mut parts: Vec<&str> = path.split('/').filter(|x| !x.is_empty()).collect();
    let known = ["ok", "cut", "status", "stall", "okclose", "cutclose"];
    let dflt: Vec<&str> = cfg.default_mode.split('/').filter(|x| !x.is_empty()).collect();
    if parts.is_empty() || !known.contains(&parts[0]) {
        parts = dflt;
    }
    let body = &cfg.body;
    let mut sent_body = 0usize;
    match parts.first().copied().unwrap_or("ok") {
        "ok" => {
            let pieces = num(&parts, 1, 1);
            if s.write_all(head(200, body.len(), "").as_bytes()).is_ok() {
                let _ = s.flush();
                sent_body = send_pieces(&mut s, body, body.len(), pieces);
            }
        }
        "cut" => {
            let k = num(&parts, 1, 0).min(body.len());
            let pieces = num(&parts, 2, 1);
            if s.write_all(head(200, body.len(), "").as_bytes()).is_ok() {
                let _ = s.flush();
                sent_body = send_pieces(&mut s, body, k, pieces);
            }
            // give the client a moment to drain what was sent, then cut
            std::thread::sleep(PAUSE);
        }
        "okclose" | "cutclose" => {
            let cut = parts[0] == "cutclose";
            let k = if cut { num(&parts, 1, 0).min(body.len()) } else { body.len() };
            let pieces = num(&parts, if cut { 2 } else { 1 }, 1);
            if s.write_all(head_close().as_bytes()).is_ok() {
                let _ = s.flush();
                sent_body = send_pieces(&mut s, body, k, pieces);
            }
            // the end of the body is the end of the connection: an orderly shutdown (FIN) below
            std::thread::sleep(PAUSE);
        }
        "status" => {
            let code = num(&parts, 1, 500) as u32;
            let msg = format!("{{\"error\": \"rv-httpd answers with status {}\"}}\n", code);
            let extra = if (300..400).contains(&code) {
                format!("Location: http://127.0.0.1:{}/ok/1/currency.json\r\n", cfg.port)
            } else {
                String::new()
            };
            if s.write_all(head(code, msg.len(), &extra).as_bytes()).is_ok() {
                let _ = s.write_all(msg.as_bytes());
                let _ = s.flush();
            }
        }
        "stall" => {
            if parts.get(1).copied() != Some("none") {
                let k = num(&parts, 1, 0).min(body.len());
                let pieces = num(&parts, 2, 1);
                if s.write_all(head(200, body.len(), "").as_bytes()).is_ok() {
                    let _ = s.flush();
                    sent_body = send_pieces(&mut s, body, k, pieces);
                }
            }
            hold_open(&mut s, cfg.hold);
        }
        _ => {}
    }
    if let Some(l) = &cfg.log {
        if let Ok(mut f) = l.lock() {
            let _ = writeln!(f, "{} {}", path, sent_body);
            let _ = f.flush();
        }
    }
    let _ = s.shutdown(Shutdown::Both);
}

fn main() {
    let args: Vec<String> = std::env::args().collect();
    if args.len() < 2 {
        eprintln!("usage: rv-httpd <body-file> [--default MODE] [--log FILE] [--hold MS]");
        std::process::exit(2);
    }
    let body = std::fs::read(&args[1]).expect("body file");
    let mut default_mode = "ok/1".to_string();
    let mut log = None;
    let mut hold = Duration::from_millis(4000);
    let mut i = 2;
    while i + 1 < args.len() {
        match args[i].as_str() {
            "--default" => default_mode = args[i + 1].clone(),
            "--log" => {
                log = Some(Mutex::new(
                    std::fs::OpenOptions::new().create(true).append(true).open(&args[i + 1]).expect("log file"),
                ))
            }
            "--hold" => hold = Duration::from_millis(args[i + 1].parse().expect("ms")),
            other => {
                eprintln!("unknown option {}", other);
                std::process::exit(2);
            }
        }
        i += 2;
    }
    let listener = TcpListener::bind("127.0.0.1:0").expect("bind");
    let port = listener.local_addr().unwrap().port();
    let cfg = Arc::new(Cfg { body, default_mode, log, hold, port });
    {
        let out = std::io::stdout();
        let mut out = out.lock();
        writeln!(out, "PORT {}", port).unwrap();
        out.flush().unwrap();
    }
    // exit when the parent closes our stdin
    std::thread::spawn(|| {
        let mut b = [0u8; 64];
        let stdin = std::io::stdin();
        let mut h = stdin.lock();
        loop {
            match h.read(&mut b) {
                Ok(0) | Err(_) => std::process::exit(0),
                Ok(_) => {}
            }
        }
    });
    for conn in listener.incoming() {
        if let Ok(s) = conn {
            let cfg = cfg.clone();
            std::thread::spawn(move || handle(s, cfg));
        }
    }
}
