//! Loader-level observations of rink-core (properties C08, C12, C13).
//!
//!   rv-load loadcheck                         JSON on stdout: result text of loading the bundled
//!                                             definitions and the currency overlay
//!   rv-load dump bundled|currency OUT         full registry dump (rv_harness::dump::registry_json plus
//!                                             doc texts, property docs and the load result)
//!   rv-load perm --ctx bundled|currency --n N --seed S --out F [--dumpdir D]
//!                                             C12 V leg: the parsed definition list is loaded in many
//!                                             orders / splits, every dump compared with the identity order
//!   rv-load gen --in F --out F                C12 G leg: small definition sets (one text per definition),
//!                                             every given order x split loaded, dumps compared
//!   rv-load jobs --in F --out F [--timeout-ms N]
//!                                             C13: {"defs": text} | {"currency": json, "base": "empty"|"bundled"}
//!                                             | {"dates": text}, each in an isolated worker
//!
//! A panic / abort / hang of the code under test is data (worker.rs), never a tool failure.
use rink_core::ast::{Def, DefEntry, Defs, Expr};
use rink_core::loader::gnu_units;
use rink_core::Context;
use rv_harness::conv::text;
use rv_harness::rng::Rng;
use rv_harness::worker::{run_isolated, Limits};
use serde_json::{json, Value};
use std::collections::hash_map::DefaultHasher;
use std::collections::BTreeMap;
use std::hash::Hasher;
use std::io::{BufRead, Write};
use std::time::{Duration, Instant};

const SNAPSHOT: &str = "/repo/core/tests/currency.snapshot.json";

fn load_json(r: &Result<(), String>) -> Value {
    match r {
        Ok(()) => json!({"ok": true, "msgs": []}),
        Err(e) => {
            let msgs: Vec<&str> = e.lines().skip(1).map(|l| l.trim()).collect();
            json!({"ok": false, "msgs": msgs, "head": e.lines().next().unwrap_or("")})
        }
    }
}

/// registry_json plus what it leaves out (doc texts, property docs) and the load result
fn full_dump(ctx: &Context, load: &Value) -> Value {
    let mut v = rv_harness::dump::registry_json(ctx);
    let r = &ctx.registry;
    v["doc_texts"] = Value::Array(
        r.docs
            .iter()
            .map(|(k, d)| json!({"s": k, "name": text(k), "text": d.text}))
            .collect(),
    );
    v["prop_docs"] = Value::Array(
        r.substances
            .iter()
            .flat_map(|(name, s)| {
                s.properties
                    .properties
                    .iter()
                    .filter_map(|(pn, p)| p.doc.as_ref().map(|d| json!({"subst": name, "prop": pn, "text": d.text})))
                    .collect::<Vec<_>>()
            })
            .collect(),
    );
    v["load"] = load.clone();
    v
}

fn digest(s: &str) -> Value {
    // SipHash with fixed keys: deterministic across runs
    let mut h = DefaultHasher::new();
    h.write(s.as_bytes());
    let x = h.finish();
    json!([(x >> 48) & 0xffff, (x >> 32) & 0xffff, (x >> 16) & 0xffff, x & 0xffff, s.len() % 1_000_000_007])
}

fn clone_entry(e: &DefEntry) -> DefEntry {
    DefEntry { name: e.name.clone(), def: e.def.clone(), doc: e.doc.clone(), category: e.category.clone() }
}

fn silence_stdout() {
    // the parser reports some problems with println!: keep our own stdout clean
    unsafe {
        let fd = libc::open(b"/dev/null\0".as_ptr() as *const libc::c_char, libc::O_WRONLY);
        if fd >= 0 {
            libc::dup2(fd, 1);
            libc::close(fd);
        }
    }
}

fn set_stack_limit(bytes: u64) {
    unsafe {
        let mut rl = libc::rlimit { rlim_cur: 0, rlim_max: 0 };
        if libc::getrlimit(libc::RLIMIT_STACK, &mut rl) == 0 {
            let want = if rl.rlim_max == libc::RLIM_INFINITY || bytes <= rl.rlim_max { bytes } else { rl.rlim_max };
            rl.rlim_cur = want;
            libc::setrlimit(libc::RLIMIT_STACK, &rl);
        }
    }
}

fn bundled_ctx() -> (Context, Result<(), String>) {
    let mut ctx = Context::new();
    let r = ctx.load_definitions(rink_core::DEFAULT_FILE.expect("bundle-files"));
    ctx.load_date_file(rink_core::DATES_FILE.expect("bundle-files"));
    ctx.use_humanize = false;
    (ctx, r)
}

fn currency_overlay() -> Result<Vec<DefEntry>, String> {
    let live = std::fs::read_to_string(SNAPSHOT).map_err(|e| e.to_string())?;
    let mut base = gnu_units::parse_str(rink_core::CURRENCY_FILE.expect("bundle-files"));
    let mut live_defs: Vec<DefEntry> = serde_json::from_str(&live).map_err(|e| e.to_string())?;
    let mut defs = vec![];
    defs.append(&mut base.defs);
    defs.append(&mut live_defs);
    Ok(defs)
}

// ---------------------------------------------------------------------------------------------
// loadcheck / dump

fn loadcheck() {
    let t0 = Instant::now();
    let (mut ctx, r1) = bundled_ctx();
    let ms1 = t0.elapsed().as_millis() as u64;
    let t1 = Instant::now();
    let live = std::fs::read_to_string(SNAPSHOT).expect("snapshot");
    let r2 = ctx.load_currency(&live, rink_core::CURRENCY_FILE.unwrap());
    let ms2 = t1.elapsed().as_millis() as u64;
    let out = json!({
        "bundled": {"load": load_json(&r1), "ms": ms1},
        "currency": {"load": load_json(&r2), "ms": ms2},
        "datepatterns": ctx.registry.datepatterns.len(),
    });
    // our stdout was silenced for the library's println!: write to stderr's sibling, the saved fd 3
    let mut f = unsafe { <std::fs::File as std::os::unix::io::FromRawFd>::from_raw_fd(3) };
    writeln!(f, "{}", out).unwrap();
}

fn dump(kind: &str, out: &str) {
    let (mut ctx, r1) = bundled_ctx();
    let load = if kind == "currency" {
        let live = std::fs::read_to_string(SNAPSHOT).expect("snapshot");
        let r2 = ctx.load_currency(&live, rink_core::CURRENCY_FILE.unwrap());
        json!({"bundled": load_json(&r1), "currency": load_json(&r2)})
    } else {
        json!({"bundled": load_json(&r1)})
    };
    let mut v = full_dump(&ctx, &load);
    // the definitions as written in the shipped source texts
    let mut src = rv_harness::dump::source_defs_json(rink_core::DEFAULT_FILE.unwrap());
    if kind == "currency" {
        if let (Some(a), Some(b)) = (src.as_array_mut(), rv_harness::dump::source_defs_json(rink_core::CURRENCY_FILE.unwrap()).as_array()) {
            a.extend(b.iter().cloned());
        }
    }
    v["source_defs"] = src;
    std::fs::write(out, serde_json::to_string(&v).unwrap()).expect("write dump");
}

// ---------------------------------------------------------------------------------------------
// C12 V: permutations of a parsed list

fn idents(e: &Expr, out: &mut Vec<String>) {
    match e {
        Expr::Unit { name } => out.push(name.clone()),
        Expr::BinOp(b) => {
            idents(&b.left, out);
            idents(&b.right, out);
        }
        Expr::UnaryOp(u) => idents(&u.expr, out),
        Expr::Of { expr, .. } => idents(expr, out),
        Expr::Mul { exprs } => exprs.iter().for_each(|x| idents(x, out)),
        Expr::Call { args, .. } => args.iter().for_each(|x| idents(x, out)),
        _ => (),
    }
}

/// an order in which every definition comes *before* the definitions it mentions (dependents first).
/// Only the choice of a permutation: need not agree with the resolver's reading of every identifier.
fn dependency_reversed(defs: &[DefEntry]) -> Vec<usize> {
    let mut by_name: BTreeMap<&str, Vec<usize>> = BTreeMap::new();
    let mut prefixes: Vec<&str> = vec![];
    for (i, d) in defs.iter().enumerate() {
        by_name.entry(&d.name).or_default().push(i);
        if let Def::BaseUnit { long_name: Some(l) } = &*d.def {
            by_name.entry(l).or_default().push(i);
        }
        if let Def::Prefix { .. } = &*d.def {
            prefixes.push(&d.name);
        }
    }
    let deps: Vec<Vec<usize>> = defs
        .iter()
        .map(|d| {
            let mut names = vec![];
            match &*d.def {
                Def::Prefix { expr, .. } | Def::Unit { expr } | Def::Quantity { expr } => idents(&expr.0, &mut names),
                Def::Substance { properties, .. } => {
                    for p in properties {
                        idents(&p.input.0, &mut names);
                        idents(&p.output.0, &mut names);
                    }
                }
                _ => (),
            }
            let mut out = vec![];
            for n in names {
                let mut cands: Vec<String> = vec![n.clone()];
                if n.ends_with('s') {
                    cands.push(n[..n.len() - 1].to_string());
                }
                for c in cands.clone() {
                    for p in &prefixes {
                        if c.starts_with(p) && c.len() > p.len() {
                            cands.push(c[p.len()..].to_string());
                            cands.push(p.to_string());
                        }
                    }
                }
                for c in cands {
                    if let Some(v) = by_name.get(&c[..]) {
                        out.extend(v.iter().copied());
                    }
                }
            }
            out
        })
        .collect();
    // iterative DFS, post-order = dependencies first
    let n = defs.len();
    let mut state = vec![0u8; n];
    let mut post = Vec::with_capacity(n);
    for root in 0..n {
        if state[root] != 0 {
            continue;
        }
        let mut stack: Vec<(usize, usize)> = vec![(root, 0)];
        state[root] = 1;
        while let Some(&mut (v, ref mut i)) = stack.last_mut() {
            if *i < deps[v].len() {
                let w = deps[v][*i];
                *i += 1;
                if state[w] == 0 {
                    state[w] = 1;
                    stack.push((w, 0));
                }
            } else {
                state[v] = 2;
                post.push(v);
                stack.pop();
            }
        }
    }
    post.reverse();
    post
}

fn entry_key(e: &DefEntry) -> (u8, String) {
    let ns = match &*e.def {
        Def::Prefix { .. } => 1,
        Def::Quantity { .. } => 2,
        Def::Category { .. } => 3,
        _ => 0,
    };
    (ns, e.name.clone())
}

/// C12 speaks of uniquely named definitions. The shipped files re-open some categories (`!category x "..."`
/// more than once; the loader deliberately does not warn about that), so the parsed list names some category
/// ids several times. Of every identifier only the last entry - the one that takes effect - is kept; loading
/// the reduced list in the original order must give the same database as the full list (checked by the caller).
fn uniquely_named(defs: Vec<DefEntry>) -> (Vec<DefEntry>, Vec<Value>) {
    let mut last: BTreeMap<(u8, String), usize> = BTreeMap::new();
    for (i, e) in defs.iter().enumerate() {
        last.insert(entry_key(e), i);
    }
    let mut dropped = vec![];
    let mut out = vec![];
    for (i, e) in defs.into_iter().enumerate() {
        let k = entry_key(&e);
        if last[&k] == i {
            out.push(e);
        } else {
            let detail = match &*e.def {
                Def::Category { display_name } => display_name.clone(),
                _ => String::new(),
            };
            dropped.push(json!({"ns": k.0, "name": k.1, "display": detail}));
        }
    }
    (out, dropped)
}

struct PermState {
    full: Vec<DefEntry>,
    dropped: Vec<Value>,
    defs: Vec<DefEntry>,
    kind: String,
    reference: String,
    dumpdir: Option<String>,
    depreversed: Vec<usize>,
}

fn load_list(kind: &str, defs: Vec<DefEntry>) -> String {
    let (mut ctx, load) = if kind == "currency" {
        let (mut ctx, r1) = bundled_ctx();
        let r2 = ctx.load(Defs { defs });
        (ctx, json!({"bundled": load_json(&r1), "currency": load_json(&r2)}))
    } else {
        let mut ctx = Context::new();
        let r = ctx.load(Defs { defs });
        ctx.load_date_file(rink_core::DATES_FILE.unwrap());
        (ctx, json!({"bundled": load_json(&r)}))
    };
    ctx.use_humanize = false;
    serde_json::to_string(&full_dump(&ctx, &load)).unwrap()
}

fn perm_indices(st: &PermState, job: &Value) -> Vec<usize> {
    let n = st.defs.len();
    let kind = job["perm"].as_str().unwrap_or("identity");
    let arg = job["arg"].as_u64().unwrap_or(0);
    match kind {
        "identity" => (0..n).collect(),
        "reverse" => (0..n).rev().collect(),
        "rotate" => {
            let r = (arg as usize) % n.max(1);
            (0..n).map(|i| (i + r) % n).collect()
        }
        "depreversed" => st.depreversed.clone(),
        "random" => {
            let mut v: Vec<usize> = (0..n).collect();
            Rng::new(arg).shuffle(&mut v);
            v
        }
        "list" => job["order"].as_array().map(|a| a.iter().map(|x| x.as_u64().unwrap_or(0) as usize).collect()).unwrap_or_default(),
        _ => (0..n).collect(),
    }
}

fn first_difference(a: &Value, b: &Value, path: String) -> Option<String> {
    if a == b {
        return None;
    }
    match (a, b) {
        (Value::Object(x), Value::Object(y)) => {
            for (k, v) in x {
                match y.get(k) {
                    None => return Some(format!("{}.{} missing", path, k)),
                    Some(w) => {
                        if let Some(d) = first_difference(v, w, format!("{}.{}", path, k)) {
                            return Some(d);
                        }
                    }
                }
            }
            Some(format!("{} (keys)", path))
        }
        (Value::Array(x), Value::Array(y)) => {
            if x.len() != y.len() {
                return Some(format!("{} (length {} vs {})", path, x.len(), y.len()));
            }
            for (i, (v, w)) in x.iter().zip(y.iter()).enumerate() {
                if let Some(d) = first_difference(v, w, format!("{}[{}]", path, i)) {
                    return Some(d);
                }
            }
            None
        }
        _ => Some(format!("{}: {} vs {}", path, a.to_string().chars().take(160).collect::<String>(), b.to_string().chars().take(160).collect::<String>())),
    }
}

/// C12 "forward references resolve" / "extended by user files without changing the meaning of existing names":
/// the list plus a copy of unit and substance definitions under a fresh name that sorts before (arg 0) or after
/// (arg 1) every other name. Every copy must mean what its original means: a copy that is refused, or missing,
/// while the original loaded, is a reference that was not resolved.
/// Without "lo"/"hi": one load with a copy of every definition. With them: one load per definition lo <= i < hi (of
/// the copyable ones) with that single copy - the copy that sorts first is the first definition the resolver
/// visits, nothing else has pulled its dependencies in yet.
fn clone_job(st: &mut PermState, job: &Value) -> Value {
    let first = job["arg"].as_u64().unwrap_or(0) == 0;
    let copyable: Vec<usize> = st.defs.iter().enumerate().filter(|(_, e)| matches!(&*e.def, Def::Unit { .. } | Def::Substance { .. })).map(|(i, _)| i).collect();
    if job["lo"].is_u64() || job["idx"].is_array() {
        let lo = job["lo"].as_u64().unwrap_or(0) as usize;
        let hi = (job["hi"].as_u64().unwrap_or(0) as usize).min(copyable.len());
        // which of the copyable definitions: an explicit list, or a range
        let which: Vec<usize> = match job["idx"].as_array() {
            Some(a) => a.iter().filter_map(|x| x.as_u64()).filter_map(|x| copyable.get(x as usize).copied()).collect(),
            None => copyable.get(lo..hi).unwrap_or(&[]).to_vec(),
        };
        let (mut copies, mut agree, mut loads) = (0usize, 0usize, 0usize);
        let mut bad: Vec<Value> = vec![];
        let mut msgs_equal = true;
        for &i in &which {
            let r = clone_load(st, first, &[i]);
            loads += 1;
            copies += r["copies"].as_u64().unwrap_or(0) as usize;
            agree += r["agree"].as_u64().unwrap_or(0) as usize;
            if !r["equal"].as_bool().unwrap_or(false) {
                msgs_equal &= r["diff"]["messages_as_without_copies"].as_bool().unwrap_or(true);
                if bad.len() < 8 {
                    bad.push(json!({"copy_of": st.defs[i].name, "differs": r["diff"]["copies_that_differ"], "msgs": r["msgs"]}));
                }
            }
        }
        let equal = copies == agree && msgs_equal;
        let mut out = json!({"set": format!("{}+copy-{}", st.kind, if first { "first" } else { "last" }), "perm": "clone", "arg": job["arg"], "k": 1,
                             "lo": lo, "hi": hi, "copyable": copyable.len(), "n": st.defs.len() + 1, "moved": 1, "loads": loads, "copies": copies,
                             "agree": agree, "digest": digest(&format!("{}:{}:{}", st.kind, copies, agree)), "equal": equal});
        if !equal {
            out["diff"] = json!({"copies_that_differ": bad, "messages_as_without_copies": msgs_equal});
        }
        return out;
    }
    let mut out = clone_load(st, first, &copyable);
    out["copyable"] = json!(copyable.len());
    out["arg"] = job["arg"].clone();
    out
}

fn clone_load(st: &PermState, first: bool, which: &[usize]) -> Value {
    let fresh = |n: &str| if first { format!("\u{1}{}", n) } else { format!("\u{10FFFD}{}", n) };
    let mut defs: Vec<DefEntry> = st.defs.iter().map(clone_entry).collect();
    let mut copies: Vec<(String, String)> = vec![];
    for e in which.iter().map(|&i| &st.defs[i]) {
        let def = match &*e.def {
            Def::Unit { expr } => Def::Unit { expr: expr.clone() },
            Def::Substance { properties, .. } => Def::Substance {
                symbol: None,
                properties: properties
                    .iter()
                    .map(|p| rink_core::ast::Property {
                        name: p.name.clone(),
                        input: p.input.clone(),
                        input_name: p.input_name.clone(),
                        output: p.output.clone(),
                        output_name: p.output_name.clone(),
                        doc: p.doc.clone(),
                    })
                    .collect(),
            },
            _ => continue,
        };
        copies.push((e.name.clone(), fresh(&e.name)));
        defs.push(DefEntry { name: fresh(&e.name), def: std::rc::Rc::new(def), doc: None, category: None });
    }
    let n = defs.len();
    let (ctx, msgs) = if st.kind == "currency" {
        let (mut ctx, _) = bundled_ctx();
        let r = ctx.load(Defs { defs });
        (ctx, load_json(&r))
    } else {
        let mut ctx = Context::new();
        let r = ctx.load(Defs { defs });
        (ctx, load_json(&r))
    };
    let r = &ctx.registry;
    let subst = |n: &str| r.substances.get(n).map(|s| format!("{:?} {:?}", s.amount, s.properties.properties));
    let mut agree = 0usize;
    let mut bad: Vec<Value> = vec![];
    for (orig, copy) in &copies {
        let same = r.units.get(orig) == r.units.get(copy) && subst(orig) == subst(copy);
        if same {
            agree += 1;
        } else if bad.len() < 8 {
            let show = |n: &str| match (r.units.get(n), r.substances.get(n)) {
                (Some(v), _) => format!("{:?}", v).chars().take(120).collect::<String>(),
                (None, Some(_)) => "a substance".to_string(),
                (None, None) => "not defined".to_string(),
            };
            bad.push(json!({"name": orig, "original": show(orig), "copy": show(copy)}));
        }
    }
    let reference: Value = serde_json::from_str(&st.reference).unwrap();
    let refmsgs = if st.kind == "currency" { reference["load"]["currency"]["msgs"].clone() } else { reference["load"]["bundled"]["msgs"].clone() };
    let msgs_equal = msgs["msgs"] == refmsgs;
    let shown: Vec<String> = msgs["msgs"].as_array().map(|a| a.iter().take(6).map(|m| m.as_str().unwrap_or("").replace('\u{1}', "<first>").replace('\u{10FFFD}', "<last>")).collect()).unwrap_or_default();
    let equal = agree == copies.len() && msgs_equal;
    let summary = format!("{}:{}:{}", st.kind, copies.len(), agree);
    let mut out = json!({"set": format!("{}+copies-{}", st.kind, if first { "first" } else { "last" }), "perm": "clone", "k": 1,
                         "n": n, "moved": copies.len(), "copies": copies.len(), "agree": agree, "digest": digest(&summary), "equal": equal, "msgs": shown});
    if !equal {
        out["diff"] = json!({"copies_that_differ": bad, "messages_as_without_copies": msgs_equal});
    }
    out
}

fn perm_job(st: &mut PermState, job: &Value) -> Value {
    if job["perm"].as_str() == Some("original") {
        // the list as parsed (with re-opened categories) against the uniquely named list, both in file order
        let s = load_list(&st.kind, st.full.iter().map(clone_entry).collect());
        return json!({"set": st.kind, "perm": "original", "arg": 0, "k": 1, "n": st.full.len(), "moved": 0, "digest": digest(&s),
                      "equal": s == st.reference, "dropped": st.dropped});
    }
    if job["perm"].as_str() == Some("clone") {
        return clone_job(st, job);
    }
    let order = perm_indices(st, job);
    let k = job["k"].as_u64().unwrap_or(1).max(1) as usize;
    let n = order.len();
    // split the permuted list into k lists at seeded cut points, then concatenate them as cli/src/config.rs does
    let mut cuts: Vec<usize> = vec![];
    let mut rng = Rng::new(job["cutseed"].as_u64().unwrap_or(7));
    for _ in 1..k {
        cuts.push(rng.below(n as u64 + 1) as usize);
    }
    cuts.sort();
    let mut lists: Vec<Vec<DefEntry>> = vec![];
    let mut lo = 0;
    for c in cuts.iter().copied().chain(std::iter::once(n)) {
        lists.push(order[lo..c].iter().map(|&i| clone_entry(&st.defs[i])).collect());
        lo = c;
    }
    let sizes: Vec<usize> = lists.iter().map(|l| l.len()).collect();
    let defs: Vec<DefEntry> = lists.into_iter().flatten().collect();
    let moved = order.iter().enumerate().filter(|(i, &j)| *i != j).count();
    let s = load_list(&st.kind, defs);
    let equal = s == st.reference;
    let mut out = json!({"set": st.kind, "perm": job["perm"], "arg": job["arg"], "k": k, "files": sizes, "n": n, "moved": moved,
                         "digest": digest(&s), "equal": equal});
    if !equal {
        let a: Value = serde_json::from_str(&st.reference).unwrap();
        let b: Value = serde_json::from_str(&s).unwrap();
        out["diff"] = json!(first_difference(&a, &b, String::new()));
        if let Some(d) = &st.dumpdir {
            let _ = std::fs::create_dir_all(d);
            let name = format!("{}/{}-{}-{}-{}.json", d, st.kind, job["perm"].as_str().unwrap_or("p"), job["arg"], k);
            let _ = std::fs::write(&name, &s);
            let _ = std::fs::write(format!("{}/{}-identity.json", d, st.kind), &st.reference);
            out["dump"] = json!(name);
        }
    }
    out
}

// ---------------------------------------------------------------------------------------------
// C12 G: small sets, one self-contained text per definition

/// each file: the texts of its definitions concatenated; every file parsed on its own, the parsed lists concatenated
fn parse_files(texts: &[String], files: &[Vec<usize>]) -> Vec<DefEntry> {
    files
        .iter()
        .map(|f| {
            let t: String = f.iter().map(|&i| texts[i].as_str()).collect::<Vec<_>>().join("");
            gnu_units::parse_str(&t).defs
        })
        .flatten()
        .collect()
}

fn case_files(case: &Value) -> Vec<Vec<usize>> {
    case.as_array()
        .map(|fs| fs.iter().map(|f| f.as_array().map(|a| a.iter().map(|x| x.as_u64().unwrap_or(0) as usize).collect()).unwrap_or_default()).collect())
        .unwrap_or_default()
}

/// "forward references resolve": every definition of the first case once more, on its own, as a second load on
/// top of the finished database (where every reference is a backward reference). A definition the first load
/// refused although it loads now was refused for a reference that is defined in the set.
fn reload_alone(texts: &[String], files: &[Vec<usize>]) -> Value {
    let n = parse_files(texts, files).len();
    let mut out = vec![];
    for i in 0..n {
        let r = std::panic::catch_unwind(|| {
            let mut ctx = Context::new();
            let _ = ctx.load(Defs { defs: parse_files(texts, files) });
            let d = parse_files(texts, files).swap_remove(i);
            let key = entry_key(&d);
            let r = ctx.load(Defs { defs: vec![d] });
            json!({"ns": key.0, "name": key.1, "load": load_json(&r)})
        });
        out.push(r.unwrap_or_else(|_| json!({"panic": true})));
    }
    Value::Array(out)
}

fn gen_job(job: &Value) -> Value {
    let texts: Vec<String> = job["texts"].as_array().map(|a| a.iter().map(|x| x.as_str().unwrap_or("").to_string()).collect()).unwrap_or_default();
    let cases = job["cases"].as_array().cloned().unwrap_or_default();
    let mut first: Option<String> = None;
    let mut diffs = vec![];
    let mut crashes = vec![];
    let mut groups: Vec<(String, Value, u64)> = vec![]; // distinct dumps in order of first appearance
    for (ci, case) in cases.iter().enumerate() {
        // case: list of files, each a list of indices into texts
        let files = case_files(case);
        let r = std::panic::catch_unwind(|| {
            let defs = parse_files(&texts, &files);
            let mut ctx = Context::new();
            let r = ctx.load(Defs { defs });
            serde_json::to_string(&full_dump(&ctx, &load_json(&r))).unwrap()
        });
        match r {
            Err(e) => {
                let msg = e.downcast_ref::<String>().cloned().or_else(|| e.downcast_ref::<&str>().map(|s| s.to_string())).unwrap_or_default();
                crashes.push(json!({"case": ci, "files": case, "msg": msg}));
            }
            Ok(s) => {
                match groups.iter_mut().find(|g| g.0 == s) {
                    Some(g) => g.2 += 1,
                    None => groups.push((s.clone(), digest(&s), 1)),
                }
                match &first {
                None => first = Some(s),
                Some(f) => {
                    if *f != s && diffs.len() < 3 {
                        let a: Value = serde_json::from_str(f).unwrap();
                        let b: Value = serde_json::from_str(&s).unwrap();
                        diffs.push(json!({"case": ci, "files": case, "diff": first_difference(&a, &b, String::new()), "dump": b}));
                    } else if *f != s {
                        diffs.push(json!({"case": ci}));
                    }
                }
            }
            }
        }
    }
    let groups: Vec<Value> = groups.into_iter().map(|g| json!({"digest": g.1, "loads": g.2})).collect();
    let d0: Value = first.as_ref().map(|s| serde_json::from_str(s).unwrap()).unwrap_or(Value::Null);
    let reload = match (cases.first(), &first) {
        (Some(c), Some(_)) => reload_alone(&texts, &case_files(c)),
        _ => Value::Null,
    };
    json!({"id": job["id"], "ncases": cases.len(), "digest": first.as_ref().map(|s| digest(s)), "dump": d0, "diffs": diffs, "crashes": crashes, "groups": groups,
           "reload": reload})
}

// ---------------------------------------------------------------------------------------------
// C13 jobs

fn plain_name(s: &str) -> bool {
    !s.is_empty() && s.chars().all(|c| c.is_ascii_alphabetic()) && s.len() < 40
}

fn after_load(ctx: &mut Context) -> Value {
    // the context must still answer: 1 + 1, and one name that did load
    let sum = rink_core::eval(ctx, "1 + 1");
    let sum_ok = match &sum {
        Ok(rink_core::output::QueryReply::Number(p)) => p.exact_value.as_deref() == Some("2"),
        _ => false,
    };
    let r = &ctx.registry;
    let name: Option<String> = r.units.keys().next().cloned().or_else(|| r.base_units.iter().next().map(|b| b.to_string()));
    let mut out = json!({"sum_ok": sum_ok, "nunits": r.units.len(), "nbase": r.base_units.len(), "nprefix": r.prefixes.len(),
                         "nquant": r.quantities.len(), "nsubst": r.substances.len()});
    if let Some(n) = name {
        let v = ctx.eval(&Expr::new_unit(n.clone()));
        out["name"] = json!(n.chars().take(60).collect::<String>());
        out["name_ok"] = json!(v.is_ok());
        if plain_name(&n) {
            // informational only: some names are keywords of the query language
            out["name_text_ok"] = json!(rink_core::eval(ctx, &n).is_ok());
        }
    }
    out
}

fn result_json(r: &Result<(), String>, all: bool) -> Value {
    match r {
        Ok(()) => json!({"outcome": "ok", "nmsg": 0, "cycle_reported": false}),
        Err(e) => {
            let lines: Vec<&str> = e.lines().collect();
            let n = if lines.len() > 1 { lines.len() - 1 } else { 1 };
            let shown: Vec<String> = lines.iter().skip(if lines.len() > 1 { 1 } else { 0 }).take(if all { 400 } else { 6 }).map(|l| l.trim().chars().take(200).collect()).collect();
            let cyc = lines.iter().any(|l| l.contains("dependency cycle"));
            json!({"outcome": "err", "nmsg": n, "msgs": shown, "empty_text": e.trim().is_empty(), "cycle_reported": cyc})
        }
    }
}

/// line edits of a bundled file: {"op": "del_line"|"dup_line", "i"} | {"op": "swap_lines", "i", "j"} | {"op": "set_line", "i", "text"}
fn apply_edits(base: &str, edits: &Value) -> String {
    let mut lines: Vec<String> = base.split('\n').map(|l| l.to_string()).collect();
    for e in edits.as_array().map(|a| a.as_slice()).unwrap_or(&[]) {
        let i = e["i"].as_u64().unwrap_or(0) as usize;
        if i >= lines.len() {
            continue;
        }
        match e["op"].as_str().unwrap_or("") {
            "del_line" => {
                lines.remove(i);
            }
            "dup_line" => {
                let l = lines[i].clone();
                lines.insert(i, l);
            }
            "swap_lines" => {
                let j = e["j"].as_u64().unwrap_or(0) as usize;
                if j < lines.len() {
                    lines.swap(i, j);
                }
            }
            "set_line" => lines[i] = e["text"].as_str().unwrap_or("").to_string(),
            _ => (),
        }
    }
    lines.join("\n")
}

fn base_text(name: &str) -> &'static str {
    match name {
        "definitions" => rink_core::DEFAULT_FILE.unwrap(),
        "currency_units" => rink_core::CURRENCY_FILE.unwrap(),
        "dates" => rink_core::DATES_FILE.unwrap(),
        _ => "",
    }
}

struct JobState {
    bundled_text: &'static str,
}

/// queries about what did load: any reply or error is fine, a crash (seen by the worker) is not
fn run_probes(ctx: &mut Context, job: &Value, out: &mut Value) {
    let mut qs: Vec<String> = vec![];
    if let Some(q) = job["probe"].as_str() {
        qs.push(q.to_string());
    }
    if let Some(a) = job["probes"].as_array() {
        qs.extend(a.iter().filter_map(|x| x.as_str().map(|s| s.to_string())));
    }
    // names that must NOT answer after the load: their definition failed or was never given
    if let Some(a) = job["undefined"].as_array() {
        let phantom: Vec<String> = a
            .iter()
            .filter_map(|x| x.as_str())
            .filter(|q| rink_core::eval(ctx, q).is_ok())
            .map(|q| q.to_string())
            .collect();
        out["phantom"] = json!(phantom);
    }
    if qs.is_empty() {
        return;
    }
    let res: Vec<bool> = qs.iter().map(|q| rink_core::eval(ctx, q).is_ok()).collect();
    out["probe_ok"] = json!(res);
}

fn c13_job(_st: &mut JobState, job: &Value) -> Value {
    let all = job["allmsgs"].as_bool().unwrap_or(false);
    let mutated: Option<(String, String)> = job["mut"].as_object().map(|m| {
        let base = m.get("base").and_then(|b| b.as_str()).unwrap_or("definitions").to_string();
        let t = apply_edits(base_text(&base), m.get("edits").unwrap_or(&Value::Null));
        (base, t)
    });
    let defs_text: Option<String> = job["defs"].as_str().map(|s| s.to_string()).or_else(|| match &mutated {
        Some((b, t)) if b == "definitions" => Some(t.clone()),
        _ => None,
    });
    if let Some(t) = defs_text {
        let mut ctx = Context::new();
        ctx.use_humanize = false;
        let r = ctx.load_definitions(&t);
        let mut out = result_json(&r, all);
        out["kind"] = json!("defs");
        out["after"] = after_load(&mut ctx);
        run_probes(&mut ctx, job, &mut out);
        return out;
    }
    let units_text: Option<String> = match &mutated {
        Some((b, t)) if b == "currency_units" => Some(t.clone()),
        _ => None,
    };
    if job["currency"].is_string() || units_text.is_some() {
        let live = job["currency"].as_str().map(|s| s.to_string()).unwrap_or_else(|| std::fs::read_to_string(SNAPSHOT).unwrap_or_default());
        let mut ctx = Context::new();
        ctx.use_humanize = false;
        let mut base_ok = Value::Null;
        if job["base"].as_str() == Some("bundled") {
            let r0 = ctx.load_definitions(_st.bundled_text);
            base_ok = json!(r0.is_ok());
        }
        let units = units_text.unwrap_or_else(|| rink_core::CURRENCY_FILE.unwrap().to_string());
        let r = ctx.load_currency(&live, &units);
        let mut out = result_json(&r, all);
        out["kind"] = json!("currency");
        out["base_ok"] = base_ok;
        out["after"] = after_load(&mut ctx);
        run_probes(&mut ctx, job, &mut out);
        return out;
    }
    let dates_text: Option<String> = job["dates"].as_str().map(|s| s.to_string()).or_else(|| match &mutated {
        Some((b, t)) if b == "dates" => Some(t.clone()),
        _ => None,
    });
    if let Some(t) = dates_text {
        let mut ctx = Context::new();
        ctx.use_humanize = false;
        ctx.load_date_file(&t);
        let n = ctx.registry.datepatterns.len();
        // a date query must be answered (reply or error), and 1 + 1 as well
        let d = rink_core::eval(&mut ctx, "#2020-02-03 04:05#");
        let d2 = rink_core::eval(&mut ctx, "#Feb 3, 2020#");
        let mut out = json!({"outcome": "ok", "nmsg": 0, "cycle_reported": false, "kind": "dates", "patterns": n,
                             "date_reply": d.is_ok(), "date_reply2": d2.is_ok()});
        out["after"] = after_load(&mut ctx);
        return out;
    }
    json!({"bad_job": true})
}

// ---------------------------------------------------------------------------------------------

fn read_jobs(path: &str) -> Vec<Value> {
    std::io::BufReader::new(std::fs::File::open(path).expect("input"))
        .lines()
        .filter_map(|l| l.ok())
        .filter(|l| !l.trim().is_empty())
        .map(|l| serde_json::from_str(&l).expect("job json"))
        .collect()
}

fn write_results(path: &str, jobs: &[Value], results: Vec<Value>) {
    let mut out = std::io::BufWriter::new(std::fs::File::create(path).expect("output"));
    for (job, mut r) in jobs.iter().zip(results.into_iter()) {
        if let Some(id) = job.get("id") {
            if r.get("id").is_none() {
                r["id"] = id.clone();
            }
        }
        for k in ["perm", "arg", "k", "idx"] {
            if r.get(k).is_none() {
                if let Some(v) = job.get(k) {
                    r[k] = v.clone();
                }
            }
        }
        writeln!(out, "{}", r).unwrap();
    }
}

fn arg_after(args: &[String], flag: &str) -> Option<String> {
    args.iter().position(|a| a == flag).and_then(|i| args.get(i + 1).cloned())
}

fn main() {
    let args: Vec<String> = std::env::args().collect();
    let mode = args.get(1).map(|s| s.as_str()).unwrap_or("");
    // keep a copy of the real stdout on fd 3, then silence fd 1 (println! in the parser)
    unsafe {
        libc::dup2(1, 3);
    }
    silence_stdout();
    match mode {
        "loadcheck" => loadcheck(),
        "dump" => dump(&args[2], &args[3]),
        "perm" => {
            let kind = arg_after(&args, "--ctx").unwrap_or_else(|| "bundled".into());
            let n: u64 = arg_after(&args, "--n").and_then(|s| s.parse().ok()).unwrap_or(3);
            let seed: u64 = arg_after(&args, "--seed").and_then(|s| s.parse().ok()).unwrap_or(1);
            let outp = arg_after(&args, "--out").expect("--out");
            let dumpdir = arg_after(&args, "--dumpdir");
            let mut jobs = vec![];
            let mut perms: Vec<(String, u64)> = vec![("original".into(), 0), ("identity".into(), 0), ("reverse".into(), 0), ("depreversed".into(), 0)];
            let len = uniquely_named(if kind == "currency" { currency_overlay().expect("overlay") } else { gnu_units::parse_str(rink_core::DEFAULT_FILE.unwrap()).defs }).0.len() as u64;
            for i in 1..=16u64 {
                perms.push(("rotate".into(), (len * i / 17).max(1)));
            }
            for j in 0..n {
                perms.push(("random".into(), seed.wrapping_mul(1000).wrapping_add(j)));
            }
            jobs.push(json!({"perm": "clone", "arg": 0, "k": 1}));
            jobs.push(json!({"perm": "clone", "arg": 1, "k": 1}));
            for (p, a) in &perms {
                for k in 1..=3u64 {
                    if p == "original" && k > 1 {
                        continue;
                    }
                    jobs.push(json!({"perm": p, "arg": a, "k": k, "cutseed": seed.wrapping_add(a * 3 + k)}));
                }
            }
            if let Some(inp) = arg_after(&args, "--in") {
                jobs = read_jobs(&inp); // explicit jobs (replay)
            }
            let limits = Limits { per_job: Duration::from_secs(120), address_space: 8 << 30, stack: 0 };
            let kind2 = kind.clone();
            let results = run_isolated(
                &jobs,
                &limits,
                move || {
                    let full = if kind2 == "currency" { currency_overlay().expect("overlay") } else { gnu_units::parse_str(rink_core::DEFAULT_FILE.unwrap()).defs };
                    let (defs, dropped) = uniquely_named(full.iter().map(clone_entry).collect());
                    let reference = load_list(&kind2, defs.iter().map(clone_entry).collect());
                    let depreversed = dependency_reversed(&defs);
                    PermState { full, dropped, defs, kind: kind2.clone(), reference, dumpdir: dumpdir.clone(), depreversed }
                },
                |st, job| perm_job(st, job),
            );
            write_results(&outp, &jobs, results);
        }
        "gen" => {
            let inp = arg_after(&args, "--in").expect("--in");
            let outp = arg_after(&args, "--out").expect("--out");
            let jobs = read_jobs(&inp);
            let limits = Limits { per_job: Duration::from_secs(60), address_space: 4 << 30, stack: 0 };
            let results = run_isolated(&jobs, &limits, || (), |_, job| gen_job(job));
            write_results(&outp, &jobs, results);
        }
        "jobs" => {
            let inp = arg_after(&args, "--in").expect("--in");
            let outp = arg_after(&args, "--out").expect("--out");
            let timeout_ms: u64 = arg_after(&args, "--timeout-ms").and_then(|s| s.parse().ok()).unwrap_or(20_000);
            // the default main-thread stack of a process: 8 MiB
            set_stack_limit(8 << 20);
            let jobs = read_jobs(&inp);
            let limits = Limits { per_job: Duration::from_millis(timeout_ms), address_space: 4 << 30, stack: 0 };
            let results = run_isolated(&jobs, &limits, || JobState { bundled_text: rink_core::DEFAULT_FILE.unwrap() }, c13_job);
            write_results(&outp, &jobs, results);
        }
        _ => {
            eprintln!("usage: rv-load loadcheck | dump K OUT | perm ... | gen ... | jobs ...");
            std::process::exit(2);
        }
    }
}
