//! C07: name resolution of the real rink-core, observed on many databases.
//!
//!   rv-names small --in jobs.ndjson --out res.ndjson [--timeout-ms N]
//!       first line   {"names": [[code points], ...]}          the query strings shared by all jobs
//!       other lines  {"id": n, "defs": "definitions text"}     one small database per job
//!     For every job a fresh Context is built from the definitions text; every name is looked up twice on
//!     it and once more on a second Context built from the same text (determinism), canonicalised, and the
//!     canonical name is looked up.  Output per job:
//!       {"id", "errors": [...], "reg": {"base": [...], "units": [{name, val}], "prefixes": [{name, v}]},
//!        "hits": [{"i": index into names, "l": value|null, "again_same": bool, "fresh_same": bool,
//!                  "canon": name|null, "cl": value|null}]}         only names where something is non-null
//!
//!   rv-names run --ctx bundled|file:<path> --in names.ndjson --out res.ndjson [--timeout-ms N]
//!       lines {"n": [code points]}; one Context per process, plus a second one built the same way.
//!     Output per name: {"n", "l", "canon", "cl", "again_same": bool, "fresh_same": bool}
//!     (again/fresh: the JSON of a repeated lookup on the same / on the second context equals the first).
//!
//!   rv-names history --in jobs.ndjson --out res.ndjson [--timeout-ms N]
//!       optional first line {"names": [...]} (shared query strings); other lines
//!       {"id": n, "base": "empty"|"bundled", "stages": [{"defs": text, "ask": bool}], "names": [...] (optional, own list)}
//!     ONE long-lived Context: starts as `base`, then for every stage `Context::load_definitions(defs)` (a further
//!     load into the same context) and, when `ask`, every name is looked up twice, canonicalised and the canonical
//!     name looked up - on that same context, which has answered all earlier stages' questions.  `fresh_same`
//!     compares with a context that was built from the same loads and has never been asked anything.
//!     Output per job: {"id", "stages": [{"errors", "reg" (as in `small`), "reg_fresh_same": the never-asked context has
//!     the same registry, "hits" (as in `small`; absent when not asked)}]}
//!
//! Values are rv_harness::obs::number_json (limb arrays), names code point arrays.
use rink_core::Context;
use rv_harness::astjson::numeric_json;
use rv_harness::conv::{text, untext};
use rv_harness::obs::number_json;
use rv_harness::worker::{run_isolated, Limits};
use serde_json::{json, Value};
use std::io::{BufRead, Write};
use std::time::Duration;

fn ctx_from_text(defs: &str) -> (Context, Vec<String>) {
    let mut ctx = Context::new();
    let mut errors = vec![];
    if let Err(e) = ctx.load_definitions(defs) {
        errors.push(e);
    }
    ctx.use_humanize = false;
    (ctx, errors)
}

fn make_ctx(kind: &str) -> Context {
    let mut ctx = match kind {
        "bundled" => rink_core::simple_context().expect("bundled context"),
        k if k.starts_with("file:") => {
            let content = std::fs::read_to_string(&k[5..]).expect("definitions file");
            ctx_from_text(&content).0
        }
        _ => panic!("unknown ctx kind"),
    };
    ctx.use_humanize = false;
    ctx
}

fn opt_num(v: &Option<rink_core::types::Number>) -> Value {
    v.as_ref().map(number_json).unwrap_or(Value::Null)
}

fn small_registry(ctx: &Context) -> Value {
    let r = &ctx.registry;
    json!({
        "base": r.base_units.iter().map(|b| text(b.as_str())).collect::<Vec<_>>(),
        "long_names": r.base_unit_long_names.iter().map(|(k, v)| json!({"short": text(k), "long": text(v)})).collect::<Vec<_>>(),
        "units": r.units.iter().map(|(n, v)| json!({"name": text(n), "val": number_json(v)})).collect::<Vec<_>>(),
        "prefixes": r.prefixes.iter().map(|(n, v)| json!({"name": text(n), "v": numeric_json(v)})).collect::<Vec<_>>(),
    })
}

fn small_job(names: &[String], job: &Value) -> Value {
    let defs = job["defs"].as_str().unwrap_or("");
    let (ctx, errors) = ctx_from_text(defs);
    let (fresh, _) = ctx_from_text(defs);
    let mut hits = vec![];
    for (i, name) in names.iter().enumerate() {
        let l = ctx.lookup(name);
        let again = ctx.lookup(name);
        let fr = fresh.lookup(name);
        let canon = ctx.canonicalize(name);
        let cl = canon.as_ref().and_then(|c| ctx.lookup(c));
        if l.is_some() || again.is_some() || fr.is_some() || canon.is_some() {
            let lj = opt_num(&l);
            hits.push(json!({"i": i, "again_same": opt_num(&again) == lj, "fresh_same": opt_num(&fr) == lj, "l": lj,
                             "canon": canon.as_ref().map(|c| text(c)), "cl": opt_num(&cl)}));
        }
    }
    json!({"id": job["id"], "errors": errors, "reg": small_registry(&ctx), "hits": hits})
}

fn base_ctx(kind: &str) -> Context {
    let mut ctx = match kind {
        "bundled" => rink_core::simple_context().expect("bundled context"),
        _ => Context::new(),
    };
    ctx.use_humanize = false;
    ctx
}

fn history_job(shared: &[String], job: &Value) -> Value {
    let own: Vec<String>;
    let names: &[String] = if job["names"].is_array() {
        own = job["names"].as_array().unwrap().iter().map(untext).collect();
        &own
    } else {
        shared
    };
    let base = job["base"].as_str().unwrap_or("empty");
    let mut ctx = base_ctx(base);
    let empty = vec![];
    let stages = job["stages"].as_array().unwrap_or(&empty);
    let mut out = vec![];
    for (k, st) in stages.iter().enumerate() {
        let mut errors = vec![];
        if let Err(e) = ctx.load_definitions(st["defs"].as_str().unwrap_or("")) {
            errors.push(e);
        }
        let reg = small_registry(&ctx);
        // the same loads on a context that is never asked anything before this stage
        let mut fresh = base_ctx(base);
        for st2 in &stages[..=k] {
            let _ = fresh.load_definitions(st2["defs"].as_str().unwrap_or(""));
        }
        let reg_fresh_same = small_registry(&fresh) == reg;
        let mut o = json!({"errors": errors, "reg": reg, "reg_fresh_same": reg_fresh_same});
        if st["ask"].as_bool().unwrap_or(true) {
            let mut hits = vec![];
            for (i, name) in names.iter().enumerate() {
                let l = ctx.lookup(name);
                let again = ctx.lookup(name);
                let fr = fresh.lookup(name);
                let canon = ctx.canonicalize(name);
                let cl = canon.as_ref().and_then(|c| ctx.lookup(c));
                if l.is_some() || again.is_some() || fr.is_some() || canon.is_some() {
                    let lj = opt_num(&l);
                    hits.push(json!({"i": i, "again_same": opt_num(&again) == lj, "fresh_same": opt_num(&fr) == lj, "l": lj,
                                     "canon": canon.as_ref().map(|c| text(c)), "cl": opt_num(&cl)}));
                }
            }
            o["hits"] = Value::Array(hits);
        }
        out.push(o);
    }
    json!({"id": job["id"], "stages": out})
}

fn main() {
    let args: Vec<String> = std::env::args().collect();
    let mode = args.get(1).cloned().unwrap_or_default();
    if mode != "small" && mode != "run" && mode != "history" {
        eprintln!("usage: rv-names small|run|history [--ctx K] --in F --out F [--timeout-ms N]");
        std::process::exit(2);
    }
    let mut ctx_kind = "bundled".to_string();
    let mut timeout_ms = 20_000u64;
    let mut inp = String::new();
    let mut outp = String::new();
    let mut i = 2;
    while i < args.len() {
        match args[i].as_str() {
            "--ctx" => { ctx_kind = args[i + 1].clone(); i += 2; }
            "--timeout-ms" => { timeout_ms = args[i + 1].parse().unwrap(); i += 2; }
            "--in" => { inp = args[i + 1].clone(); i += 2; }
            "--out" => { outp = args[i + 1].clone(); i += 2; }
            _ => { eprintln!("unknown arg {}", args[i]); std::process::exit(2); }
        }
    }
    let mut jobs: Vec<Value> = std::io::BufReader::new(std::fs::File::open(&inp).expect("input"))
        .lines()
        .filter_map(|l| l.ok())
        .filter(|l| !l.trim().is_empty())
        .map(|l| serde_json::from_str(&l).expect("job json"))
        .collect();
    let limits = Limits { per_job: Duration::from_millis(timeout_ms), address_space: 4 << 30, stack: 0 };
    let results = if mode == "small" || mode == "history" {
        let names: Vec<String> = if !jobs.is_empty() && jobs[0]["names"].is_array() && jobs[0].get("id").is_none() {
            let first = jobs.remove(0);
            first["names"].as_array().unwrap().iter().map(untext).collect()
        } else {
            vec![]
        };
        if mode == "small" {
            run_isolated(&jobs, &limits, || (), |_, job| small_job(&names, job))
        } else {
            run_isolated(&jobs, &limits, || (), |_, job| history_job(&names, job))
        }
    } else {
        let kind = ctx_kind.clone();
        run_isolated(&jobs, &limits, move || (make_ctx(&kind), make_ctx(&kind)), |st, job| {
            let (ctx, fresh) = (&st.0, &st.1);
            let name = untext(&job["n"]);
            let l = opt_num(&ctx.lookup(&name));
            let again = opt_num(&ctx.lookup(&name));
            let fr = opt_num(&fresh.lookup(&name));
            let canon = ctx.canonicalize(&name);
            let cl = canon.as_ref().and_then(|c| ctx.lookup(c));
            json!({"n": text(&name), "again_same": again == l, "fresh_same": fr == l, "l": l,
                   "canon": canon.as_ref().map(|c| text(c)), "cl": opt_num(&cl)})
        })
    };
    let mut out = std::io::BufWriter::new(std::fs::File::create(&outp).expect("output"));
    for (job, mut r) in jobs.iter().zip(results.into_iter()) {
        if r.get("crash").is_some() {
            if let Some(id) = job.get("id") {
                r["id"] = id.clone();
            }
            if let Some(n) = job.get("n") {
                r["n"] = n.clone();
            }
        }
        writeln!(out, "{}", r).unwrap();
    }
}
