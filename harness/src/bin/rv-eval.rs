//! Runs queries through the real rink-core and records what it did.
//!
//!   rv-eval run --ctx empty|bundled|currency|file:<path> [--timeout-ms N] [--ans] --in F --out F
//!
//! Input: NDJSON, one job per line: {"q": [code points]} or {"qs": "text"}; optional
//!   "reset": true (fresh context before this job), "render": true (also text / spans / JSON),
//!   "dateval": true (C14: also the date value of a plain expression, see obs::datetime_json),
//!   "clock": [y, m, d, h, mi, s] (C14: evaluate with the context clock set to this UTC time),
//!   "expr": <AST json> (C11: print this expression instead of parsing text),
//!   "clear_ans" / "preset" / "slim" / "st" (C15: see run_job).
//! Output: one line per job: {"q", "ast", "obs", "ms"} or {"q", "crash": ...}.
//!
//!   rv-eval dump <ctx> <out.json>   canonical JSON dump of the loaded registry
//!   rv-eval tznames      prints the time zone names chrono-tz knows, one per line
use rink_core::output::fmt::TokenFmt;
use rink_core::parsing::text_query::{parse_expr, parse_query, TokenIterator};
use rink_core::Context;
use rv_harness::astjson::{expr_json, json_expr, query_json};
use rv_harness::conv::{text, untext};
use rv_harness::obs::reply_obs;
use rv_harness::worker::{run_isolated, Limits};
use serde_json::{json, Value};
use std::io::{BufRead, Write};
use std::time::Duration;

fn make_ctx(kind: &str, ans: bool) -> Context {
    let mut ctx = match kind {
        "empty" => Context::new(),
        "bundled" => rink_core::simple_context().expect("bundled context"),
        "currency" => {
            let mut ctx = rink_core::simple_context().expect("bundled context");
            let live = std::fs::read_to_string("/repo/core/tests/currency.snapshot.json").expect("snapshot");
            ctx.load_currency(&live, rink_core::CURRENCY_FILE.unwrap()).expect("currency");
            ctx
        }
        k if k.starts_with("file:") => {
            let mut ctx = Context::new();
            let content = std::fs::read_to_string(&k[5..]).expect("definitions file");
            if let Err(e) = ctx.load_definitions(&content) {
                eprintln!("load errors: {}", e);
            }
            ctx.load_date_file(rink_core::DATES_FILE.unwrap());
            ctx
        }
        _ => panic!("unknown ctx kind"),
    };
    ctx.use_humanize = false;
    ctx.save_previous_result = ans;
    ctx
}

fn job_text(job: &Value) -> String {
    if let Some(s) = job["qs"].as_str() {
        s.to_string()
    } else {
        untext(&job["q"])
    }
}

fn run_job(ctx: &mut Context, job: &Value) -> Value {
    if job["expr"].is_object() {
        // C11: build the expression, print it, re-parse the printed text
        let e = match json_expr(&job["expr"]) {
            Some(e) => e,
            None => return json!({"bad_job": true}),
        };
        let printed = e.to_string();
        let mut it = TokenIterator::new(&printed).peekable();
        let back = parse_expr(&mut it);
        return json!({"printed": text(&printed), "same": back == e, "back": expr_json(&back), "orig": expr_json(&e)});
    }
    if let Some(t) = job["rt"].as_str() {
        // C11: parse, print, re-parse; and the serde exchange form of a definition
        let mut it = TokenIterator::new(t).peekable();
        let e = parse_expr(&mut it);
        let printed = e.to_string();
        let mut it2 = TokenIterator::new(&printed).peekable();
        let back = parse_expr(&mut it2);
        let entry = rink_core::ast::DefEntry::new_unit("x", None, None, e.clone());
        let serde = match serde_json::to_string(&entry) {
            Ok(js) => match serde_json::from_str::<rink_core::ast::DefEntry>(&js) {
                Ok(d) => match &*d.def {
                    rink_core::ast::Def::Unit { expr } => if expr.0 == e { "ok" } else { "diff" },
                    _ => "diff",
                },
                Err(_) => "err",
            },
            Err(_) => "err",
        };
        // the structured form (ExprReply: a token list for clients), read back token by token
        fn flatten(parts: &serde_json::Value, out: &mut Vec<String>, ok: &mut bool) {
            for p in parts.as_array().map(|a| a.as_slice()).unwrap_or(&[]) {
                match p["type"].as_str() {
                    Some("literal") => out.push(p["text"].as_str().unwrap_or("").to_string()),
                    Some("unit") => out.push(p["name"].as_str().unwrap_or("").to_string()),
                    Some("property") => {
                        out.push(format!("{} of", p["property"].as_str().unwrap_or("")));
                        flatten(&p["subject"], out, ok);
                    }
                    _ => *ok = false,
                }
            }
        }
        let reply = rink_core::output::ExprReply::from(&e);
        let rv = serde_json::to_value(&reply).unwrap_or(serde_json::Value::Null);
        let (mut toks, mut rok) = (vec![], rv["exprs"].is_array());
        flatten(&rv["exprs"], &mut toks, &mut rok);
        let rprinted = toks.join(" ");
        let mut it3 = TokenIterator::new(&rprinted).peekable();
        let rback = parse_expr(&mut it3);
        return json!({"q": text(t), "ast": expr_json(&e), "printed": text(&printed), "same": back == e, "serde": serde,
                      "rprinted": text(&rprinted), "rsame": rback == e, "rok": rok});
    }
    if job["lookup"].is_array() {
        // C07: Context::lookup / canonicalize of a name
        let name = untext(&job["lookup"]);
        let v = ctx.lookup(&name);
        let c = ctx.canonicalize(&name);
        let cv = c.as_ref().and_then(|c| ctx.lookup(c));
        return json!({"q": text(&name), "lookup": v.as_ref().map(rv_harness::obs::number_json),
                      "canon": c.as_ref().map(|c| text(c)), "canon_lookup": cv.as_ref().map(rv_harness::obs::number_json)});
    }
    let q = job_text(job);
    // C15: "clear_ans" forgets the previous answer, "preset" installs one (a number observation),
    // "slim" records digests instead of the bulky AST / reply, "st" adds the state digests.
    if job["clear_ans"].as_bool().unwrap_or(false) {
        ctx.previous_result = None;
    }
    if job["preset"].is_object() {
        ctx.previous_result = rv_harness::session::json_number(&job["preset"]);
    }
    let mut it = TokenIterator::new(q.trim()).peekable();
    let query = parse_query(&mut it);
    let before = chrono::Local::now();
    // C14: "clock": [year, month, day, hour, minute, second] (UTC) sets the context clock (Context::set_time) and the
    // query is evaluated as it is, without rink_core::eval putting the clock back to the system time first
    let reply = if let Some(c) = job["clock"].as_array() {
        use chrono::TimeZone;
        let f: Vec<i64> = c.iter().map(|x| x.as_i64().unwrap_or(-1)).collect();
        let t = if f.len() == 6 {
            chrono::Utc.with_ymd_and_hms(f[0] as i32, f[1] as u32, f[2] as u32, f[3] as u32, f[4] as u32, f[5] as u32).single()
        } else {
            None
        };
        match t {
            Some(t) => ctx.set_time(t.with_timezone(&chrono::Local)),
            None => return json!({"bad_job": true}),
        }
        ctx.eval_query(&query)
    } else {
        rink_core::eval(ctx, &q)
    };
    // C15, the clock: rink_core::eval sets ctx.now at its start; no query may move it anywhere else
    // (5 s of slack for a stepping system clock)
    let slack = chrono::Duration::seconds(5);
    let clock_ok = before - slack <= ctx.now && ctx.now <= chrono::Local::now() + slack;
    let slim = job["slim"].as_bool().unwrap_or(false);
    let mut out = if slim {
        let o = reply_obs(&reply);
        let raw = match &reply {
            Ok(rink_core::output::QueryReply::Number(p)) => p.raw_value.clone(),
            Ok(rink_core::output::QueryReply::Duration(d)) => d.raw.raw_value.clone(),
            _ => None,
        };
        json!({"q": text(&q), "plain": matches!(query, rink_core::ast::Query::Expr(_)),
               "t": o["t"], "kind": o["kind"], "c": o["c"],
               "rd": rv_harness::session::digest(&o.to_string()),
               "raw_d": raw.as_ref().map(|n| rv_harness::session::digest(&rv_harness::obs::number_json(n).to_string()))})
    } else {
        json!({"q": text(&q), "ast": query_json(&query), "obs": reply_obs(&reply)})
    };
    if slim || job["st"].as_bool().unwrap_or(false) {
        out["clock_ok"] = json!(clock_ok);
        out["ans_d"] = match &ctx.previous_result {
            Some(prev) => json!(rv_harness::session::digest(&rv_harness::obs::number_json(prev).to_string())),
            None => Value::Null,
        };
    }
    if job["st"].as_bool().unwrap_or(false) {
        out["st"] = rv_harness::session::state_json(ctx);
    }
    if job["render"].as_bool().unwrap_or(false) {
        // every output form: plain text, span tree, JSON
        let plain = match &reply {
            Ok(r) => r.to_string(),
            Err(e) => e.to_string(),
        };
        let spans = match &reply {
            Ok(r) => r.to_spans().len(),
            Err(e) => e.to_spans().len(),
        };
        let js = match &reply {
            Ok(r) => serde_json::to_value(r).map(|v| v.to_string().len()),
            Err(e) => serde_json::to_value(e).map(|v| v.to_string().len()),
        };
        out["render"] = json!({"plain_len": plain.len(), "spans": spans, "json_ok": js.is_ok(), "plain": text(&plain)});
    }
    if job["dateval"].as_bool().unwrap_or(false) {
        // C14: when the query is a plain expression whose value is a date, the value itself (not only the
        // reply made from it): seconds since the Unix epoch, nanoseconds, the exact UTC offset in seconds
        // (a reply shows offsets rounded to minutes) and the variant (fixed offset / named zone).
        if let rink_core::ast::Query::Expr(ref e) = query {
            if let Ok(rink_core::Value::DateTime(d)) = ctx.eval(e) {
                out["dateval"] = rv_harness::obs::datetime_json(&d);
            }
        }
    }
    if let Some(prev) = &ctx.previous_result {
        out["ans"] = rv_harness::obs::number_json(prev);
    } else {
        out["ans"] = Value::Null;
    }
    out
}

fn main() {
    let args: Vec<String> = std::env::args().collect();
    if args.get(1).map(|s| s.as_str()) == Some("tznames") {
        for tz in chrono_tz::TZ_VARIANTS.iter() {
            println!("{}", tz.name());
        }
        return;
    }
    if args.get(1).map(|s| s.as_str()) == Some("dump") {
        // rv-eval dump <ctx> <out.json>
        let ctx = make_ctx(&args[2], false);
        let v = rv_harness::dump::registry_json(&ctx);
        std::fs::write(&args[3], serde_json::to_string(&v).unwrap()).expect("write dump");
        return;
    }
    if args.get(1).map(|s| s.as_str()) != Some("run") {
        eprintln!("usage: rv-eval run --ctx K --in F --out F");
        std::process::exit(2);
    }
    let mut ctx_kind = "empty".to_string();
    let mut timeout_ms = 10_000u64;
    let mut inp = String::new();
    let mut outp = String::new();
    let mut ans = false;
    let mut i = 2;
    while i < args.len() {
        match args[i].as_str() {
            "--ctx" => { ctx_kind = args[i + 1].clone(); i += 2; }
            "--timeout-ms" => { timeout_ms = args[i + 1].parse().unwrap(); i += 2; }
            "--in" => { inp = args[i + 1].clone(); i += 2; }
            "--out" => { outp = args[i + 1].clone(); i += 2; }
            "--ans" => { ans = true; i += 1; }
            _ => { eprintln!("unknown arg {}", args[i]); std::process::exit(2); }
        }
    }
    let jobs: Vec<Value> = std::io::BufReader::new(std::fs::File::open(&inp).expect("input"))
        .lines()
        .filter_map(|l| l.ok())
        .filter(|l| !l.trim().is_empty())
        .map(|l| serde_json::from_str(&l).expect("job json"))
        .collect();
    let limits = Limits { per_job: Duration::from_millis(timeout_ms), address_space: 4 << 30, stack: 0 };
    let kind = ctx_kind.clone();
    let results = run_isolated(&jobs, &limits, move || make_ctx(&kind, ans), |ctx, job| {
        if job["reset"].as_bool().unwrap_or(false) {
            let k = ctx_kind.clone();
            *ctx = make_ctx(&k, ans);
        }
        run_job(ctx, job)
    });
    let mut out = std::io::BufWriter::new(std::fs::File::create(&outp).expect("output"));
    for (job, mut r) in jobs.iter().zip(results.into_iter()) {
        if r.get("q").is_none() {
            r["q"] = text(&job_text(job));
        }
        if let Some(id) = job.get("id") {
            r["id"] = id.clone();
        }
        writeln!(out, "{}", r).unwrap();
    }
}
