//! C05: what the number formatter prints for a given rational, base and digits mode.
//!
//!   rv-num run [--timeout-ms N] --in F --out F
//!
//! Input: NDJSON, one job per line:
//!   {"p": {"neg": bool, "mag": [limbs]}, "q": [limbs], "base": 2..36,
//!    "mode": "default"|"digits"|"full"|"sci"|"eng"|"frac", "n": N, "query": bool}
//! Output: one line per job (the job's fields plus):
//!   "is_exact", "text"      Numeric::to_string(base, digits)
//!   "pe", "pa"              exact_value / approx_value of Number::to_parts_digits(ctx, base, digits)
//!   "qs", "qt", "qe", "qa", "qv"   (query = true) the text `p/q -> <mode> base B` evaluated with
//!                           rink_core::eval: reply kind, exact / approx numeral, raw value
//!   or {"crash": ...} when the formatter panicked / hung (data, not a tool failure).
use rink_core::output::{Digits, QueryReply};
use rink_core::types::{BigInt, BigRat, Number, Numeric};
use rink_core::Context;
use rv_harness::conv::{json_int, limbs_nat, text};
use rv_harness::obs::{number_json, opt_text};
use rv_harness::worker::{run_isolated, Limits};
use serde_json::{json, Value};
use std::io::{BufRead, Write};
use std::time::Duration;

fn digits_of(job: &Value) -> Option<Digits> {
    Some(match job["mode"].as_str()? {
        "default" => Digits::Default,
        "digits" => Digits::Digits(job["n"].as_u64()?),
        "full" => Digits::FullInt,
        "sci" => Digits::Scientific,
        "eng" => Digits::Engineering,
        "frac" => Digits::Fraction,
        _ => return None,
    })
}

fn query_text(p: &num_bigint::BigInt, q: &num_bigint::BigUint, base: u64, job: &Value) -> String {
    let mut s = format!("({})/{}", p, q);
    let mode = match job["mode"].as_str().unwrap_or("") {
        "digits" => format!("digits {}", job["n"].as_u64().unwrap_or(0)),
        "full" => "digits".to_string(),
        "sci" => "sci".to_string(),
        "eng" => "eng".to_string(),
        "frac" => "frac".to_string(),
        _ => String::new(),
    };
    let b = match base {
        10 if !mode.is_empty() || job["mode"] == "default" => String::new(),
        16 => "hex".to_string(),
        8 => "oct".to_string(),
        2 => "bin".to_string(),
        b => format!("base {}", b),
    };
    if !mode.is_empty() || !b.is_empty() {
        s.push_str(" -> ");
        s.push_str(&mode);
        if !mode.is_empty() && !b.is_empty() {
            s.push(' ');
        }
        s.push_str(&b);
    }
    s
}

fn run_job(ctx: &mut Context, job: &Value) -> Value {
    let p = json_int(&job["p"]);
    let q = limbs_nat(&job["q"]);
    let base = job["base"].as_u64().unwrap_or(10);
    let digits = match digits_of(job) {
        Some(d) => d,
        None => return json!({"bad_job": true}),
    };
    if q == num_bigint::BigUint::from(0u32) || !(2..=36).contains(&base) {
        return json!({"bad_job": true});
    }
    let qi = num_bigint::BigInt::from(q.clone());
    let rat = BigRat::ratio(&BigInt::from(p.clone()), &BigInt::from(qi));
    let num = Numeric::Rational(rat);
    let (is_exact, s) = num.to_string(base as u8, digits);
    let parts = Number::new(num).to_parts_digits(ctx, base as u8, digits);
    let mut out = json!({
        "p": job["p"], "q": job["q"], "base": base, "mode": job["mode"], "n": job["n"].as_u64().unwrap_or(0),
        "is_exact": is_exact, "text": text(&s),
        "pe": opt_text(&parts.exact_value), "pa": opt_text(&parts.approx_value),
    });
    if job["query"].as_bool().unwrap_or(false) {
        let qs = query_text(&p, &q, base, job);
        let reply = rink_core::eval(ctx, &qs);
        out["qs"] = text(&qs);
        let np = match &reply {
            Ok(QueryReply::Number(np)) => Some(np),
            Ok(QueryReply::Conversion(c)) => Some(&c.value),
            _ => None,
        };
        match (np, &reply) {
            (Some(np), _) => {
                out["qt"] = json!("number");
                out["qe"] = opt_text(&np.exact_value);
                out["qa"] = opt_text(&np.approx_value);
                out["qv"] = np.raw_value.as_ref().map(number_json).unwrap_or(Value::Null);
            }
            (None, Ok(_)) => out["qt"] = json!("other"),
            (None, Err(e)) => {
                out["qt"] = json!("err");
                out["qmsg"] = json!(e.to_string());
            }
        }
    }
    out
}

fn main() {
    let args: Vec<String> = std::env::args().collect();
    if args.get(1).map(|s| s.as_str()) != Some("run") {
        eprintln!("usage: rv-num run [--timeout-ms N] --in F --out F");
        std::process::exit(2);
    }
    let mut timeout_ms = 20_000u64;
    let mut inp = String::new();
    let mut outp = String::new();
    let mut i = 2;
    while i < args.len() {
        match args[i].as_str() {
            "--timeout-ms" => { timeout_ms = args[i + 1].parse().unwrap(); i += 2; }
            "--in" => { inp = args[i + 1].clone(); i += 2; }
            "--out" => { outp = args[i + 1].clone(); i += 2; }
            _ => { eprintln!("unknown arg {}", args[i]); std::process::exit(2); }
        }
    }
    let jobs: Vec<Value> = std::io::BufReader::new(std::fs::File::open(&inp).expect("input"))
        .lines()
        .filter_map(|l| l.ok())
        .filter(|l| !l.trim().is_empty())
        .map(|l| serde_json::from_str(&l).expect("job json"))
        .collect();
    let limits = Limits { per_job: Duration::from_millis(timeout_ms), address_space: 4 << 30, stack: 0 };
    let results = run_isolated(&jobs, &limits, || {
        let mut ctx = Context::new();
        ctx.use_humanize = false;
        ctx
    }, |ctx, job| run_job(ctx, job));
    let mut out = std::io::BufWriter::new(std::fs::File::create(&outp).expect("output"));
    for (job, mut r) in jobs.iter().zip(results.into_iter()) {
        if r.get("crash").is_some() {
            for k in ["p", "q", "base", "mode", "n"] {
                r[k] = job[k].clone();
            }
        }
        if let Some(id) = job.get("id") {
            r["id"] = id.clone();
        }
        writeln!(out, "{}", r).unwrap();
    }
}
