//! Isolated execution of a list of jobs: a forked child runs jobs one after another on a
//! long-lived state and streams one JSON line per job through a pipe; the parent enforces a
//! per-job wall-clock limit. A panic is caught inside the child and reported; an abort, stack
//! overflow, memory exhaustion or hang is seen by the parent, which records it for the job that
//! caused it and forks a fresh child for the remaining jobs. (A panic/abort/hang of the code
//! under test is data, never a tool failure.)
use serde_json::{json, Value};
use std::io::{BufRead, BufReader, Write};
use std::os::unix::io::FromRawFd;
use std::time::{Duration, Instant};

pub struct Limits {
    pub per_job: Duration,
    pub address_space: u64, // bytes, 0 = unlimited
    pub stack: u64,         // bytes for the worker's main stack (RLIMIT_STACK), 0 = inherit
}

fn panic_text(e: Box<dyn std::any::Any + Send>) -> String {
    if let Some(s) = e.downcast_ref::<String>() {
        s.clone()
    } else if let Some(s) = e.downcast_ref::<&str>() {
        s.to_string()
    } else {
        "panic".to_string()
    }
}

/// Runs `jobs` through `f` in forked children. `f(state, job) -> Value` is called under
/// catch_unwind. Returns one Value per job: f's value, or {"crash": "panic"|"abort"|"timeout", ...}.
/// replaces every sub-value nested deeper than `left` levels by the string "<deep>"; true if anything was cut
pub fn cut_deep(v: &mut Value, left: usize) -> bool {
    match v {
        Value::Array(a) => {
            if left == 0 {
                *v = json!("<deep>");
                return true;
            }
            let mut cut = false;
            for x in a.iter_mut() {
                cut |= cut_deep(x, left - 1);
            }
            cut
        }
        Value::Object(o) => {
            if left == 0 {
                *v = json!("<deep>");
                return true;
            }
            let mut cut = false;
            for (_, x) in o.iter_mut() {
                cut |= cut_deep(x, left - 1);
            }
            cut
        }
        _ => false,
    }
}

pub fn run_isolated<S, I, F>(jobs: &[Value], limits: &Limits, init: I, f: F) -> Vec<Value>
where
    I: Fn() -> S,
    F: Fn(&mut S, &Value) -> Value,
{
    let mut results: Vec<Value> = Vec::with_capacity(jobs.len());
    let mut next = 0usize;
    // VERIF_MAX_TIMEOUTS: once that many jobs of this batch ran into the watchdog the rest is not run (a defect that
    // hangs on a whole family of inputs would otherwise cost limit x family size); they are reported as "not-run".
    let max_timeouts: usize = std::env::var("VERIF_MAX_TIMEOUTS").ok().and_then(|s| s.parse().ok()).unwrap_or(usize::MAX);
    let mut timeouts = 0usize;
    while next < jobs.len() {
        if timeouts >= max_timeouts {
            while next < jobs.len() {
                results.push(json!({"crash": "not-run", "after_timeouts": timeouts}));
                next += 1;
            }
            break;
        }
        let mut fds = [0i32; 2];
        let mut efds = [0i32; 2];
        unsafe {
            assert_eq!(libc::pipe(fds.as_mut_ptr()), 0);
            assert_eq!(libc::pipe(efds.as_mut_ptr()), 0);
            // the parent reads the child's stderr only after the child died: never block on it
            let fl = libc::fcntl(efds[0], libc::F_GETFL);
            libc::fcntl(efds[0], libc::F_SETFL, fl | libc::O_NONBLOCK);
            let fl = libc::fcntl(efds[1], libc::F_GETFL);
            libc::fcntl(efds[1], libc::F_SETFL, fl | libc::O_NONBLOCK);
        }
        let pid = unsafe { libc::fork() };
        assert!(pid >= 0, "fork failed");
        if pid == 0 {
            // ---- child
            unsafe {
                libc::close(fds[0]);
                libc::close(efds[0]);
                libc::dup2(efds[1], 2);
                if limits.address_space > 0 {
                    let rl = libc::rlimit { rlim_cur: limits.address_space, rlim_max: limits.address_space };
                    libc::setrlimit(libc::RLIMIT_AS, &rl);
                }
                // no core dumps
                let rl0 = libc::rlimit { rlim_cur: 0, rlim_max: 0 };
                libc::setrlimit(libc::RLIMIT_CORE, &rl0);
            }
            std::panic::set_hook(Box::new(|_| {}));
            let mut out = unsafe { std::fs::File::from_raw_fd(fds[1]) };
            let mut state = init();
            for job in &jobs[next..] {
                let t0 = Instant::now();
                let r = std::panic::catch_unwind(std::panic::AssertUnwindSafe(|| f(&mut state, job)));
                let mut v = match r {
                    Ok(v) => v,
                    Err(e) => json!({"crash": "panic", "msg": panic_text(e)}),
                };
                if let Some(o) = v.as_object_mut() {
                    o.insert("ms".to_string(), json!(t0.elapsed().as_millis() as u64));
                }
                // serde_json (and Python's json) refuse documents nested deeper than ~128 levels: a deeply nested
                // AST or reply is cut there, so that the result line stays readable (it is still a result, not a crash)
                if cut_deep(&mut v, 100) {
                    if let Some(o) = v.as_object_mut() {
                        o.insert("deep".to_string(), json!(true));
                    }
                }
                let line = serde_json::to_string(&v).unwrap_or_else(|e| {
                    json!({"crash": "panic", "msg": format!("result not serialisable: {}", e)}).to_string()
                });
                if writeln!(out, "{}", line).is_err() {
                    unsafe { libc::_exit(3) };
                }
                let _ = out.flush();
            }
            unsafe { libc::_exit(0) };
        }
        // ---- parent
        unsafe {
            libc::close(fds[1]);
            libc::close(efds[1]);
        }
        let read_stderr = |fd: i32| -> String {
            let mut buf = vec![0u8; 8192];
            let n = unsafe { libc::read(fd, buf.as_mut_ptr() as *mut libc::c_void, buf.len()) };
            if n > 0 {
                String::from_utf8_lossy(&buf[..n as usize]).chars().take(400).collect()
            } else {
                String::new()
            }
        };
        let file = unsafe { std::fs::File::from_raw_fd(fds[0]) };
        let mut reader = BufReader::new(file);
        let mut line = String::new();
        let mut died = false;
        while next < jobs.len() {
            // wait for readability with the per-job limit
            let mut pfd = libc::pollfd { fd: fds[0], events: libc::POLLIN, revents: 0 };
            let deadline = Instant::now() + limits.per_job;
            let mut timed_out = false;
            loop {
                if !reader.buffer().is_empty() {
                    break;
                }
                let left = deadline.saturating_duration_since(Instant::now());
                if left.is_zero() {
                    timed_out = true;
                    break;
                }
                let rc = unsafe { libc::poll(&mut pfd, 1, left.as_millis().min(i32::MAX as u128) as i32) };
                if rc > 0 {
                    break;
                }
                if rc == 0 {
                    timed_out = true;
                    break;
                }
            }
            if timed_out {
                unsafe {
                    libc::kill(pid, libc::SIGKILL);
                    let mut st = 0;
                    libc::waitpid(pid, &mut st, 0);
                }
                results.push(json!({"crash": "timeout", "limit_ms": limits.per_job.as_millis() as u64}));
                timeouts += 1;
                next += 1;
                died = true;
                break;
            }
            line.clear();
            match reader.read_line(&mut line) {
                Ok(0) | Err(_) => {
                    // EOF: the child is gone before answering job `next`
                    let mut st = 0;
                    unsafe {
                        libc::waitpid(pid, &mut st, 0);
                    }
                    let sig = if libc::WIFSIGNALED(st) { libc::WTERMSIG(st) } else { 0 };
                    let code = if libc::WIFEXITED(st) { libc::WEXITSTATUS(st) } else { -1 };
                    results.push(json!({"crash": "abort", "signal": sig, "exit": code, "stderr": read_stderr(efds[0])}));
                    next += 1;
                    died = true;
                    break;
                }
                Ok(_) => {
                    let v: Value = serde_json::from_str(line.trim()).unwrap_or(json!({"crash": "garbled"}));
                    results.push(v);
                    next += 1;
                }
            }
        }
        if !died {
            let mut st = 0;
            unsafe {
                libc::waitpid(pid, &mut st, 0);
            }
        }
        unsafe {
            libc::close(efds[0]);
        }
    }
    results
}
