//! SplitMix64 / xorshift PRNG (no external crate needed; seeded by VERIF_SEED).
#[derive(Clone)]
pub struct Rng(pub u64);

impl Rng {
    pub fn new(seed: u64) -> Rng {
        Rng(seed.wrapping_mul(0x9E3779B97F4A7C15).wrapping_add(0x1234_5678_9ABC_DEF1))
    }
    pub fn next_u64(&mut self) -> u64 {
        self.0 = self.0.wrapping_add(0x9E3779B97F4A7C15);
        let mut z = self.0;
        z = (z ^ (z >> 30)).wrapping_mul(0xBF58476D1CE4E5B9);
        z = (z ^ (z >> 27)).wrapping_mul(0x94D049BB133111EB);
        z ^ (z >> 31)
    }
    /// uniform in 0..n (n > 0)
    pub fn below(&mut self, n: u64) -> u64 {
        self.next_u64() % n
    }
    pub fn range(&mut self, lo: i64, hi: i64) -> i64 {
        lo + (self.below((hi - lo + 1) as u64) as i64)
    }
    pub fn chance(&mut self, num: u64, den: u64) -> bool {
        self.below(den) < num
    }
    pub fn pick<'a, T>(&mut self, xs: &'a [T]) -> &'a T {
        &xs[self.below(xs.len() as u64) as usize]
    }
    pub fn shuffle<T>(&mut self, xs: &mut [T]) {
        for i in (1..xs.len()).rev() {
            let j = self.below((i + 1) as u64) as usize;
            xs.swap(i, j);
        }
    }
}

pub fn seed_from_env() -> u64 {
    std::env::var("VERIF_SEED").ok().and_then(|s| s.parse().ok()).unwrap_or(1)
}
