//! C15: making "database, scratch names and settings untouched" observable.
//!
//! `state_json(ctx)` digests what a query must not change:
//!   db       - FNV-1a (64 bit) + length of `format!("{:?}", ctx.registry)`
//!   tmp      - the `temporaries` map (private field): the slice of `format!("{:?}", ctx)` between the
//!              last ", temporaries: " and the last ", now: " (the fields that follow the registry in the
//!              derived Debug output; none of the later fields can contain these markers)
//!   settings - [use_humanize, save_previous_result]
//! `digest(text)` is also used for reply / value digests (canonical JSON text of an observation).
use rink_core::types::{BaseUnit, BigInt, BigRat, Dimensionality, Number, Numeric};
use rink_core::Context;
use serde_json::{json, Value};

pub fn fnv64(bytes: &[u8]) -> u64 {
    let mut h: u64 = 0xcbf29ce484222325;
    for b in bytes {
        h ^= *b as u64;
        h = h.wrapping_mul(0x100000001b3);
    }
    h
}

/// "<length>-<fnv64 hex>"
pub fn digest(s: &str) -> String {
    format!("{}-{:016x}", s.len(), fnv64(s.as_bytes()))
}

pub fn state_json(ctx: &Context) -> Value {
    // one Debug rendering of the whole context (about 150 ms for the bundled registry)
    let whole = format!("{:?}", ctx);
    let head = "Context { registry: ";
    match (whole.rfind(", temporaries: "), whole.rfind(", now: ")) {
        (Some(a), Some(b)) if a < b && whole.starts_with(head) => json!({
            "db": digest(&whole[head.len()..a]),
            "tmp": whole[a + 15..b].to_string(),
            "settings": [ctx.use_humanize, ctx.save_previous_result],
        }),
        _ => json!({"db": Value::Null, "tmp": Value::Null, "settings": [ctx.use_humanize, ctx.save_previous_result]}),
    }
}

/// {"t": "num", "v": {"n": {"neg", "mag"}, "d": limbs}, "d": [{"u": text, "e": int}]} -> Number
pub fn json_number(v: &Value) -> Option<Number> {
    use crate::conv::{json_int, limbs_nat, untext};
    if v["t"].as_str()? != "num" {
        return None;
    }
    let n = json_int(&v["v"]["n"]);
    let d = num_bigint::BigInt::from(limbs_nat(&v["v"]["d"]));
    let mut dims = vec![];
    for x in v["d"].as_array()? {
        dims.push((BaseUnit::new(&untext(&x["u"])), x["e"].as_i64()?));
    }
    let unit: Dimensionality = dims.into_iter().collect();
    Some(Number {
        value: Numeric::Rational(BigRat::ratio(&BigInt::from(n), &BigInt::from(d))),
        unit,
    })
}
