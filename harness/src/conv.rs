//! Conversions across the spec/harness boundary (Appendix C of DESIGN.md).
use num_bigint::{BigInt as NBigInt, BigUint, Sign};
use num_traits::Zero;
use serde_json::{json, Value};

/// text -> [code point, ...]
pub fn text(s: &str) -> Value {
    Value::Array(s.chars().map(|c| json!(c as u32)).collect())
}

pub fn untext(v: &Value) -> String {
    v.as_array()
        .map(|a| {
            a.iter()
                .filter_map(|x| x.as_u64().and_then(|n| char::from_u32(n as u32)))
                .collect()
        })
        .unwrap_or_default()
}

/// natural -> little-endian base-4096 limbs (zero is the empty array)
pub fn nat_limbs(n: &BigUint) -> Value {
    let mut limbs = vec![];
    let mut cur = n.clone();
    let mask = BigUint::from(4095u32);
    while !cur.is_zero() {
        let l = (&cur & &mask).to_u32_digits();
        limbs.push(json!(l.first().copied().unwrap_or(0)));
        cur >>= 12;
    }
    Value::Array(limbs)
}

pub fn int_json(n: &NBigInt) -> Value {
    json!({"neg": n.sign() == Sign::Minus, "mag": nat_limbs(n.magnitude())})
}

pub fn limbs_nat(v: &Value) -> BigUint {
    let mut r = BigUint::zero();
    if let Some(a) = v.as_array() {
        for x in a.iter().rev() {
            r <<= 12;
            r += BigUint::from(x.as_u64().unwrap_or(0));
        }
    }
    r
}

pub fn json_int(v: &Value) -> NBigInt {
    let mag = limbs_nat(&v["mag"]);
    let neg = v["neg"].as_bool().unwrap_or(false);
    NBigInt::from_biguint(if neg { Sign::Minus } else { Sign::Plus }, mag)
}
