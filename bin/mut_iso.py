#!/usr/bin/env python3
"""mut_iso.py <patch-file> <ID> [tier]

Runs one check against a MUTATED COPY of /repo without touching /repo and without the repository lock
(bin/mut.sh needs the exclusive lock, which starves while other checks keep taking the shared one).
The copy of /repo/{core,sandbox} and of the harness lives under /verif/work/mutiso (own cargo target
directory, re-used between runs: only rink-core and the harness are rebuilt per mutant).  Evidence and
replay files of the mutant run go to the scratch directory, not to /verif/evidence or /verif/replays.
Exit code = the check's exit code (1 = the mutant was caught)."""
import fcntl
import importlib
import os
import shutil
import subprocess
import sys
import traceback

sys.path.insert(0, os.path.dirname(os.path.abspath(__file__)))
import vlib  # noqa: E402


def main():
    patch, prop = os.path.abspath(sys.argv[1]), sys.argv[2].upper()
    tier = sys.argv[3] if len(sys.argv) > 3 else "quick"
    root = os.path.join(vlib.WORK, os.environ.get("VERIF_MUTISO", "mutiso"))
    os.makedirs(root, exist_ok=True)
    lk = open(os.path.join(root, "lock"), "w")
    fcntl.flock(lk, fcntl.LOCK_EX)          # one isolated mutant run at a time (they share the scratch tree)
    repo = os.path.join(root, "repo")
    har = os.path.join(root, "harness")
    full = os.environ.get("VERIF_MUTISO_FULL") == "1" or any(ln.startswith("+++ b/cli/") for ln in open(patch, errors="replace"))
    if full:
        # the patch touches the cli crate: copy the whole workspace and build the rink binary from the copy (c20.build_cli
        # honours VERIF_REPO / VERIF_CLI_TARGET; c12 and c18 use c20's binary)
        for sub in ("cli", "irc", "rink-js", "web", "docs"):
            shutil.rmtree(os.path.join(repo, sub), ignore_errors=True)
            if os.path.isdir(os.path.join(vlib.REPO, sub)):
                shutil.copytree(os.path.join(vlib.REPO, sub), os.path.join(repo, sub),
                                ignore=shutil.ignore_patterns("target", "node_modules"), copy_function=shutil.copy, symlinks=True)
        for f in ("Cargo.toml", "Cargo.lock"):
            shutil.copy(os.path.join(vlib.REPO, f), os.path.join(repo, f))
        os.environ["VERIF_CLI_TARGET"] = os.path.join(root, "target-cli")
    for sub in ("core", "sandbox"):
        shutil.rmtree(os.path.join(repo, sub), ignore_errors=True)
        # plain copy (fresh modification times): cargo must notice every difference to the previous mutant
        shutil.copytree(os.path.join(vlib.REPO, sub), os.path.join(repo, sub), ignore=shutil.ignore_patterns("target"),
                        copy_function=shutil.copy)
    p = subprocess.run(["patch", "-p1", "-s", "-d", repo, "-i", patch], stdout=subprocess.PIPE, stderr=subprocess.STDOUT, text=True)
    if p.returncode != 0:
        print(p.stdout)
        print("patch does not apply")
        return 3
    os.makedirs(har, exist_ok=True)
    shutil.rmtree(os.path.join(har, "src"), ignore_errors=True)
    shutil.copytree(os.path.join(vlib.HARNESS, "src"), os.path.join(har, "src"))
    shutil.copytree(os.path.join(vlib.HARNESS, ".cargo"), os.path.join(har, ".cargo"), dirs_exist_ok=True)
    shutil.copy(os.path.join(vlib.HARNESS, "Cargo.lock"), os.path.join(har, "Cargo.lock"))
    toml = open(os.path.join(vlib.HARNESS, "Cargo.toml")).read().replace('"/repo/', '"%s/' % repo)
    open(os.path.join(har, "Cargo.toml"), "w").write(toml)
    if full:
        vlib.REPO = repo
    vlib.HARNESS = har
    vlib.EVID = os.path.join(root, "evidence")
    vlib.REPLAYS = os.path.join(root, "replays")
    seed = int(os.environ.get("VERIF_SEED", "1") or "1")
    mod = importlib.import_module("engines.%s" % prop.lower())
    try:
        rc = mod.run(tier, seed)
    except vlib.ToolError as e:
        print("TOOL-ERROR: %s" % e)
        rc = 2
    except Exception:
        traceback.print_exc()
        rc = 2
    print("rc=%d" % rc)
    return rc


if __name__ == "__main__":
    sys.exit(main())
