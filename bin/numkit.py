"""Helpers shared by the numeral engines (C05, C06): limbs, rv-num runner, judge events."""
import concurrent.futures as cf
import math
import re
import os

import vlib

LIMB = 4096


def limbs(n):
    out = []
    while n:
        out.append(n % LIMB)
        n //= LIMB
    return out


def unlimbs(a):
    r = 0
    for x in reversed(a):
        r = r * LIMB + x
    return r


def zjson(n):
    return {"neg": n < 0, "mag": limbs(abs(n))}


def unz(z):
    v = unlimbs(z["mag"])
    return -v if z.get("neg") else v


def txt(a):
    return None if a is None else "".join(chr(c) for c in a)


def cps(s):
    return [ord(c) for c in s]


def run_num(jobs, timeout_ms=20000, shards=8, tag="num"):
    """jobs: list of rv-num jobs; returns results in the same order."""
    if not jobs:
        return []
    shards = max(1, min(shards, (len(jobs) + 499) // 500))
    chunks = [jobs[i::shards] for i in range(shards)]

    def one(i):
        inp = vlib.workfile("%s-in-%d.ndjson" % (tag, i))
        outp = vlib.workfile("%s-out-%d.ndjson" % (tag, i))
        vlib.write_ndjson(inp, chunks[i])
        vlib.run_tool([vlib.rv("rv-num"), "run", "--timeout-ms", str(timeout_ms), "--in", inp, "--out", outp], timeout=7200)
        res = vlib.read_ndjson(outp)
        if len(res) != len(chunks[i]):
            raise vlib.ToolError("rv-num returned %d results for %d jobs" % (len(res), len(chunks[i])))
        os.unlink(inp)
        os.unlink(outp)
        return res

    with cf.ThreadPoolExecutor(max_workers=shards) as ex:
        parts = list(ex.map(one, range(shards)))
    out = [None] * len(jobs)
    for i, part in enumerate(parts):
        for j, r in enumerate(part):
            out[i + j * shards] = r
    return out


def num_event(res):
    """One rv-num result -> the line Trace_Numeral judges.  Identical numerals that fall under the same rule
    are judged once (a 'strict' check implies the 'approx' one)."""
    if "crash" in res:
        return {"p": res.get("p"), "q": res.get("q"), "crash": res["crash"], "checks": []}
    base = res["base"]
    bs = [base]          # every numeral of a reply, fractions and the integers of `-> frac` included, is read in the reply's base
    checks = []
    seen = set()

    def add(t, rule, who, v=None):
        key = (tuple(t), rule, None if v is None else (unz(v["n"]), unlimbs(v["d"])))
        if key in seen:
            return
        seen.add(key)
        ck = {"t": t, "bs": bs, "r": rule, "w": who}
        if v is not None:
            ck["v"] = v
        checks.append(ck)

    def single(e, a, who, v=None):
        # a single-number reply: exact numeral and/or `approx.` numeral
        checks.append({"r": "present", "e": e is not None, "a": a is not None, "w": who})
        if a is not None:
            add(a, "strict", who + ".approx", v)
        if e is not None:
            add(e, "exact", who + ".exact", v)

    single(res.get("pe"), res.get("pa"), "parts")
    # the formatter's own flag: implied by a parts-level check of the same text
    text = res["text"]
    if res["is_exact"]:
        add(text, "exact", "to_string")
    elif (tuple(text), "strict", None) not in seen:
        add(text, "approx", "to_string")
    if res.get("qt") == "number" and res.get("qv") and res["qv"].get("t") == "num":
        qv = res["qv"]["v"]
        p, q = unz(res["p"]), unlimbs(res["q"])
        g = math.gcd(abs(p), q)
        same = unz(qv["n"]) == p // g and unlimbs(qv["d"]) == q // g
        single(res.get("qe"), res.get("qa"), "query", None if same else {"n": qv["n"], "d": qv["d"]})
    return {"p": res["p"], "q": res["q"], "base": base, "mode": res["mode"], "checks": checks}


_verdict_re = re.compile(r'^<<"(REJECT|CRASH|UNSUPPORTED|NOTE)", (\d+)(?:, (.*))?>>$')


def judge_detail(events, module, shards=8, tag="jd", timeout=3600, env=None, min_per_shard=150):
    """Like evalkit.judge, but keeps what the judge printed after the line number:
    returns (dict idx -> list of (tag, detail text), stats)."""
    if not events:
        return {}, {"distinct": 0, "generated": 0}
    shards = max(1, min(shards, (len(events) + min_per_shard - 1) // min_per_shard))
    bounds = [(len(events) * i // shards, len(events) * (i + 1) // shards) for i in range(shards)]

    def one(i):
        lo, hi = bounds[i]
        path = vlib.workfile("%s-%d.ndjson" % (tag, i))
        vlib.write_ndjson(path, events[lo:hi])
        e = {"TRACE": path}
        if env:
            e.update(env)
        r = vlib.tlc(module, module, workers=1, timeout=timeout, env=e, deque=True, tag=tag, xmx="4g")
        if getattr(r, "timed_out", False):
            raise vlib.ToolError("judge %s timed out" % module)
        if not r.ok or r.distinct != (hi - lo) + 1:
            vlib.log(r.stdout[-3000:])
            raise vlib.ToolError("judge %s did not consume every line (%d of %d)" % (module, r.distinct - 1, hi - lo))
        out = {}
        for ln in r.stdout.splitlines():
            m = _verdict_re.match(ln)
            if m:
                out.setdefault(lo + int(m.group(2)) - 1, []).append((m.group(1), m.group(3) or ""))
        os.unlink(path)
        return out, r

    verdicts = {}
    stats = {"distinct": 0, "generated": 0}
    with cf.ThreadPoolExecutor(max_workers=shards) as ex:
        for out, r in ex.map(one, range(shards)):
            verdicts.update(out)
            stats["distinct"] += r.distinct
            stats["generated"] += r.generated
    return verdicts, stats
