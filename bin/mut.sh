#!/bin/bash
# usage: mut.sh <patch-file> <ID> [tier]   apply a patch to /repo, run one check, undo.
set -u
P="$1"; ID="$2"; TIER="${3:-quick}"
git -C /repo apply "$P" || { echo "patch does not apply"; exit 3; }
/verif/bin/check "$ID" --tier "$TIER" > /tmp/mut.$$.log 2>&1; rc=$?
git -C /repo checkout -- . 
grep -E '^(VIOLATION|KNOWN-FINDING|TOOL-ERROR|DRIFT)' /tmp/mut.$$.log | head -8
tail -2 /tmp/mut.$$.log
echo "rc=$rc"; rm -f /tmp/mut.$$.log
exit $rc
