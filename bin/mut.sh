#!/bin/bash
# usage: mut.sh <patch-file> <ID> [tier]
# Applies a patch to /repo under an exclusive lock, runs one check, undoes the patch.
set -u
P="$(realpath "$1")"; ID="$2"; TIER="${3:-quick}"
mkdir -p /verif/work
exec 9>/verif/work/repo.lock
touch /verif/work/mut.pending.$$      # new checks wait while a mutant run is queued (no starvation)
flock -x 9
rm -f /verif/work/mut.pending.$$
if ! git -C /repo diff --quiet; then echo "refusing: /repo has uncommitted changes"; exit 3; fi
git -C /repo apply "$P" || { echo "patch does not apply"; exit 3; }
LOG=$(mktemp)
VERIF_LOCK_HELD=1 /verif/bin/check "$ID" --tier "$TIER" > "$LOG" 2>&1; rc=$?
git -C /repo apply -R "$P" || git -C /repo checkout -- $(git -C /repo apply --numstat "$P" | cut -f3)
grep -E '^(VIOLATION|KNOWN-FINDING|TOOL-ERROR|DRIFT)' "$LOG" | head -8
tail -2 "$LOG"
echo "rc=$rc"; rm -f "$LOG"
exit $rc
