"""Shared pieces of the loader engines (C08, C12, C13): rendering the model's definitions as definitions.units
text, running rv-load, bringing the model's database and the code's registry dump to one normal form."""
import concurrent.futures as cf
import json
import os
import re
from fractions import Fraction

import vlib
from vlib import log


def rv_load():
    """the rv-load binary (VERIF_RVLOAD_DIR: a privately built harness, used to try mutants without touching /repo)"""
    d = os.environ.get("VERIF_RVLOAD_DIR")
    return os.path.join(d, "rv-load") if d else vlib.rv("rv-load")


def s(cps):
    return "".join(chr(c) for c in cps)


# ---------------------------------------------------------------------------------------------------------
# model definition -> definitions.units text

def body_text(b):
    ids = [s(i) for i in b["ids"]]
    if not ids:
        return str(b["c"])
    if b["c"] == 1:
        return " ".join(ids)
    return "%d %s" % (b["c"], " ".join(ids))


def def_text(d):
    out = []
    if d["doc"]:
        out.append("?? %s\n" % d["doc"])
    name = s(d["name"])
    k = d["kind"]
    if k == "base":
        out.append("%s !%s\n" % (name, s(d["long"])))
    elif k == "unit":
        out.append("%s %s\n" % (name, body_text(d["body"])))
    elif k == "prefix":
        out.append("%s%s %s\n" % (name, "-" if d["islong"] else "--", body_text(d["body"])))
    elif k == "quantity":
        out.append("%s ? %s\n" % (name, body_text(d["body"])))
    elif k == "symdir":
        out.append("!symbol %s %s\n" % (name, s(d["sym"])))
    elif k == "subst":
        if d.get("sym"):
            out.append("!symbol %s %s\n" % (name, s(d["sym"])))
        out.append("%s {\n" % name)
        for p in d["props"]:
            pn, on, inn = s(p["name"]), s(p["oname"]), s(p["iname"])
            if on == pn and p["inp"]["c"] == 1 and not p["inp"]["ids"]:
                out.append("  %s const %s %s\n" % (pn, inn, body_text(p["out"])))
            else:
                out.append("  %s %s %s / %s %s\n" % (pn, on, body_text(p["out"]), inn, body_text(p["inp"])))
        out.append("}\n")
    elif k == "category":
        out.append('!category %s "%s"\n' % (name, d["disp"]))
    else:
        raise vlib.ToolError("cannot render definition kind %r" % k)
    return "".join(out)


def parse_file_model(items):
    """MC_Loader.ParseFile: the raw definitions of the items of one file -> the list the file parses to (a
    `!symbol` line attaches its symbol to the substance of that name in the SAME file)"""
    raw = [d for it in items for d in it]
    dirs = {s(d["name"]): d["sym"] for d in raw if d["kind"] == "symdir"}
    out = []
    for d in raw:
        if d["kind"] == "symdir":
            continue
        if d["kind"] == "subst" and s(d["name"]) in dirs:
            d = dict(d, sym=dirs[s(d["name"])])
        out.append(d)
    return out


def symdir_signature(pool, files):
    """which `!symbol` lines of a case (files of 1-based pool indices) share a file with the substance they name"""
    sig = []
    for f in files:
        raw = [d for i in f for d in pool[i - 1]]
        substs = {s(d["name"]) for d in raw if d["kind"] == "subst"}
        sig += [(s(d["name"]), s(d["sym"])) for d in raw if d["kind"] == "symdir" and s(d["name"]) in substs]
    return tuple(sorted(sig))


def item_text(item):
    """An item of the model's universe (the parsed form of one self-contained text) -> that text."""
    out = []
    open_cat = None
    for d in item:
        if d["kind"] == "category":
            out.append(def_text(d))
            open_cat = s(d["name"])
            continue
        want = s(d["cat"]) if d["cat"] else None
        if want != open_cat:
            if open_cat is not None:
                out.append("!endcategory\n")
                open_cat = None
            if want is not None:
                raise vlib.ToolError("item has a category without its !category entry")
        out.append(def_text(d))
    if open_cat is not None:
        out.append("!endcategory\n")
    return "".join(out)


# ---------------------------------------------------------------------------------------------------------
# normal forms

def frac_of_limbs(v):
    def nat(l):
        r = 0
        for x in reversed(l):
            r = r * 4096 + x
        return r
    n = nat(v["n"]["mag"])
    if v["n"]["neg"]:
        n = -n
    return Fraction(n, nat(v["d"]))


def code_num(val):
    if val.get("t") != "num":
        return ("float", tuple(sorted((s(x["u"]), x["e"]) for x in val["d"])))
    return (frac_of_limbs(val["v"]), tuple(sorted((s(x["u"]), x["e"]) for x in val["d"])))


def model_num(v):
    return (Fraction(v["n"], v["q"]), tuple(sorted((s(x["u"]), x["e"]) for x in v["d"])))


def code_body(ast):
    """AST of the mini-language -> (coefficient, ids) or ("other", json)"""
    k = ast["k"]
    if k == "const":
        return (frac_of_limbs(ast["v"]), ())
    if k == "unit":
        return (Fraction(1), (s(ast["name"]),))
    if k == "mul":
        c = Fraction(1)
        ids = []
        for i, e in enumerate(ast["es"]):
            if e["k"] == "const" and i == 0:
                c = frac_of_limbs(e["v"])
            elif e["k"] == "unit":
                ids.append(s(e["name"]))
            else:
                return ("other", json.dumps(ast, sort_keys=True))
        return (c, tuple(ids))
    return ("other", json.dumps(ast, sort_keys=True))


_msg_patterns = [
    (re.compile(r"^Unit (unit|prefix|quantity|category) (.*?)(-?) has a dependency cycle$"), "cycle"),
    (re.compile(r"^warning: multiple (units|prefixes|quantities|categories) named (.*)$"), "dup"),
    (re.compile(r"^(unit|prefix|quantity|category) (.*?)(-?) is malformed: "), "malformed"),
    (re.compile(r"^(unit|prefix|quantity|category) (.*?)(-?) is not a number"), "notnum"),
    (re.compile(r"^Prefix (.*?): "), "prefix"),
    (re.compile(r"^Quantity (.*?): "), "quantity"),
    (re.compile(r"^Warning: Conflicting quantities (.*) and (.*)$"), "qconflict"),
    (re.compile(r"^Substance (.*?) is malformed: "), "subst"),
    (re.compile(r"^Warning: conflicting properties for (.*) of (.*)$"), "propconflict"),
    (re.compile(r"^Def (.*?): "), "deferror"),
    (re.compile(r"^Doc conflict for (unit|prefix|quantity|category) (.*?)(-?)$"), "docconflict"),
    (re.compile(r"^Category conflict: "), "catconflict"),
    (re.compile(r"^Warning: Conflicting substances for "), "substconflict"),
]
_ns = {"unit": 0, "units": 0, "prefix": 1, "prefixes": 1, "quantity": 2, "quantities": 2, "category": 3, "categories": 3}


def classify_msg(m):
    """A loader message -> (kind, namespace or None, name or None)"""
    for rx, kind in _msg_patterns:
        mo = rx.match(m)
        if not mo:
            continue
        g = mo.groups()
        if kind in ("cycle", "malformed", "notnum", "docconflict"):
            name = g[1]
            # "prefix k-": the dash belongs to the display form
            return (kind, _ns[g[0]], name)
        if kind == "dup":
            return (kind, _ns[g[0]], g[1])
        if kind == "prefix":
            return (kind, 1, g[0])
        if kind in ("quantity", "qconflict"):
            return (kind, 2, g[0])
        if kind in ("subst", "deferror"):
            return (kind, 0, g[0])
        if kind == "propconflict":
            return (kind, 0, g[1])
        return (kind, None, None)
    return ("unclassified", None, m[:80])


FAIL_KINDS = ("malformed", "notnum", "prefix", "quantity", "subst")


def refused(msgs):
    """the definitions a load refused: {(namespace, name)} (Loader.tla: Refused)"""
    return {(c[1], c[2]) for c in (classify_msg(m) for m in msgs) if c[0] in FAIL_KINDS}


def norm_code(dump):
    units = {}
    for u in dump["units"]:
        units[u["s"]] = code_num(u["val"])
    defs = {d["s"]: code_body(d["def"]) for d in dump["defs"]}
    subst = {}
    for sb in dump["substances"]:
        subst[sb["s"]] = {p["s"]: (code_num(p["input"]), s(p["input_name"]), code_num(p["output"]), s(p["output_name"]))
                          for p in sb["props"]}
    msgs = dump["load"].get("msgs", [])
    return {
        "base": sorted(s(b) for b in dump["base"]),
        "longs": {s(x["short"]): s(x["long"]) for x in dump["long_names"]},
        "units": units,
        "defs": defs,
        "prefixes": [(p["s"], frac_of_limbs(p["v"])) for p in dump["prefixes"]],
        "quants": {tuple(sorted((s(x["u"]), x["e"]) for x in q["dims"])): q["s"] for q in dump["quantities"]},
        "subst": subst,
        "symbols": {s(x["sym"]): s(x["name"]) for x in dump["symbols"]},
        "docs": {d["s"]: d["text"] for d in dump["doc_texts"]},
        "cats": {s(c["name"]): s(c["cat"]) for c in dump["categories"]},
        "catnames": {s(c["id"]): s(c["name"]) for c in dump["category_names"]},
        "errors": sorted(classify_msg(m) for m in msgs),
    }


def norm_model(db):
    def body(b):
        ids = tuple(s(i) for i in b["ids"])
        return (Fraction(b["c"]), ids)
    subst = {}
    for sb in db["subst"]:
        subst[s(sb["name"])] = {s(p["name"]): (model_num(p["inp"]), s(p["iname"]), model_num(p["out"]), s(p["oname"]))
                                for p in sb["v"]}
    return {
        "base": sorted(s(b) for b in db["base"]),
        "longs": {s(x["name"]): s(x["v"]) for x in db["longs"]},
        "units": {s(u["name"]): model_num(u["v"]) for u in db["units"]},
        "defs": {s(d["name"]): body(d["v"]) for d in db["defs"]},
        "prefixes": [(s(p["name"]), model_num(p["v"])[0]) for p in db["prefixes"]],
        "quants": {tuple(sorted((s(x["u"]), x["e"]) for x in q["d"])): s(q["name"]) for q in db["quants"]},
        "subst": subst,
        "symbols": {s(x["name"]): s(x["v"]) for x in db.get("symbols", [])},
        "docs": {s(d["name"]): d["v"] for d in db["docs"]},
        "cats": {s(c["name"]): s(c["v"]) for c in db["cats"]},
        "catnames": {s(c["name"]): c["v"] for c in db["catnames"]},
        "errors": sorted((e["k"], e["ns"], s(e["name"])) for e in db["errors"]),
    }


def first_diff(a, b):
    for k in a:
        if a[k] != b[k]:
            return "%s: model %r, code %r" % (k, a[k], b[k])
    return None


# ---------------------------------------------------------------------------------------------------------
# TLC output of MC_Loader generator configurations

_case_re = re.compile(r'^<<"CASE", (.*)>>$')


def parse_loader_gen(r):
    """-> (pool items, cases: list of list-of-files (1-based item indices), dbs: list of model databases)"""
    pool = vlib.tagged_json(r, "POOL")
    if not pool:
        raise vlib.ToolError("generator printed no POOL line")
    cases = []
    for ln in r.stdout.splitlines():
        m = _case_re.match(ln)
        if m:
            cases.append(json.loads(m.group(1).replace("<<", "[").replace(">>", "]")))
    dbs = vlib.tagged_json(r, "DB")
    return pool[0], cases, dbs


def def_key(d):
    return json.dumps(d, sort_keys=True)


# ---------------------------------------------------------------------------------------------------------
# rv-load

def run_load(mode, jobs, shards=8, tag="ld", timeout_ms=None, timeout=7200):
    """jobs through `rv-load gen|jobs`, sharded over processes; results in job order."""
    if not jobs:
        return []
    shards = max(1, min(shards, (len(jobs) + 49) // 50))
    chunks = [jobs[i::shards] for i in range(shards)]

    def one(i):
        inp = vlib.workfile("%s-in-%d.ndjson" % (tag, i))
        outp = vlib.workfile("%s-out-%d.ndjson" % (tag, i))
        vlib.write_ndjson(inp, chunks[i])
        cmd = [rv_load(), mode, "--in", inp, "--out", outp]
        if timeout_ms:
            cmd += ["--timeout-ms", str(timeout_ms)]
        vlib.run_tool(cmd, timeout=timeout)
        res = vlib.read_ndjson(outp)
        if len(res) != len(chunks[i]):
            raise vlib.ToolError("rv-load %s returned %d results for %d jobs" % (mode, len(res), len(chunks[i])))
        os.unlink(inp)
        os.unlink(outp)
        return res

    with cf.ThreadPoolExecutor(max_workers=shards) as ex:
        parts = list(ex.map(one, range(shards)))
    out = [None] * len(jobs)
    for i, part in enumerate(parts):
        for j, r in enumerate(part):
            out[i + j * shards] = r
    return out
