#!/bin/bash
# usage: r2_lane.sh <mutiso-root-name> <seeded-dir>:<CHECK-ID> ...   (runs each seeded change against one check, sequentially)
export VERIF_MUTISO="$1"; shift
for item in "$@"; do
  d=${item%%:*}; id=${item##*:}
  echo "=== $d vs $id"
  python3 /verif/bin/mut_iso.py /verif/seeded/$d/patch.diff $id > /verif/work/dbg/r2_${d}_${id}.out 2>&1
  echo "rc=$?"
  grep -E "VIOLATION|TOOL-ERROR|KNOWN|tier=" /verif/work/dbg/r2_${d}_${id}.out | head -4
done
