#!/bin/bash
# usage: import_r2.sh <ID>   (copies /tmp/mut5/<ID>/OUT/m{1,2,3}.patch and demos into seeded/<ID>-r5-<n>/)
ID="$1"; W=/tmp/mut5/$ID/OUT
for n in 1; do
  [ -f $W/m$n.patch ] || continue
  d=/verif/seeded/$ID-r5-$n; mkdir -p $d
  cp $W/m$n.patch $d/patch.diff; cp $W/demo$n.rs $d/demo.rs 2>/dev/null; cp $W/NOTES.md $d/NOTES.md 2>/dev/null
done
ls -d /verif/seeded/$ID-r5-*
