#!/bin/bash
# usage: confirm_seeded2.sh <ID> <n> <demo-dir> <kind: test|example> <package>
set -u
ID="$1"; N="$2"; DDIR="$3"; KIND="$4"; PKG="$5"; W=/tmp/mut5/$ID; lc=$(echo "$ID" | tr A-Z a-z)
export CARGO_TARGET_DIR=$W/target RUST_BACKTRACE=0 CARGO_NET_OFFLINE=true
cd "$W" || exit 2
git checkout -q -- .
DEMO=$DDIR/demo_${lc}_${N}.rs
mkdir -p $DDIR; [ -f "$DEMO" ] || cp OUT/demo${N}.rs "$DEMO"
rundemo() {
  if [ "$KIND" = example ]; then cargo run --offline -q -p $PKG --example demo_${lc}_${N} 2>&1 | grep -E "DEMO[0-9]* (PASS|FAIL)" | tail -1
  else cargo test --workspace --offline --test demo_${lc}_${N} 2>&1 | grep -E "^test result" | tail -1; fi
}
git apply OUT/m${N}.patch || { echo "RESULT $ID-$N patch-does-not-apply"; exit 1; }
mkdir -p OUT/held; mv $DDIR/demo_*.rs OUT/held/ 2>/dev/null
cargo test --workspace --offline --no-fail-fast > OUT/confirm_suite_${N}.log 2>&1
suite_fail=$(grep -cE "^test .* \.\.\. FAILED" OUT/confirm_suite_${N}.log)
# the cli tests bind a fixed port (3090): another job running the same tests makes them fail; re-run those alone
if [ "$suite_fail" != 0 ] && ! grep -E "^test .* \.\.\. FAILED" OUT/confirm_suite_${N}.log | grep -qv "config::tests::"; then
  for try in 1 2 3 4; do
    sleep $((RANDOM % 20))
    if cargo test -p rink --offline > OUT/confirm_cli_${N}.log 2>&1; then suite_fail=0; cli_note=" (cli config tests re-run alone: pass)"; break; fi
  done
fi
suite_ok=$(grep -E "^test result: ok" OUT/confirm_suite_${N}.log | awk '{s+=$4} END {print s}')
mv OUT/held/demo_*.rs $DDIR/ 2>/dev/null
with=$(rundemo)
git apply -R OUT/m${N}.patch
without=$(rundemo)
echo "RESULT $ID-$N suite: passed=$suite_ok failed=$suite_fail${cli_note:-} | with: $with | without: $without"
grep -E "^test .* \.\.\. FAILED" OUT/confirm_suite_${N}.log | head -5
