#!/bin/bash
# usage: confirm_seeded.sh <ID> <n>   (worktree /tmp/mut/<ID>, files OUT/m<n>.patch, OUT/demo<n>.rs)
# Confirms: patch applies; full suite passes with it; demo fails with it; demo passes without it.
set -u
ID="$1"; N="$2"; W=/tmp/mut/$ID; lc=$(echo "$ID" | tr A-Z a-z)
export CARGO_TARGET_DIR=$W/target RUST_BACKTRACE=0 CARGO_NET_OFFLINE=true
cd "$W" || exit 2
git checkout -q -- . 
DEMO=core/tests/demo_${lc}_${N}.rs
[ -f "$DEMO" ] || cp OUT/demo${N}.rs "$DEMO"
git apply OUT/m${N}.patch || { echo "RESULT $ID-$N patch-does-not-apply"; exit 1; }
# the existing suite, without any demo file in the tree
mkdir -p OUT/held; mv core/tests/demo_*.rs OUT/held/ 2>/dev/null
cargo test --workspace --offline --no-fail-fast > OUT/confirm_suite_${N}.log 2>&1
suite_fail=$(grep -cE "^test .* FAILED" OUT/confirm_suite_${N}.log)
suite_ok=$(grep -E "^test result: ok" OUT/confirm_suite_${N}.log | awk '{s+=$4} END {print s}')
mv OUT/held/demo_*.rs core/tests/ 2>/dev/null
demo_with=$(cargo test --workspace --offline --test demo_${lc}_${N} 2>&1 | grep -E "^test result" | tail -1)
git apply -R OUT/m${N}.patch
demo_without=$(cargo test --workspace --offline --test demo_${lc}_${N} 2>&1 | grep -E "^test result" | tail -1)
echo "RESULT $ID-$N suite: passed=$suite_ok failed=$suite_fail | with: $demo_with | without: $demo_without"
grep -E "^test .* FAILED" OUT/confirm_suite_${N}.log | head -5
