"""Shared pieces of the registry-level engines (C07, C17): the registry dump of a context, and a judge runner
whose specification reads the dump (or a part of it) as a JSON environment file (IOEnv.ENV)."""
import concurrent.futures as cf
import json
import os
import re

import vlib
from vlib import log


def s_of(cps):
    return "".join(chr(c) for c in cps)


def cps_of(s):
    return [ord(c) for c in s]


def get_dump(ctx="bundled"):
    """rv-eval dump <ctx>: canonical JSON of the loaded registry (harness/src/dump.rs)."""
    path = vlib.workfile("dump-%s.json" % re.sub(r"\W", "_", ctx))
    vlib.run_tool([vlib.rv("rv-eval"), "dump", ctx, path], timeout=600)
    with open(path) as f:
        return json.load(f)


def write_env(name, obj):
    path = vlib.workfile(name)
    with open(path, "w") as f:
        json.dump(obj, f, separators=(",", ":"))
    return path


# TLC's pretty printer wraps a tuple over several lines when it is longer than 80 characters and every element fits:
# accept both  <<"TAG", 12, "detail">>  and  << "TAG",\n   12,\n   "detail" >>
_verdict_re = re.compile(r'^<<\s*"(REJECT|NOTE|SILENT|CRASH|BADGROUP)",\s*(\d+)(?:,\s*(.*?))?\s*>>$', re.M | re.S)


def judge(events, module, env_path, shards=8, tag="rj", timeout=3600, min_per_shard=300, xmx="4g", extra_env=None):
    """Runs the judge spec `module` (Trace_Eval pattern: one state per line, every line consumed) over events,
    sharded contiguously. Returns (verdicts: idx -> list of (tag, detail-text), stats)."""
    if not events:
        return {}, {"distinct": 0, "generated": 0, "wall": 0.0}
    shards = max(1, min(shards, (len(events) + min_per_shard - 1) // min_per_shard))
    bounds = [(len(events) * i // shards, len(events) * (i + 1) // shards) for i in range(shards)]

    def one(i):
        lo, hi = bounds[i]
        path = vlib.workfile("%s-%d.ndjson" % (tag, i))
        vlib.write_ndjson(path, events[lo:hi])
        e = {"TRACE": path, "ENV": env_path}
        if extra_env:
            e.update(extra_env)
        r = vlib.tlc(module, module, workers=1, timeout=timeout, env=e, deque=True, tag=tag, xmx=xmx)
        if getattr(r, "timed_out", False):
            raise vlib.ToolError("judge %s timed out" % module)
        if not r.ok or r.distinct != (hi - lo) + 1:
            log(r.stdout[-3000:])
            raise vlib.ToolError("judge %s did not consume every line (%d of %d)" % (module, r.distinct - 1, hi - lo))
        out = {}
        for m in _verdict_re.finditer(r.stdout):
            out.setdefault(lo + int(m.group(2)) - 1, []).append((m.group(1), m.group(3) or ""))
        os.unlink(path)
        return out, r

    verdicts = {}
    stats = {"distinct": 0, "generated": 0, "wall": 0.0}
    with cf.ThreadPoolExecutor(max_workers=shards) as ex:
        for out, r in ex.map(one, range(shards)):
            verdicts.update(out)
            stats["distinct"] += r.distinct
            stats["generated"] += r.generated
            stats["wall"] = max(stats["wall"], r.wall)
    return verdicts, stats


def run_sharded(cmd_of, jobs, shards, tag, header=None, timeout=7200):
    """jobs -> rv tool in `shards` processes (interleaved split); cmd_of(inp, outp) builds the command.
    Returns results in job order."""
    if not jobs:
        return []
    shards = max(1, min(shards, (len(jobs) + 199) // 200))
    chunks = [jobs[i::shards] for i in range(shards)]

    def one(i):
        inp = vlib.workfile("%s-in-%d.ndjson" % (tag, i))
        outp = vlib.workfile("%s-out-%d.ndjson" % (tag, i))
        vlib.write_ndjson(inp, ([header] if header is not None else []) + chunks[i])
        vlib.run_tool(cmd_of(inp, outp), timeout=timeout)
        res = vlib.read_ndjson(outp)
        if len(res) != len(chunks[i]):
            raise vlib.ToolError("%s returned %d results for %d jobs" % (tag, len(res), len(chunks[i])))
        os.unlink(inp)
        os.unlink(outp)
        return res

    with cf.ThreadPoolExecutor(max_workers=shards) as ex:
        parts = list(ex.map(one, range(shards)))
    out = [None] * len(jobs)
    for i, part in enumerate(parts):
        for j, r in enumerate(part):
            out[i + j * shards] = r
    return out
