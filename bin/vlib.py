"""Shared machinery for /verif/bin/check: building the harness, running TLC,
collecting REPLAY lines, trace validation, known findings, evidence, exit codes.

Exit code contract (see DESIGN.md section 2):
  0  property held on everything explored (KNOWN-FINDING lines allowed)
  1  a violation not listed in known_findings.jsonl; a line
     "VIOLATION property=<ID> replay=<path>" is printed for each
  2  tool failure (cargo, java, timeout of a tool) - never a VIOLATION line
"""
import hashlib
import json
import os
import re
import shutil
import subprocess
import sys
import tempfile
import time

VERIF = os.path.dirname(os.path.dirname(os.path.abspath(__file__)))
SPEC = os.path.join(VERIF, "spec")
HARNESS = os.path.join(VERIF, "harness")
EVID = os.path.join(VERIF, "evidence")
REPLAYS = os.path.join(VERIF, "replays")
WORK = os.path.join(VERIF, "work")
REPO = os.environ.get("VERIF_REPO", "/repo")
TLAJAR = "/opt/veriftools/tla/tla2tools.jar:/opt/veriftools/tla/CommunityModules-deps.jar"


class ToolError(Exception):
    pass


def log(*a):
    print(*a, flush=True)


def child_env(extra=None):
    env = dict(os.environ)
    env.update({
        "RUST_BACKTRACE": "0",
        "TZ": "UTC",
        "NO_COLOR": "1",
        "CARGO_NET_OFFLINE": "true",
    })
    if extra:
        env.update(extra)
    return env


# ----------------------------------------------------------------------------
# build

_built = {}


def build_harness(bins=None, features=None):
    """cargo build --release of the harness against /repo's working tree."""
    key = (tuple(bins or ()), tuple(features or ()))
    if key in _built:
        return _built[key]
    lock = os.path.join(HARNESS, "Cargo.lock")
    if not os.path.exists(lock):
        shutil.copy(os.path.join(REPO, "Cargo.lock"), lock)
    cmd = ["cargo", "build", "--release", "--offline"]
    for b in bins or []:
        cmd += ["--bin", b]
    if features:
        cmd += ["--features", ",".join(features)]
    t0 = time.time()
    p = subprocess.run(cmd, cwd=HARNESS, env=child_env(), stdout=subprocess.PIPE,
                       stderr=subprocess.STDOUT, text=True)
    if p.returncode != 0:
        log(p.stdout[-6000:])
        raise ToolError("cargo build of the harness failed")
    d = os.path.join(HARNESS, "target", "release")
    _built[key] = d
    log("[build] harness built in %.1fs" % (time.time() - t0))
    return d


def rv(name):
    return os.path.join(HARNESS, "target", "release", name)


# ----------------------------------------------------------------------------
# TLC

class TlcResult:
    def __init__(self):
        self.stdout = ""
        self.rc = None
        self.generated = 0
        self.distinct = 0
        self.depth = 0
        self.ok = False            # finished with no error
        self.invariant_violated = None
        self.error_text = None
        self.printed = []          # values printed with PrintT (raw text lines)
        self.coverage = {}         # action name -> (distinct, total)
        self.wall = 0.0


def _unquote_tla(s):
    """A TLA+ string as printed by TLC -> python str."""
    s = s.strip()
    if len(s) >= 2 and s[0] == '"' and s[-1] == '"':
        body = s[1:-1]
        out = []
        i = 0
        while i < len(body):
            c = body[i]
            if c == "\\" and i + 1 < len(body):
                n = body[i + 1]
                out.append({"n": "\n", "t": "\t", "r": "\r", "f": "\f"}.get(n, n))
                i += 2
            else:
                out.append(c)
                i += 1
        return "".join(out)
    return s


def tlc(module, cfg=None, workers=4, timeout=600, simulate=None, depth=None, seed=None,
        env=None, xmx="6g", deque=False, coverage=False, extra=None, cwd=None, tag=None,
        deadlock=False, view_out=None):
    """Run TLC on SPEC/<module>.tla with SPEC/<cfg>.cfg. Returns TlcResult.
    Raises ToolError on java failure/timeouts that are not model results."""
    cwd = cwd or SPEC
    os.makedirs(WORK, exist_ok=True)
    meta = tempfile.mkdtemp(prefix="tlc-%s-" % (tag or module), dir=WORK)
    jopts = ["-Xss1g", "-Xmx" + xmx, "-XX:+UseParallelGC"]
    if deque:
        jopts.append("-Dtlc2.tool.queue.IStateQueue=StateDeque")
    cmd = ["java"] + jopts + ["-cp", TLAJAR, "tlc2.TLC", "-metadir", meta, "-cleanup",
                              "-noGenerateSpecTE", "-workers", str(workers),
                              # TLC checkpoints every 30 minutes and the depth-first queue cannot be checkpointed ("StateDeque
                              # does not support checkpointing" aborted a 31-minute judge shard of C01's thorough tier);
                              # no run here is ever resumed
                              "-checkpoint", "0"]
    if cfg:
        cmd += ["-config", cfg if cfg.endswith(".cfg") else cfg + ".cfg"]
    if simulate:
        cmd += ["-simulate", simulate]
    if depth:
        cmd += ["-depth", str(depth)]
    if seed is not None:
        cmd += ["-seed", str(seed)]
    if coverage:
        cmd += ["-coverage", "1"]
    if deadlock:
        cmd += ["-deadlock"]
    if extra:
        cmd += extra
    cmd.append(module if module.endswith(".tla") else module + ".tla")
    e = child_env(env)
    e.pop("JAVA_TOOL_OPTIONS", None)
    t0 = time.time()
    try:
        p = subprocess.run(cmd, cwd=cwd, env=e, stdout=subprocess.PIPE, stderr=subprocess.STDOUT,
                           text=True, timeout=timeout)
    except subprocess.TimeoutExpired as ex:
        shutil.rmtree(meta, ignore_errors=True)
        r = TlcResult()
        r.stdout = (ex.stdout or b"").decode("utf-8", "replace") if isinstance(ex.stdout, bytes) else (ex.stdout or "")
        r.rc = -9
        r.error_text = "timeout after %ss" % timeout
        r.wall = time.time() - t0
        _parse_tlc(r)
        r.ok = False
        r.timed_out = True
        return r
    finally:
        pass
    shutil.rmtree(meta, ignore_errors=True)
    r = TlcResult()
    r.timed_out = False
    r.stdout = p.stdout
    r.rc = p.returncode
    r.wall = time.time() - t0
    _parse_tlc(r)
    return r


_re_states = re.compile(r"(\d+) states generated, (\d+) distinct states found")
_re_depth = re.compile(r"The depth of the complete state graph search is (\d+)")
_re_inv = re.compile(r"Error: Invariant (\S+) is violated")
_re_cov = re.compile(r"^<(\w+) line .* of module (\w+)>: (\d+):(\d+)", re.M)


def _depth_delta(ln):
    """net number of tuple brackets opened by a printed line, ignoring string literals"""
    d, i, instr = 0, 0, False
    while i < len(ln):
        c = ln[i]
        if instr:
            if c == "\\":
                i += 1
            elif c == '"':
                instr = False
        elif c == '"':
            instr = True
        elif ln.startswith("<<", i):
            d += 1
            i += 1
        elif ln.startswith(">>", i):
            d -= 1
            i += 1
        i += 1
    return d


def unwrap_tlc(out):
    """TLC's pretty printer breaks a printed tuple that is wider than 80 columns over several lines
    (`<< "TAG",` / `   "...payload..." >>`).  Every parser of TLC output here works line by line, so a wrapped tuple
    would be silently skipped: join each one back into the one-line form `<<"TAG", ...>>`."""
    res, lines, i = [], out.splitlines(), 0
    while i < len(lines):
        ln = lines[i]
        if ln.startswith("<< ") and _depth_delta(ln) > 0:
            parts, depth = [ln.strip()], _depth_delta(ln)
            while depth > 0 and i + 1 < len(lines):
                i += 1
                parts.append(lines[i].strip())
                depth += _depth_delta(lines[i])
            j = " ".join(parts)
            if j.startswith("<< "):
                j = "<<" + j[3:]
            if j.endswith(" >>"):
                j = j[:-3] + ">>"
            res.append(j)
        else:
            res.append(ln)
        i += 1
    return "\n".join(res) + ("\n" if out.endswith("\n") else "")


def _parse_tlc(r):
    r.stdout = unwrap_tlc(r.stdout)
    out = r.stdout
    for m in _re_states.finditer(out):
        r.generated, r.distinct = int(m.group(1)), int(m.group(2))
    m = _re_depth.search(out)
    if m:
        r.depth = int(m.group(1))
    m = _re_inv.search(out)
    if m:
        r.invariant_violated = m.group(1)
    for m in _re_cov.finditer(out):
        r.coverage[m.group(1)] = (int(m.group(3)), int(m.group(4)))
    r.ok = ("Model checking completed. No error has been found." in out) or \
           ("Finished computing initial states" in out and r.rc == 0 and "Error:" not in out) or \
           (r.rc == 0 and "Error:" not in out)
    if not r.ok:
        i = out.find("Error:")
        r.error_text = out[i:i + 3000] if i >= 0 else out[-3000:]
    r.printed = [ln for ln in out.splitlines()]


def tagged_json(r, tag):
    """Lines printed by PrintT(<<tag, ToJson(x)>>) -> list of python objects.
    Also accepts lines printed as  tag {json}  via PrintT(tag \o ...)?  no: tuples only."""
    res = []
    pref = '<<"%s", ' % tag
    for ln in r.stdout.splitlines():
        if ln.startswith(pref) and ln.endswith(">>"):
            body = ln[len(pref):-2]
            try:
                res.append(json.loads(_unquote_tla(body)))
            except Exception as ex:  # pragma: no cover
                raise ToolError("cannot parse TLC line: %s (%s)" % (ln[:200], ex))
    return res


def tagged_raw(r, tag):
    """Lines printed by PrintT(<<tag, v1, v2...>>) -> raw text after the tag."""
    res = []
    pref = '<<"%s", ' % tag
    for ln in r.stdout.splitlines():
        if ln.startswith(pref) and ln.endswith(">>"):
            res.append(ln[len(pref):-2])
    return res


def require_ok(r, what):
    if r.ok:
        return
    if getattr(r, "timed_out", False):
        raise ToolError("%s: TLC timed out" % what)
    log(r.stdout[-5000:])
    raise ToolError("%s: TLC did not finish cleanly" % what)


def validate_trace(trace_module, cfg, trace_path, timeout=600, env=None, xmx="4g", tag=None):
    """Run a Trace_* spec on an NDJSON file (given to the spec as IOEnv.TRACE).
    Returns (accepted: bool, info: dict). The spec's POSTCONDITION prints
    <<"TRACE_REJECT", idx, ...>> for the first unmatched line or a
    <<"TRACE_OK", n>> line."""
    e = {"TRACE": trace_path}
    if env:
        e.update(env)
    r = tlc(trace_module, cfg, workers=1, timeout=timeout, env=e, xmx=xmx, deque=True, tag=tag)
    info = {"generated": r.generated, "distinct": r.distinct, "wall": r.wall}
    oks = tagged_raw(r, "TRACE_OK")
    rej = tagged_raw(r, "TRACE_REJECT")
    if getattr(r, "timed_out", False):
        raise ToolError("trace validation timed out: %s %s" % (trace_module, trace_path))
    if oks and r.ok:
        info["ok_line"] = oks[0]
        return True, info
    if rej:
        info["reject"] = rej[0]
        return False, info
    # Neither line: TLC failed for another reason (evaluation error in the spec, bad JSON):
    log(r.stdout[-4000:])
    raise ToolError("trace validation produced no verdict: %s %s" % (trace_module, trace_path))


# ----------------------------------------------------------------------------
# known findings

def load_known():
    p = os.path.join(VERIF, "known_findings.jsonl")
    res = []
    if os.path.exists(p):
        for ln in open(p):
            ln = ln.strip()
            if ln and not ln.startswith("#"):
                res.append(json.loads(ln))
    return res


def _match_value(pat, val):
    if isinstance(pat, dict) and "regex" in pat:
        return isinstance(val, str) and re.search(pat["regex"], val) is not None
    if isinstance(pat, dict) and "any_of" in pat:
        return val in pat["any_of"]
    return pat == val


def _get_path(obj, path):
    cur = obj
    for part in path.split("."):
        if isinstance(cur, dict) and part in cur:
            cur = cur[part]
        else:
            return None
    return cur


def known_match(prop, case, known=None):
    """Return the matching 'known' record for this violation case or None."""
    for k in (known if known is not None else load_known()):
        if k.get("status") != "known" or k.get("property") != prop:
            continue
        m = k.get("match", {})
        if m and all(_match_value(v, _get_path(case, f)) for f, v in m.items()):
            return k
    return None


# ----------------------------------------------------------------------------
# results

class Run:
    """Collects what one check run did, prints verdict lines, writes evidence."""

    def __init__(self, prop, tier, seed, level):
        self.prop = prop
        self.tier = tier
        self.seed = seed
        self.level = level
        self.t0 = time.time()
        self.cov = {"evaluations": 0, "distinct_nontrivial": 0, "rule": "", "samples": [],
                    "states": 0, "transitions": 0, "traces_validated_against_impl": 0}
        self.assumptions = []
        self.violations = []      # replay paths
        self.known_hits = {}      # key -> count
        self.drift = []
        self.known = load_known()
        self.notes = {}
        self._distinct = set()
        # witnesses of earlier runs of this property are stale
        import glob
        for f in glob.glob(os.path.join(REPLAYS, "%s-*.json" % prop)):
            try:
                os.unlink(f)
            except OSError:
                pass

    # -- accounting
    def add_tlc(self, r, label=None):
        self.cov["states"] += r.distinct
        self.cov["transitions"] += r.generated
        if label:
            self.notes.setdefault("tlc_runs", []).append(
                {"run": label, "distinct_states": r.distinct, "states_generated": r.generated,
                 "depth": r.depth, "wall_s": round(r.wall, 1)})

    def count(self, n=1):
        self.cov["evaluations"] += n

    def nontrivial(self, key):
        self._distinct.add(key if isinstance(key, (str, int, tuple)) else json.dumps(key, sort_keys=True))

    def sample(self, s, cap=8):
        if len(self.cov["samples"]) < cap:
            self.cov["samples"].append(s)

    def traces(self, n=1):
        self.cov["traces_validated_against_impl"] += n

    def note(self, k, v):
        self.notes[k] = v

    def drift_note(self, module, what):
        if len(self.drift) < 50:
            self.drift.append({"module": module, "what": what})
        log("DRIFT: %s %s" % (module, what))

    # -- violations
    def violation(self, case, spec_allows=None, observed=None, engine=None):
        """Record a property-level disagreement. Either a KNOWN-FINDING or a VIOLATION."""
        k = known_match(self.prop, case, self.known)
        if k is not None:
            key = k["key"]
            self.known_hits[key] = self.known_hits.get(key, 0) + 1
            if self.known_hits[key] == 1:
                log("KNOWN-FINDING: property=%s %s" % (self.prop, k["what"]))
            return None
        if len(self.violations) >= 25:
            self.violations.append(self.violations[-1])
            return self.violations[-1]
        os.makedirs(REPLAYS, exist_ok=True)
        body = {"property": self.prop, "engine": engine, "case": case, "spec_allows": spec_allows,
                "observed": observed, "seed": self.seed, "tier": self.tier}
        h = hashlib.sha256(json.dumps(body, sort_keys=True, default=str).encode()).hexdigest()[:12]
        path = os.path.join(REPLAYS, "%s-%s.json" % (self.prop, h))
        body["rerun"] = "bin/check %s --replay %s" % (self.prop, path)
        with open(path, "w") as f:
            json.dump(body, f, indent=1, default=str)
        if len(self.violations) < 20:
            log("VIOLATION property=%s replay=%s" % (self.prop, path))
        self.violations.append(path)
        return path

    # -- finish
    def finish(self):
        self.cov["distinct_nontrivial"] = len(self._distinct)
        cov = dict(self.cov)
        cov.update(self.notes)
        if self.drift:
            cov["drift"] = self.drift
        if self.known_hits:
            cov["known_findings_hit"] = self.known_hits
        ev = {"property_id": self.prop, "tier": self.tier, "seed": self.seed, "level": self.level,
              "coverage": cov, "assumptions": self.assumptions,
              "wall_s": round(time.time() - self.t0, 2), "violations": len(self.violations)}
        os.makedirs(EVID, exist_ok=True)
        with open(os.path.join(EVID, "%s.json" % self.prop), "w") as f:
            json.dump(ev, f, indent=1, default=str)
        shutil.rmtree(os.path.join(WORK, "p%d" % os.getpid()), ignore_errors=True)
        log("[%s] tier=%s evaluations=%d distinct_nontrivial=%d states=%d traces=%d violations=%d known=%s wall=%.1fs" % (
            self.prop, self.tier, cov["evaluations"], cov["distinct_nontrivial"], cov["states"],
            cov["traces_validated_against_impl"], len(self.violations), self.known_hits, ev["wall_s"]))
        return 1 if self.violations else 0


def run_tool(cmd, input_text=None, timeout=600, env=None, cwd=None, check=True):
    p = subprocess.run(cmd, input=input_text, cwd=cwd, env=child_env(env), stdout=subprocess.PIPE,
                       stderr=subprocess.PIPE, text=True, timeout=timeout)
    if check and p.returncode != 0:
        log(p.stderr[-3000:])
        raise ToolError("tool failed: %s (rc=%s)" % (" ".join(cmd[:3]), p.returncode))
    return p


def workfile(name):
    """scratch file under /verif/work, private to this process (concurrent checks must not collide)"""
    d = os.path.join(WORK, "p%d" % os.getpid())
    os.makedirs(d, exist_ok=True)
    return os.path.join(d, name)


def write_ndjson(path, objs):
    with open(path, "w") as f:
        for o in objs:
            f.write(json.dumps(o, separators=(",", ":")))
            f.write("\n")


def read_ndjson(path):
    res = []
    with open(path) as f:
        for ln in f:
            ln = ln.strip()
            if ln:
                res.append(json.loads(ln))
    return res
