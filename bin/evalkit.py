"""Shared pieces of the query-level engines (C01, C02, C03, C09, C10, C11, ...):
TLC enumerates query texts (MC_ExprGen), rv-eval runs them through the real rink-core in an
isolated worker, a Trace_* judge specification decides every recorded reply."""
import concurrent.futures as cf
import json
import os
import re

import vlib
from vlib import log


def cps(s):
    """python string -> TLA+ tuple of code points"""
    return "<<" + ", ".join(str(ord(c)) for c in s) + ">>"


def cpset(strings):
    return "{" + ", ".join(cps(s) for s in strings) + "}"


def cpseq(strings):
    return "<<" + ", ".join(cps(s) for s in strings) + ">>"


_case_re = re.compile(r'^<<"CASE", <<([0-9, ]*)>>>>$')


def gen_cases(tag, mode, lits=(), binops=(), unops=(), funcs=(), funcs2=(), postops=(), maxbin=2, maxun=0, chain=("1",), signs=("",),
              workers=1, timeout=1200):
    """Run MC_ExprGen with the given constants; returns (texts, TlcResult)."""
    # TLC's cfg syntax has no tuples inside sets: the constants go into a generated module
    mod = "Gen_%s_%d" % (tag, os.getpid())      # two runs of one engine at the same time must not delete each other's module
    with open(os.path.join(vlib.SPEC, mod + ".tla"), "w") as f:
        f.write("---- MODULE %s ----\nEXTENDS MC_ExprGen\n" % mod)
        f.write("G_Lits == %s\nG_BinOps == %s\nG_UnOps == %s\nG_Funcs == %s\nG_Funcs2 == %s\nG_Chain == %s\nG_Signs == %s\nG_PostOps == %s\n" % (
            cpset(lits), cpset(binops), cpset(unops), cpset(funcs), cpset(funcs2), cpseq(chain), cpset(signs), cpset(postops)))
        f.write("====\n")
    cfg = os.path.join(vlib.SPEC, mod + ".cfg")
    with open(cfg, "w") as f:
        f.write("SPECIFICATION Spec\nINVARIANT Emit\nCHECK_DEADLOCK FALSE\nCONSTANTS\n")
        f.write('  Mode = "%s"\n  MaxBin = %d\n  MaxUn = %d\n' % (mode, maxbin, maxun))
        f.write("  Lits <- G_Lits\n  BinOps <- G_BinOps\n  UnOps <- G_UnOps\n  Funcs <- G_Funcs\n  Funcs2 <- G_Funcs2\n  PostOps <- G_PostOps\n  Chain <- G_Chain\n  Signs <- G_Signs\n")
    try:
        r = vlib.tlc(mod, cfg, workers=workers, timeout=timeout, tag="gen" + tag, xmx="8g")
    finally:
        for ext in (".tla", ".cfg"):
            try:
                os.unlink(os.path.join(vlib.SPEC, mod + ext))
            except OSError:
                pass
    vlib.require_ok(r, "MC_ExprGen " + tag)
    texts = ["".join(chr(c) for c in arr) for arr in vlib.tagged_json(r, "CASE")]
    return texts, r


def run_eval(jobs, ctx="empty", timeout_ms=5000, shards=8, tag="ev", ans=False):
    """jobs: list of dicts ({"qs": text, ...}); returns list of result dicts in the same order."""
    if not jobs:
        return []
    shards = max(1, min(shards, (len(jobs) + 199) // 200))
    chunks = [jobs[i::shards] for i in range(shards)]

    def one(i):
        inp = vlib.workfile("%s-in-%d.ndjson" % (tag, i))
        outp = vlib.workfile("%s-out-%d.ndjson" % (tag, i))
        vlib.write_ndjson(inp, chunks[i])
        cmd = [vlib.rv("rv-eval"), "run", "--ctx", ctx, "--timeout-ms", str(timeout_ms), "--in", inp, "--out", outp]
        if ans:
            cmd.append("--ans")
        vlib.run_tool(cmd, timeout=7200)
        res = vlib.read_ndjson(outp)
        if len(res) != len(chunks[i]):
            raise vlib.ToolError("rv-eval returned %d results for %d jobs" % (len(res), len(chunks[i])))
        os.unlink(inp)
        os.unlink(outp)
        return res

    with cf.ThreadPoolExecutor(max_workers=shards) as ex:
        parts = list(ex.map(one, range(shards)))
    out = [None] * len(jobs)
    for i, part in enumerate(parts):
        for j, r in enumerate(part):
            out[i + j * shards] = r
    return out


OBS_KEYS = ("t", "v", "d", "c", "kind")


def slim_event(res, extra=None, keep_parts=False):
    """what the judge needs from one rv-eval result (no nulls, no bulky fields)"""
    if "crash" in res:
        ev = {"q": res["q"], "ast": {"k": "none"}, "obs": {"t": "crash", "c": res["crash"]}}
    else:
        o = res["obs"]
        obs = {k: o[k] for k in OBS_KEYS if k in o}
        if keep_parts:
            for k in ("parts", "list", "breakdown", "rest", "props", "amount", "left", "right", "suggestions", "suggestions_cp",
                      "rfc3339", "fields", "cats", "of", "name", "canon", "def", "value"):
                if k in o and o[k] is not None:
                    obs[k] = strip_nulls(o[k])
        ev = {"q": res["q"], "ast": res.get("ast") or {"k": "none"}, "obs": obs}
    if extra:
        ev.update(extra)
    return ev


def strip_nulls(x):
    if isinstance(x, dict):
        return {k: strip_nulls(v) for k, v in x.items() if v is not None}
    if isinstance(x, list):
        return [strip_nulls(v) for v in x]
    return x


_verdict_re = re.compile(r'^<<"(REJECT|ASTDIFF|SILENT|CRASH|UNSUPPORTED|NOTE|SPECRT|DRIFT)", (\d+)(?:, (.*))?>>$')


def judge(events, module="Trace_Eval", cfg=None, shards=8, tag="jd", timeout=3600, env=None, min_per_shard=300):
    """Run the judge spec on events (sharded). Returns (verdicts: dict idx -> set of tags, stats)."""
    if not events:
        return {}, {"distinct": 0, "generated": 0}
    shards = max(1, min(shards, (len(events) + min_per_shard - 1) // min_per_shard))
    bounds = [(len(events) * i // shards, len(events) * (i + 1) // shards) for i in range(shards)]

    def one(i):
        lo, hi = bounds[i]
        path = vlib.workfile("%s-%d.ndjson" % (tag, i))
        vlib.write_ndjson(path, events[lo:hi])
        e = {"TRACE": path}
        if env:
            e.update(env)
        r = vlib.tlc(module, cfg or module, workers=1, timeout=timeout, env=e, deque=True, tag=tag, xmx="4g")
        if getattr(r, "timed_out", False):
            raise vlib.ToolError("judge %s timed out" % module)
        if not r.ok or r.distinct != (hi - lo) + 1:
            log(r.stdout[-3000:])
            raise vlib.ToolError("judge %s did not consume every line (%d of %d)" % (module, r.distinct - 1, hi - lo))
        out = {}
        for ln in r.stdout.splitlines():
            m = _verdict_re.match(ln)
            if m:
                out.setdefault(lo + int(m.group(2)) - 1, set()).add(m.group(1))
        os.unlink(path)
        return out, r

    verdicts = {}
    stats = {"distinct": 0, "generated": 0}
    with cf.ThreadPoolExecutor(max_workers=shards) as ex:
        for out, r in ex.map(one, range(shards)):
            verdicts.update(out)
            stats["distinct"] += r.distinct
            stats["generated"] += r.generated
    return verdicts, stats


def qtext(ev):
    return "".join(chr(c) for c in ev["q"])


# ----------------------------------------------------------------------------
# database-level helpers (C02, C03, C09, C10, ...)

_dump_cache = {}


def registry_dump(ctx="bundled"):
    """rv-eval dump of a context, as python dict (cached per process)."""
    if ctx not in _dump_cache:
        path = vlib.workfile("dump-%s.json" % ctx.replace(":", "_").replace("/", "_"))
        vlib.run_tool([vlib.rv("rv-eval"), "dump", ctx, path], timeout=300)
        _dump_cache[ctx] = json.load(open(path))
    return _dump_cache[ctx]


def env_file(dump, tag="env"):
    """the environment the judge specs read (Query.tla EnvFromJson)"""
    env = {"base": dump["base"],
           "units": [{"name": u["name"], "val": u["val"]} for u in dump["units"]],
           "prefixes": [{"name": p["name"], "v": p["v"]} for p in dump["prefixes"]],
           "substnames": [s["name"] for s in dump["substances"]] + [s["sym"] for s in dump["symbols"]],
           "quantities": [{"name": q["name"], "dims": q["dims"]} for q in dump["quantities"]]}
    path = vlib.workfile("%s.json" % tag)
    with open(path, "w") as f:
        json.dump(env, f)
    return path


def s_of(cp):
    return "".join(chr(c) for c in cp)


def decide(run, texts, leg, ctx="bundled", module="Trace_Query", env=None, shards=8, timeout_ms=5000,
           min_per_shard=300, engine="query", crash_is_violation=True, nontrivial=None, case_extra=None):
    """run texts through the code, judge them, record violations. Returns (results, events, verdicts)."""
    import time
    t0 = time.time()
    res = run_eval([{"qs": t} for t in texts], ctx=ctx, timeout_ms=timeout_ms, shards=shards, tag=run.prop.lower() + leg)
    t1 = time.time()
    events = [slim_event(r, keep_parts=True) for r in res]
    verdicts, st = judge(events, module, shards=shards, tag=run.prop.lower() + "j" + leg, env=env, min_per_shard=min_per_shard)
    run.cov["states"] += st["distinct"]
    run.cov["transitions"] += st["generated"]
    run.traces(len(events))
    nsilent = nast = nrej = 0
    for i, ev in enumerate(events):
        run.count()
        v = verdicts.get(i, set())
        q = texts[i]
        if "SILENT" in v or "UNSUPPORTED" in v:
            nsilent += 1
            continue
        if nontrivial is None or nontrivial(q):
            run.nontrivial(q)
        if "ASTDIFF" in v:
            nast += 1
            if nast <= 3:
                run.drift_note("Grammar", "the code's AST differs from the specification's parse of %r" % q)
        if "NOTE" in v:
            run.drift_note("Query", "note on %r" % q)
        if "REJECT" in v or ("CRASH" in v and crash_is_violation):
            nrej += 1
            obs = ev["obs"]
            case = {"engine": engine, "leg": leg, "q": q, "obs_kind": obs.get("t"),
                    "crash": obs.get("c") if obs.get("t") == "crash" else None}
            if case_extra:
                case.update(case_extra(q))
            run.violation(case, "the reply the specification determines for this query (value, dimensionality, error class)",
                          strip_nulls(res[i].get("obs", {k: res[i].get(k) for k in ("crash", "msg", "signal")})), engine)
    log("[%s] leg %s: %d texts, %d silent, %d astdiff, %d rejected, eval %.1fs judge %.1fs" % (
        run.prop, leg, len(texts), nsilent, nast, nrej, t1 - t0, time.time() - t1))
    return res, events, verdicts


def replay_query(prop, path, ctx="bundled", module="Trace_Query", env=None):
    body = json.load(open(path))
    q = body["case"]["q"]
    vlib.build_harness()
    res = run_eval([{"qs": q}], ctx=ctx, tag=prop.lower() + "r")
    ev = slim_event(res[0], keep_parts=True)
    verdicts, _ = judge([ev], module, shards=1, tag=prop.lower() + "rj", env=env)
    log("query: %r\nobserved: %s\nverdict: %s" % (q, json.dumps(res[0].get("obs", res[0]))[:600], verdicts.get(0, {"ACCEPT"})))
    return 1 if verdicts.get(0, set()) & {"REJECT", "CRASH"} else 0


def selfcheck_corrupt(run, q, mutate, ctx="bundled", module="Trace_Query", env=None):
    """a corrupted observation of query q must be rejected by the judge"""
    res = run_eval([{"qs": q}], ctx=ctx, tag=run.prop.lower() + "self")
    ev = slim_event(res[0], keep_parts=True)
    mutate(ev)
    verdicts, _ = judge([ev], module, shards=1, tag=run.prop.lower() + "selfj", env=env)
    if "REJECT" not in verdicts.get(0, set()):
        raise vlib.ToolError("self-check: corrupted observation of %r was not rejected by %s" % (q, module))
    run.note("selfcheck_corrupted_observation_rejected", True)
