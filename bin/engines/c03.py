"""C03 - conversions are exact and refuse non-conformable targets. Pairs of conformable units of the
bundled database (exhaustive inside small dimension groups in quick, all ordered pairs in thorough),
random non-conformable pairs, compound targets (product, quotient, power, constant factor, prefix/plural
names, inline `name = expr`), and the round trip x t -> unit(v). The judge recomputes the quotient with
BigNum from the dumped leaf values and checks the structure of conformance errors."""
import json
import random

import evalkit
import vlib

PROP = "C03"


def groups(dump):
    g = {}
    for u in dump["units"]:
        if u["val"]["t"] != "num":
            continue
        key = json.dumps(u["val"]["d"], sort_keys=True)
        g.setdefault(key, []).append(u["s"])
    return g


def lexable(name):
    return all(c.isalnum() or c in "_$" for c in name) and not name[0].isdigit() and name not in (
        "per", "to", "in", "mod", "and", "or", "xor", "of", "now", "ans", "ANS", "_", "for", "units", "search", "factorize",
        "base", "hex", "oct", "bin", "digits", "frac", "fraction", "ratio", "sci", "eng", "int", "UK", "british", "imperial",
        "survey", "geodetic", "irish", "aust", "australian", "roman", "egyptian", "greek", "olympic", "international")


def coeff(rng):
    return rng.choice(["", "3 ", "1|7 ", "-2.5 ", "1e6 ", "12345678901234567890 "])


def run(tier, seed):
    run = vlib.Run(PROP, tier, seed, "model_checking")
    thorough = tier == "thorough"
    run.cov["rule"] = ("ordered pairs of conformable units of the bundled database (all pairs inside dimension groups of <= 12 units + "
                       "seeded random pairs; every ordered pair in thorough), random non-conformable pairs incl. reciprocal ones, compound "
                       "targets, round trips. non-trivial = distinct query whose reply the specification determines.")
    run.assumptions += ["leaf values/dimensionalities from the registry dump (C08)", "suggestion wording beyond the reciprocal flag is not checked"]
    vlib.build_harness()
    dump = evalkit.registry_dump("bundled")
    env = {"ENVFILE": evalkit.env_file(dump, "c03env"), "CLOSED": "0", "TEXTBOOK": "0"}
    rng = random.Random(seed)
    g = {k: [n for n in v if lexable(n)] for k, v in groups(dump).items()}
    g = {k: v for k, v in g.items() if v}
    allnames = [n for v in g.values() for n in v]
    prefixes = [p["s"] for p in dump["prefixes"] if lexable(p["s"])]

    texts = []
    # conformable pairs
    for k, names in g.items():
        if len(names) < 2:
            continue
        if thorough or len(names) <= 12:
            for a in names:
                for b in names:
                    texts.append("%s%s -> %s" % (coeff(rng), a, b))
    big = [v for v in g.values() if len(v) > 12]
    for _ in range(0 if thorough else 5000):
        names = rng.choice(big)
        a, b = rng.choice(names), rng.choice(names)
        if rng.random() < 0.3:
            a = rng.choice(prefixes) + a
        if rng.random() < 0.3:
            b = rng.choice(prefixes) + b
        if rng.random() < 0.1:
            b = b + "s"
        texts.append("%s%s -> %s" % (coeff(rng), a, b))
    # non-conformable pairs (incl. reciprocal ones)
    for _ in range(20000 if thorough else 2000):
        a, b = rng.choice(allnames), rng.choice(allnames)
        texts.append("%s%s -> %s" % (coeff(rng), a, b))
        if rng.random() < 0.3:
            texts.append("%s%s -> 1/%s" % (coeff(rng), a, a if rng.random() < 0.5 else b))
    # compound sources / targets
    for _ in range(20000 if thorough else 3000):
        names = rng.choice(list(g.values()))
        a, b = rng.choice(names), rng.choice(names)
        c, d = rng.choice(allnames), rng.choice(allnames)
        form = rng.randint(0, 14)
        if form == 0:
            texts.append("%s%s %s -> %s %s" % (coeff(rng), a, c, b, c))
        elif form == 1:
            texts.append("%s%s / %s -> %s / %s" % (coeff(rng), a, c, b, c))
        elif form == 2:
            texts.append("%s%s^2 -> %s^2" % (coeff(rng), a, b))
        elif form == 3:
            texts.append("%s%s -> 3 %s" % (coeff(rng), a, b))
        elif form == 4:
            texts.append("%s%s -> 1|8 %s" % (coeff(rng), a, b))
        elif form == 5:
            texts.append("%s%s -> x = 7 %s" % (coeff(rng), a, b))
        elif form == 6:
            texts.append("%s%s %s / %s -> %s %s / %s" % (coeff(rng), a, c, d, b, c, d))
        elif form == 7:
            texts.append("%s%s^-1 -> 1 / %s" % (coeff(rng), a, b))
        elif form == 8:       # zeroth powers are dimensionless on either side
            texts.append("(%s%s)^0 -> 1" % (coeff(rng), a))
        elif form == 9:
            texts.append("%s%s %s^0 -> %s" % (coeff(rng), a, c, b))
        elif form == 10:
            texts.append("%s%s -> %s %s^0" % (coeff(rng), a, b, c))
        elif form == 11:
            texts.append("%s%s^3 / %s^2 -> %s (%s^2)^0" % (coeff(rng), a, b, b, c))
        elif form == 12:      # zeroth powers of a ZERO quantity, and a zero written as a difference
            texts.append("(0 %s)^0 -> 1" % a)
        elif form == 13:
            texts.append("%s%s (%s - %s)^0 -> %s" % (coeff(rng), a, c, c, b))
        else:
            texts.append("%s%s -> %s (0 %s)^0" % (coeff(rng), a, b, c))
    shards = 16 if thorough else 8
    res, events, verdicts = evalkit.decide(run, texts, "pairs", env=env, shards=shards)
    run.sample({"leg": "pairs", "q": texts[0]})
    run.sample({"leg": "compound", "q": texts[-1]})

    # names that are substances AND readable as (prefixed) units: the unit reading wins (the specification's lookup order);
    # every substance name and symbol of the database is tried, the specification decides which of them are units too
    shadow = [n for n in ([x["s"] for x in dump["substances"]] + ["".join(chr(c) for c in x["sym"]) for x in dump["symbols"]]) if n and lexable(n)]
    shadow = sorted(set(shadow))
    evalkit.decide(run, ["1 %s" % n for n in shadow] + ["%s -> kg" % n for n in shadow if len(n) <= 3], "shadowed-names", env=env, shards=2)

    # round trip: x t back to v's own unit, x taken from the observed reply and written as an exact fraction
    from engines.rt_util import limbs_to_int
    back = []
    for q, r in zip(texts, res):
        if len(back) >= (20000 if thorough else 2500):
            break
        o = r.get("obs", {})
        if o.get("t") != "conversion" or " -> " not in q:
            continue
        src, tgt = q.split(" -> ", 1)
        raw = (o.get("parts") or {}).get("raw") or {}
        if raw.get("t") != "num" or "=" in tgt:
            continue
        n = limbs_to_int(raw["v"]["n"]["mag"]) * (-1 if raw["v"]["n"]["neg"] else 1)
        d = limbs_to_int(raw["v"]["d"])
        if len(str(n)) > 80:
            continue
        srcunit = src.split(" ", 1)[1] if src[0] in "-0123456789" and " " in src else src
        back.append("(%d|%d) (%s) -> %s" % (n, d, tgt, srcunit))
    evalkit.decide(run, back, "roundtrip", env=env, shards=shards)
    if back:
        run.sample({"leg": "roundtrip", "q": back[0]})

    def corrupt(ev):
        ev["obs"]["parts"]["raw"]["v"]["n"]["mag"][0] ^= 1
    evalkit.selfcheck_corrupt(run, "3 mile -> km", corrupt, env=env)
    return run.finish()


def replay(path, seed):
    vlib.build_harness()
    dump = evalkit.registry_dump("bundled")
    env = {"ENVFILE": evalkit.env_file(dump, "c03env"), "CLOSED": "0", "TEXTBOOK": "0"}
    return evalkit.replay_query(PROP, path, env=env)
