"""C18 - sandbox: one reply per request, its own result or the error naming what happened to it,
failures isolated, child restarted when necessary, no stale reply.

Legs (DESIGN.md section 4, C18):
  D  design: TLC on Sandbox.tla (caller, parent task, child, OS; child death its own action;
     EPIPE wedge modelled; environment: the caller abandons a request, the idle child is killed
     from outside) for the repaired code: OneReplyEach / OwnReply / Isolation / NoStale
     over every fault sequence and gap vector (VIEW: remaining plan + verdict of the history),
     cross-checked without VIEW, Progress under fairness without constraint; sanity: the
     transcription of the code before each of the three fixes must violate the property.
  G  TLC prints every (entry sequence, gap vector) with the set of reply classes the PROPERTY admits
     per entry; each is run through the real Sandbox::<TestSvc>::execute (own process per case,
     JOBS at a time, outer deadline per call); replies compared with the admissible sets.  A mismatch
     is re-run alone before it is believed.  Families: request kinds (gen*), requests + abandoned
     requests + idle kills in every position (genenv*), idle times close to / beyond the time limit
     before quick, slow and overrunning requests (genidle*), payload sizes around and above the
     pipe buffer in either direction (sizes).
  V  hook events of parent.rs + call/ret marks of every conforming run validated by
     Trace_Sandbox.tla (drift level: the replies were already decided by G).
"""
import json
import os
import time
from concurrent.futures import ThreadPoolExecutor

import vlib
from vlib import log

PROP = "C18"
FAULTS = ("panic", "overrun", "oom", "exit", "abandon", "abover", "kill")
ENV = ("abandon", "abover", "kill")
CLASS = {"Ok": "ok", "Panic": "panic", "Timeout": "timeout", "Crashed": "crashed", "Abandoned": "abandoned", "Env": "env"}
TIMEOUT_MS = 200
ENV_TIMEOUT_MS = 400        # the environment family: slow request = a quarter of it, abandoned after a tenth
IDLE_TIMEOUT_MS = 400       # the idle-time family: slow request = a quarter of it, idle gaps 0.85 and 1.3 of it
PARAMS = ("timeout_ms", "slow_ms", "abandon_ms", "big_bytes")
LIMIT = 32 << 20
JOBS = 20
CORE_ACTIONS = ("CSend", "CRecv", "PSpawn", "PHsRead", "PTake", "PWriteLast", "PReadLast", "PTimeout", "PDeliver", "PKill",
                "CHandle", "CWriteLast")
WEDGE_ACTIONS = ("CSendFail", "CRecvFail", "CDrainFail", "PWriteFail")   # unreachable in the repaired model by design


def gap_ms(code, timeout_ms):
    """gap kinds of Sandbox.tla -> milliseconds"""
    return {0: 0, 1: 60, 2: timeout_ms * 85 // 100, 3: timeout_ms * 13 // 10}[code]


# ----------------------------------------------------------------------------
# property-level comparison

def judge(case, obs):
    """None if every reply is admissible, else (index0, got, why)."""
    plan = case["plan"]
    if "crash" in obs:
        return (0, "process_died", "the process hosting the Sandbox died: %s" % json.dumps(obs["crash"])[:300])
    reps = obs.get("replies", [])
    for i, kind in enumerate(plan):
        if i >= len(reps):
            return (i, "none", "no reply recorded for request %d" % (i + 1))
        r = reps[i]
        allowed = [CLASS[c] for c in case["expect"][i]]
        c = r.get("class")
        if c not in allowed:
            return (i, c, "reply class %s, the property admits %s" % (c, allowed))
        if kind == "kill" and c == "env" and r.get("pid") is None:
            return (i, "no_child", "the harness found no child to kill")
        if c in ("ok", "panic") and not r.get("own"):
            return (i, c + "_not_own", "the %s reply is not this request's own (%s)" % (c, json.dumps(r)[:200]))
    return None


def run_cases(cases, jobs, tag):
    path = vlib.workfile("c18-%d-%s.ndjson" % (os.getpid(), tag))
    lines = []
    for c in cases:
        ln = {"plan": c["plan"], "gaps": c["gaps"], "mode": c.get("mode", "async"), "timeout_ms": TIMEOUT_MS, "limit": LIMIT}
        ln.update({k: c[k] for k in PARAMS if c.get(k)})
        lines.append(ln)
    vlib.write_ndjson(path, lines)
    p = vlib.run_tool([vlib.rv("rv-sandbox"), "run", path, str(jobs)], timeout=7200)
    obs = [json.loads(x) for x in p.stdout.splitlines() if x.strip().startswith("{")]
    if len(obs) != len(cases):
        raise vlib.ToolError("rv-sandbox returned %d observations for %d cases" % (len(obs), len(cases)))
    for o in obs:
        if "tool_error" in o:
            raise vlib.ToolError("rv-sandbox: %s" % o["tool_error"])
    return obs


def brief(obs):
    out = []
    for r in obs.get("replies", []):
        s = r.get("class", "?")
        if s == "ok":
            s += "(id=%s,pid=%s%s)" % (r.get("id"), r.get("pid"), "" if r.get("own") else ",NOT-OWN")
        elif r.get("text") and s not in ("panic",):
            s += "(%s)" % r["text"][:60]
        out.append(s)
    return out


def violation_case(case, obs, bad):
    i, got, why = bad
    plan = case["plan"]
    out = {k: case[k] for k in PARAMS if case.get(k)}
    return {**out, "engine": "sandbox-replay", "family": case.get("family", "requests"),
            "plan": plan, "gaps": case["gaps"], "mode": case.get("mode", "async"),
            "index": i + 1, "kind": plan[i] if i < len(plan) else None,
            "prev": plan[i - 1] if i > 0 else None,
            "faults_before": sorted(set(k for k in plan[:i] if k in FAULTS)),
            "env_before": sorted(set(k for k in plan[:i] if k in ENV)),
            "got": got, "expected": case["expect"][i] if i < len(plan) else None,
            "why": why, "observed": brief(obs)}


def signature(case, bad):
    i, got, _ = bad
    plan = case["plan"]
    return (plan[i] if i < len(plan) else "?", got, plan[i - 1] if i > 0 else "-")


# ----------------------------------------------------------------------------
# traces

def trace_line(case, obs):
    evs = []
    for name, v in obs["events"]:
        e = {"e": name, "v": 0 if name == "spawned" else int(v), "c": "", "own": 0}   # envkill: v = plan position
        if name == "ret":
            r = obs["replies"][v - 1]
            e["c"] = r["class"]
            e["own"] = 1 if r.get("own") else 0
        evs.append(e)
    return {"ev": "run", "plan": ["big" if k in ("bigin", "bigout") else k for k in case["plan"]], "events": evs}


def validate_shard(args):
    label, lines = args
    """-> (accepted_count, rejected_lines, states, transitions)"""
    accepted, rejected, st, tr = 0, [], 0, 0
    rest = list(lines)
    rounds = 0
    while rest and rounds < 4:
        rounds += 1
        path = vlib.workfile("c18-%d-trace-%s-%d.ndjson" % (os.getpid(), label, rounds))
        vlib.write_ndjson(path, rest)
        ok, info = vlib.validate_trace("Trace_Sandbox", "Trace_Sandbox", path, timeout=1800, tag="c18v")
        st += info["distinct"]
        tr += info["generated"]
        if ok:
            accepted += len(rest)
            rest = []
            break
        idx = int(info["reject"].split(",")[0])
        accepted += idx - 1
        rejected.append(rest[idx - 1])
        rest = rest[idx:]
    return accepted, rejected, st, tr, len(rest)


def trace_leg(run, good, thorough):
    seen = {}
    for case, obs in good:
        ln = trace_line(case, obs)
        key = json.dumps(ln, sort_keys=True)
        if key not in seen:
            seen[key] = ln
    lines = list(seen.values())
    if not lines:
        raise vlib.ToolError("no conforming run to validate (trace leg)")
    if not any(e["e"] == "response" for ln in lines for e in ln["events"]):
        raise vlib.ToolError("the recorded runs contain no hook events: is the `verif hooks:` commit of parent.rs present?")
    nshard = 8 if thorough else 4
    shards = [("s%d" % i, lines[i::nshard]) for i in range(nshard) if lines[i::nshard]]
    with ThreadPoolExecutor(max_workers=nshard) as ex:
        results = list(ex.map(validate_shard, shards))
    nacc = nrej = nleft = 0
    for acc, rej, st, tr, left in results:
        nacc += acc
        run.cov["states"] += st
        run.cov["transitions"] += tr
        for ln in rej:
            nrej += 1
            if nrej <= 3:
                run.drift_note("Sandbox", "run %s: its event sequence is not a behaviour of the step-level transcription "
                               "(replies were admissible): %s" % (ln["plan"], [(e["e"], e["v"]) for e in ln["events"]][:40]))
        nleft += left
    if nrej > 3 or nleft:
        run.drift_note("Sandbox", "%d recorded runs rejected by Trace_Sandbox in all, %d left unvalidated after repeated rejections"
                       % (nrej, nleft))
    run.traces(nacc)
    run.note("distinct_event_sequences_validated", nacc)
    mid = lines[len(lines) // 2]
    run.sample({"leg": "V", "plan": mid["plan"],
                "events": ["%s:%s%s" % (e["e"], e["v"], ("/" + e["c"]) if e["c"] else "") for e in mid["events"]]})
    # self-check: a corrupted trace must be rejected
    victim = None
    for ln in lines:
        if any(e["e"] == "response" and e["v"] == 2 for e in ln["events"]):
            victim = json.loads(json.dumps(ln))
            break
    if victim is None:
        raise vlib.ToolError("self-check: no recorded run with an EOF response to corrupt")
    for e in victim["events"]:
        if e["e"] == "response" and e["v"] == 2:
            e["v"] = 0          # claims a reply frame where the child had died
            break
    path = vlib.workfile("c18-%d-corrupt.ndjson" % os.getpid())
    vlib.write_ndjson(path, [lines[0], victim])
    ok, info = vlib.validate_trace("Trace_Sandbox", "Trace_Sandbox", path, tag="c18c")
    if ok or not info.get("reject", "").startswith("2,"):
        raise vlib.ToolError("self-check: a corrupted sandbox trace was not rejected at the corrupted run")
    run.note("selfcheck_corrupted_trace_rejected", True)


# ----------------------------------------------------------------------------

def design_leg(run, thorough):
    design_record(run, design_compute(thorough))


def design_compute(thorough):
    """All TLC runs of the design leg at once (they are independent; the caller overlaps them with the replay leg)."""
    # (cfg, TLC workers, timeout); biggest first.  quick: all at once (~11 workers); thorough: four at a time (<= 14 workers)
    if thorough:
        clean_cfgs = [("MC_Sandbox_fixedenv5", 4, 3000), ("MC_Sandbox_live4", 3, 3000), ("MC_Sandbox_fixed5", 3, 2400),
                      ("MC_Sandbox_noview4", 3, 2400), ("MC_Sandbox_fixedenv4", 3, 2400), ("MC_Sandbox_noview", 2, 1200)]
    else:
        clean_cfgs = [("MC_Sandbox_fixedenv4", 4, 2400), ("MC_Sandbox_noview", 2, 1200), ("MC_Sandbox_live3", 2, 2400)]
    # the transcription of the code before each fix must break the property (cfg, invariants it may break, what it stands for)
    unfixed = [("MC_Sandbox_unfixed", ("OwnReply", "Isolation"), "no break_out after a Panic reply, no drain, no restart on EPIPE"),
               ("MC_Sandbox_unfixed_abandon", ("NoStale",), "execute does not discard the reply of an abandoned request"),
               ("MC_Sandbox_unfixed_epipe", ("OwnReply", "Isolation"), "a child killed while idle is not replaced")]

    def one(job):
        cfg, workers, to = job
        return vlib.tlc("MC_Sandbox", cfg, workers=workers, timeout=to, tag="c18d", xmx="12g" if cfg.endswith("5") else "6g")

    jobs = clean_cfgs + [(cfg, 1, 600) for cfg, _, _ in unfixed]
    with ThreadPoolExecutor(max_workers=4 if thorough else len(jobs)) as ex:
        results = list(ex.map(one, jobs))
    return clean_cfgs, unfixed, results


def design_record(run, computed):
    clean_cfgs, unfixed, results = computed
    for (cfg, _, _), r in zip(clean_cfgs, results):
        if r.invariant_violated or (not r.ok and not getattr(r, "timed_out", False) and "violated" in (r.error_text or "")):
            log(r.stdout[-3000:])
            raise vlib.ToolError("design model %s (repaired code) violates %s" % (cfg, r.invariant_violated or "a property"))
        vlib.require_ok(r, cfg)
        run.add_tlc(r, cfg)
        if "live" in cfg and "Checking temporal properties" not in r.stdout:
            raise vlib.ToolError("liveness configuration did not check a temporal property")
    notes = {}
    for (cfg, may, what), r in zip(unfixed, results[len(clean_cfgs):]):
        if r.invariant_violated not in may:
            log(r.stdout[-2000:])
            raise vlib.ToolError("sanity: the unrepaired model %s (%s) should violate %s" % (cfg, what, "/".join(may)))
        notes[cfg] = "%s violated as expected (%s; %d states)" % (r.invariant_violated, what, r.distinct)
    run.note("sanity_unfixed_models", notes)


def family_of(cfg):
    return "env" if "genenv" in cfg else "idle" if "genidle" in cfg else "requests"


def generate(run, thorough):
    cfgs = (["MC_Sandbox_gen4", "MC_Sandbox_gen5u", "MC_Sandbox_genenv3", "MC_Sandbox_genenv4", "MC_Sandbox_genidle3p"] if thorough
            else ["MC_Sandbox_gen3", "MC_Sandbox_genenv3q", "MC_Sandbox_genidle3"])

    def one(cfg):
        return vlib.tlc("MC_Sandbox", cfg, workers=2, timeout=2400, coverage=True, tag="c18g", xmx="8g")

    with ThreadPoolExecutor(max_workers=len(cfgs)) as ex:
        results = list(ex.map(one, cfgs))
    cases = {}
    taken, every = set(), set()
    for cfg, r in zip(cfgs, results):
        vlib.require_ok(r, cfg)
        run.add_tlc(r, cfg)
        taken |= set(a for a, (d, t) in r.coverage.items() if t > 0)
        if len(r.coverage) < 20:
            raise vlib.ToolError("vacuity gate: only %d coverage lines in %s" % (len(r.coverage), cfg))
        fam = family_of(cfg)
        # every run must exercise the core of the protocol; every action (but the wedge) must be taken by some run (below)
        never = [a for a in CORE_ACTIONS if r.coverage.get(a, (0, 0))[1] == 0]
        if never:
            raise vlib.ToolError("vacuity gate: actions never taken in %s: %s" % (cfg, never))
        every |= set(r.coverage)
        par = ({"timeout_ms": IDLE_TIMEOUT_MS, "slow_ms": IDLE_TIMEOUT_MS // 4} if fam == "idle" else
               {"timeout_ms": ENV_TIMEOUT_MS, "slow_ms": ENV_TIMEOUT_MS // 4, "abandon_ms": ENV_TIMEOUT_MS // 10} if fam == "env" else
               {"timeout_ms": TIMEOUT_MS})
        tmo = par["timeout_ms"]
        for c in vlib.tagged_json(r, "REPLAY"):
            key = (tuple(c["plan"]), tuple(c["gaps"]))
            expect = [sorted(e) for e in c["expect"]]
            if any(m not in e for m, e in zip(c["model"], expect)) or len(c["model"]) != len(expect):
                raise vlib.ToolError("generator: the repaired model's own replies are not admissible: %s" % c)
            beh = (tuple(c["model"]), tuple(c["gens"]))
            if key in cases:
                if cases[key]["expect"] != expect:
                    raise vlib.ToolError("generator: two behaviours of one case disagree on expect: %s" % (key,))
                cases[key]["behaviours"].add(beh)
                continue
            cases[key] = {"plan": c["plan"], "codes": c["gaps"], "gaps": [gap_ms(g, tmo) for g in c["gaps"]], "expect": expect,
                          "behaviours": {beh}, "mode": "async", "family": fam, **par}
    never = sorted(a for a in every if a not in taken and a not in WEDGE_ACTIONS)
    if never or not {"CDrain", "CAbandon", "CKill", "PWriteGone", "PWriteMore", "PReadEof"} <= taken:
        raise vlib.ToolError("vacuity gate: actions never taken in any generator run: %s" % never)
    out = [cases[k] for k in sorted(cases, key=lambda k: (len(k[0]), k))]
    # the same gaps spent blocking the executor thread (as a REPL waiting for input does): short sequences only
    lim = 3 if thorough else 2
    out += [dict(c, mode="block") for c in list(out) if len(c["plan"]) <= lim and any(c["gaps"]) and c["family"] != "idle"]
    if not out:
        raise vlib.ToolError("generator printed no cases")
    return out


# payload sizes around and above the pipe buffer (64 KiB), request only / reply only / both, each followed by normal requests
SIZES = (60000, 65000, 65536, 66000, 70000, 131072, 1000000)


def size_cases(thorough):
    out = []
    for kind in ("bigin", "bigout", "big"):
        for n in SIZES:
            plans = [[kind, "ok", "ok"], ["ok", kind, "ok"], [kind, kind, "ok"]]
            if thorough:
                plans += [[kind, "panic", kind, "ok"], ["overrun", kind, "ok", kind]]
            for plan in plans:
                table = {"ok": ["Ok"], "panic": ["Panic"], "overrun": ["Timeout"]}
                out.append({"plan": plan, "codes": [0] * len(plan), "gaps": [0] * len(plan), "mode": "async", "family": "sizes",
                            "expect": [table.get(k, ["Ok"]) for k in plan], "behaviours": set(), "big_bytes": n,
                            "timeout_ms": 2000})
    return out


CLI_KINDS = {"ok": None, "overrun": "1e999999999", "oom": "2^300000000", "big": "units for length"}


def cli_leg(run, cases, thorough):
    cli_record(run, *cli_compute(cases, thorough))


def cli_compute(cases, thorough):
    """Every TLC-generated fault sequence over {ok, overrun, oom, big} (length <= 3; all gaps 0) typed into the real rink
    binary running its sandboxed REPL: one answer per line, in order, own result or an error naming what happened, and
    every later request answered normally."""
    import concurrent.futures as cf
    import shutil
    import subprocess
    from engines import c20
    c20.build_cli()
    plans = sorted(set(tuple(c["plan"]) for c in cases if len(c["plan"]) <= 3 and all(k in CLI_KINDS for k in c["plan"])))
    root = vlib.workfile("c18-cli")
    shutil.rmtree(root, ignore_errors=True)

    def one(item):
        n, plan = item
        d = os.path.join(root, "s%d" % n)
        os.makedirs(os.path.join(d, "cfg", "rink"))
        os.makedirs(os.path.join(d, "cwd"))
        open(os.path.join(d, "cfg", "rink", "config.toml"), "w").write(
            '[currency]\nenabled = false\n[limits]\nenabled = true\nshow_metrics = false\nmemory = "60MB"\ntimeout = "2500ms"\n')
        lines = []
        for i, k in enumerate(plan):
            lines.append(CLI_KINDS[k] or "%d + %d" % (1000 + i, 7 * n + i))
        lines.append("40 + 2")          # a final normal request after whatever happened
        env = vlib.child_env({"XDG_CONFIG_HOME": os.path.join(d, "cfg"), "XDG_CACHE_HOME": os.path.join(d, "cache"),
                              "XDG_DATA_HOME": os.path.join(d, "data"), "HOME": d})
        try:
            p = subprocess.run([c20.RINK], input="\n".join(lines) + "\nquit\n", cwd=os.path.join(d, "cwd"), env=env,
                               stdout=subprocess.PIPE, stderr=subprocess.DEVNULL, text=True, timeout=120)
            out = [ln for ln in p.stdout.splitlines() if ln.strip()]
            rc = p.returncode
        except subprocess.TimeoutExpired:
            out, rc = ["<the REPL did not finish within 120 s>"], -9
        return plan, lines, out, rc

    with cf.ThreadPoolExecutor(max_workers=8) as ex:
        results = list(ex.map(one, enumerate(plans)))
    # timing-dependent (2.5 s limit on a machine shared with the other legs): wrong answers are re-run alone before being believed
    bad = [n for n, r in enumerate(results) if not cli_judge(*r)[0]]
    for n in bad[:12]:
        shutil.rmtree(os.path.join(root, "s%d" % n), ignore_errors=True)
        again = one((n, plans[n]))
        if cli_judge(*again)[0]:
            log("[C18] E: %s answered wrongly beside the other legs, correctly when re-run alone (not believed)" % (plans[n],))
            results[n] = again
    shutil.rmtree(root, ignore_errors=True)
    return plans, results


def cli_judge(plan, lines, out, rc):
    """-> (answers are as the property wants them, the wanted answers)"""
    want = []
    for i, k in enumerate(plan):
        if k == "ok":
            a, b = lines[i].split(" + ")
            want.append(("ok", [str(int(a) + int(b))]))
        elif k == "overrun":
            want.append(("timeout", ["timed out", "timeout", "time limit"]))      # wording is free, the cause must be named
        elif k == "oom":
            want.append(("crashed", ["crash", "memory", "killed", "abort"]))
        else:
            want.append(("big", ["meter", "units for"]))
    want.append(("ok", ["42"]))
    # one answer per request, in order: find each expected answer after the previous one
    pos, okk = 0, True
    for cls, needles in want:
        hit = next((j for j in range(pos, len(out)) if any(n in out[j].lower() for n in needles)
                    and (cls != "ok" or not any(w in out[j].lower() for w in ("crash", "timed out", "error")))), None)
        if hit is None:
            okk = False
            break
        pos = hit + 1
    return okk and rc == 0, want


def cli_record(run, plans, results):
    nbad = 0
    for plan, lines, out, rc in results:
        run.count()
        if any(k != "ok" for k in plan):
            run.nontrivial(("cli",) + plan)
        okk, want = cli_judge(plan, lines, out, rc)
        if not okk:
            nbad += 1
            run.violation({"engine": "cli-sandbox", "plan": list(plan), "lines": lines, "rc": rc},
                          {"answers_in_order": [w[0] + ": " + "|".join(w[1]) for w in want]}, {"stdout": out[-12:]}, "cli-sandbox")
    run.note("cli_sequences", len(plans))
    if plans:
        run.sample({"leg": "E", "typed": results[len(results) // 2][1], "printed": results[len(results) // 2][2][-6:]})
    log("[C18] E: %d fault sequences typed into the sandboxed rink REPL, %d with wrong answers" % (len(plans), nbad))


def cleanup():
    import glob
    for f in glob.glob(os.path.join(vlib.WORK, "c18-%d-*" % os.getpid())):
        try:
            os.remove(f)
        except OSError:
            pass


def run(tier, seed):
    try:
        return run_(tier, seed)
    finally:
        cleanup()


def run_(tier, seed):
    run = vlib.Run(PROP, tier, seed, "model_checking")
    thorough = tier == "thorough"
    run.cov["rule"] = (
        "D: TLC explores Sandbox.tla exhaustively for every sequence over the request kinds {ok, panic, overrun, oom, exit, big} and "
        "the environment events {abandon (the caller drops the future of a slow request), abover (of an overrunning one), kill (the "
        "idle child is killed from outside)} up to length %d with gap 0 / long before every entry. G: every (sequence, gap vector) "
        "printed by TLC%s is run through the real Sandbox::execute (timeout %d ms, memory limit %d MiB, big payload 200000 bytes, "
        "gaps 0/60 ms; short sequences also with blocking gaps; environment family: limit %d ms, slow request %d ms abandoned after "
        "%d ms; idle-time family: limit %d ms, idle gaps 0.85 and 1.3 of it before ok / slow (a quarter of the limit) / overrunning "
        "requests; size family: payloads of %s "
        "bytes in the request, the reply and both) and each reply compared with the set of classes the property admits; a mismatch "
        "is re-run alone before it is believed. Non-trivial = the sequence contains a fault or environment event followed by a later "
        "entry; distinct by sequence. V: the hook/call/ret/envkill event sequence of every conforming run is validated by "
        "Trace_Sandbox.tla (distinct sequences)."
        % (5 if thorough else 4,
           " (requests: length <= 4 with every gap vector, length 5 with uniform gaps; with environment events: length <= 3 with every "
           "gap vector, length 4 with uniform gaps)" if thorough else
           " (requests: length <= 3, every gap vector; with environment events: length <= 3, uniform gaps)",
           TIMEOUT_MS, LIMIT >> 20, ENV_TIMEOUT_MS, ENV_TIMEOUT_MS // 4, ENV_TIMEOUT_MS // 10, IDLE_TIMEOUT_MS,
           "/".join(str(n) for n in SIZES)))
    run.assumptions += [
        "the timer fires only for a handler that really outlives the limit (generous limits; a mismatch is re-run alone)",
        "Ctrl-C (Error::Interrupted) is outside the property's quantifier and not modelled",
        "pipe capacity 2 chunks / big frame 3 chunks stand for 64 KiB / 200000 bytes",
        "an abandoned request is one whose future is dropped after the request was sent (execute sends at its first poll when no "
        "earlier reply is outstanding); the outside kill hits a child that is idle (the parent task waiting for a request); a kill "
        "during the start-up handshake is not modelled",
        "a request sent right after an outside kill (gap 0) may still reach the dying child: Crashed is admitted for it; with a gap "
        "the harness waits until the killed process is gone and only the request's own reply is admitted",
        "harness trusted for: the test service, process control, comparing an echoed payload with the one sent, classifying Error variants",
    ]
    vlib.build_harness(bins=["rv-sandbox"])

    # the design leg's TLC runs overlap with generation and replay (they only share the machine)
    t0 = time.time()
    design_pool = ThreadPoolExecutor(max_workers=2)
    design_future = design_pool.submit(design_compute, thorough)
    try:
        cases = generate(run, thorough)
        cases += size_cases(thorough)
        log("[C18] %d cases generated (%.0f s)" % (len(cases), time.time() - t0))
        # E: the same fault sequences end to end through the real `rink` REPL with [limits] enabled (cli/src/repl.rs +
        #    cli/src/service.rs: RinkService holds a mutex during handle; GLOBAL allocator limit); runs beside the replay
        cli_future = design_pool.submit(cli_compute, cases, thorough)
        obs = run_cases(cases, JOBS, "cases")
        log("[C18] cases replayed (%.0f s)" % (time.time() - t0))
    finally:
        design_pool.shutdown(wait=True)
    design_record(run, design_future.result())
    log("[C18] design leg done (%.0f s)" % (time.time() - t0))
    good, bad = [], []
    for c, o in zip(cases, obs):
        run.count()
        plan = c["plan"]
        if any(k in FAULTS for k in plan[:-1]):
            run.nontrivial(tuple(plan))
        b = judge(c, o)
        if b is None:
            good.append((c, o))
        else:
            bad.append((c, o, b))
    run.sample({"leg": "G", "case": {k: cases[len(cases) // 2][k] for k in ("plan", "gaps", "expect", "mode")},
                "observed": brief(obs[len(cases) // 2])})
    run.note("cases_replayed", len(cases))
    run.cov["exhaustive"] = True

    # ---- mismatches: re-run alone before believing them
    if bad:
        log("[C18] %d of %d cases have a reply outside the admissible set; re-running representatives alone" % (len(bad), len(cases)))
        per_sig = {}
        for c, o, b in sorted(bad, key=lambda x: (len(x[0]["plan"]), x[0]["plan"])):
            per_sig.setdefault(signature(c, b), []).append((c, o, b))
        chosen = []
        for sig, lst in per_sig.items():
            chosen += lst[:3]
        chosen = chosen[:36]
        unrepro = 0
        for attempt in (1, 2):
            if not chosen:
                break
            again = run_cases([c for c, _, _ in chosen], 1, "retry%d" % attempt)
            still = []
            for (c, o, b), o2 in zip(chosen, again):
                b2 = judge(c, o2)
                if b2 is not None:
                    run.violation(violation_case(c, o2, b2),
                                  {"admissible": c["expect"], "note": "per request: the set of reply classes the property allows"},
                                  {"first_run": brief(o), "alone": brief(o2)}, "sandbox-replay")
                else:
                    still.append((c, o, b))
            chosen = still
        unrepro = len(chosen)
        run.note("mismatching_cases", len(bad))
        if unrepro:
            run.note("mismatches_not_reproduced_alone", [
                {"plan": c["plan"], "gaps": c["gaps"], "under_load": brief(o)} for c, o, b in chosen[:10]])
            log("[C18] %d mismatches under load did not reproduce when re-run alone twice (not believed)" % unrepro)

    # ---- respawn pattern vs transcription (drift level): equal pids <=> equal child generation
    #      (among the transcription's behaviours with the observed reply classes)
    ndrift = nnobeh = 0
    back = {v: k for k, v in CLASS.items()}
    for c, o in good:
        if not c["behaviours"]:
            continue
        classes = tuple(back.get(r["class"]) for r in o["replies"])
        cands = [g for m, g in c["behaviours"] if m == classes]
        if not cands:
            nnobeh += 1
            continue
        oks = [(i, r["pid"]) for i, r in enumerate(o["replies"]) if r["class"] == "ok"]
        if not any(all((p1 == p2) == (g[i] == g[j]) for (i, p1) in oks for (j, p2) in oks if i < j) for g in cands):
            ndrift += 1
    if ndrift:
        run.drift_note("Sandbox", "%d runs: same/different child pids disagree with the transcription's respawn pattern" % ndrift)
    if nnobeh:
        run.drift_note("Sandbox", "%d runs: admissible replies that no behaviour of the transcription produces" % nnobeh)

    log("[C18] mismatches settled (%.0f s)" % (time.time() - t0))
    cli_record(run, *cli_future.result())
    log("[C18] cli leg done (%.0f s)" % (time.time() - t0))

    # ---- V: trace validation of the conforming runs
    if good:
        try:
            trace_leg(run, good, thorough)
        except vlib.ToolError as e:
            if not run.violations:
                raise
            log("[C18] trace leg not completed on a tree with violations: %s" % e)   # the verdict stands
    return run.finish()


def replay(path, seed):
    body = json.load(open(path))
    case = body["case"]
    run = vlib.Run(PROP, "quick", seed, "model_checking")
    vlib.build_harness(bins=["rv-sandbox"])
    if case.get("engine") != "sandbox-replay":
        return 2
    adm = (body.get("spec_allows") or {}).get("admissible")
    if not adm:
        table = {"ok": ["Ok"], "big": ["Ok"], "bigin": ["Ok"], "bigout": ["Ok"], "slow": ["Ok"], "panic": ["Panic"],
                 "overrun": ["Timeout"], "oom": ["Crashed"], "exit": ["Crashed"], "abandon": ["Abandoned", "Ok"],
                 "abover": ["Abandoned", "Timeout"], "kill": ["Env"]}
        adm = [table[k] for k in case["plan"]]
    c = {"plan": case["plan"], "gaps": case["gaps"], "mode": case.get("mode", "async"), "expect": adm}
    c.update({k: case[k] for k in PARAMS if case.get(k)})
    rc = 0
    for n in range(3):
        o = run_cases([c], 1, "replay")[0]
        b = judge(c, o)
        log("run %d: %s -> %s" % (n + 1, brief(o), "admissible" if b is None else "VIOLATED: " + b[2]))
        if b is not None:
            rc = 1
    log("recorded : %s" % json.dumps(case.get("observed")))
    cleanup()
    return rc
