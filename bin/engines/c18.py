"""C18 - sandbox: one reply per request, its own result or the error naming what happened to it,
failures isolated, child restarted when necessary, no stale reply.

Legs (DESIGN.md section 4, C18):
  D  design: TLC on Sandbox.tla (caller, parent task, child, OS; child death its own action;
     EPIPE wedge modelled) for the repaired code: OneReplyEach / OwnReply / Isolation / NoStale
     over every fault sequence and gap vector (VIEW: remaining plan + verdict of the history),
     cross-checked without VIEW, Progress under fairness without constraint; sanity: the
     transcription of the code before the fix must violate the property.
  G  TLC prints every (fault sequence, gap vector) with the set of reply classes the PROPERTY admits
     per request; each is run through the real Sandbox::<TestSvc>::execute (own process per case,
     16 at a time, outer deadline per call); replies compared with the admissible sets.  A mismatch
     is re-run alone before it is believed.
  V  hook events of parent.rs + call/ret marks of every conforming run validated by
     Trace_Sandbox.tla (drift level: the replies were already decided by G).
"""
import json
import os
from concurrent.futures import ThreadPoolExecutor

import vlib
from vlib import log

PROP = "C18"
FAULTS = ("panic", "overrun", "oom", "exit")
CLASS = {"Ok": "ok", "Panic": "panic", "Timeout": "timeout", "Crashed": "crashed"}
TIMEOUT_MS = 200
LIMIT = 32 << 20
JOBS = 16
WEDGE_ACTIONS = ("CSendFail", "CRecvFail", "PWriteFail")   # unreachable in the repaired model by design


# ----------------------------------------------------------------------------
# property-level comparison

def judge(case, obs):
    """None if every reply is admissible, else (index0, got, why)."""
    plan = case["plan"]
    if "crash" in obs:
        return (0, "process_died", "the process hosting the Sandbox died: %s" % json.dumps(obs["crash"])[:300])
    reps = obs.get("replies", [])
    for i, kind in enumerate(plan):
        if i >= len(reps):
            return (i, "none", "no reply recorded for request %d" % (i + 1))
        r = reps[i]
        allowed = [CLASS[c] for c in case["expect"][i]]
        c = r.get("class")
        if c not in allowed:
            return (i, c, "reply class %s, the property admits %s" % (c, allowed))
        if c in ("ok", "panic") and not r.get("own"):
            return (i, c + "_not_own", "the %s reply is not this request's own (%s)" % (c, json.dumps(r)[:200]))
    return None


def run_cases(cases, jobs, tag):
    path = vlib.workfile("c18-%d-%s.ndjson" % (os.getpid(), tag))
    lines = [{"plan": c["plan"], "gaps": c["gaps"], "mode": c.get("mode", "async"),
              "timeout_ms": TIMEOUT_MS, "limit": LIMIT} for c in cases]
    vlib.write_ndjson(path, lines)
    p = vlib.run_tool([vlib.rv("rv-sandbox"), "run", path, str(jobs)], timeout=7200)
    obs = [json.loads(x) for x in p.stdout.splitlines() if x.strip().startswith("{")]
    if len(obs) != len(cases):
        raise vlib.ToolError("rv-sandbox returned %d observations for %d cases" % (len(obs), len(cases)))
    for o in obs:
        if "tool_error" in o:
            raise vlib.ToolError("rv-sandbox: %s" % o["tool_error"])
    return obs


def brief(obs):
    out = []
    for r in obs.get("replies", []):
        s = r.get("class", "?")
        if s == "ok":
            s += "(id=%s,pid=%s%s)" % (r.get("id"), r.get("pid"), "" if r.get("own") else ",NOT-OWN")
        elif r.get("text") and s not in ("panic",):
            s += "(%s)" % r["text"][:60]
        out.append(s)
    return out


def violation_case(case, obs, bad):
    i, got, why = bad
    plan = case["plan"]
    return {"engine": "sandbox-replay", "plan": plan, "gaps": case["gaps"], "mode": case.get("mode", "async"),
            "index": i + 1, "kind": plan[i] if i < len(plan) else None,
            "prev": plan[i - 1] if i > 0 else None,
            "faults_before": sorted(set(k for k in plan[:i] if k in FAULTS)),
            "got": got, "expected": case["expect"][i] if i < len(plan) else None,
            "why": why, "observed": brief(obs)}


def signature(case, bad):
    i, got, _ = bad
    plan = case["plan"]
    return (plan[i] if i < len(plan) else "?", got, plan[i - 1] if i > 0 else "-")


# ----------------------------------------------------------------------------
# traces

def trace_line(case, obs):
    evs = []
    for name, v in obs["events"]:
        e = {"e": name, "v": 0 if name == "spawned" else int(v), "c": "", "own": 0}
        if name == "ret":
            r = obs["replies"][v - 1]
            e["c"] = r["class"]
            e["own"] = 1 if r.get("own") else 0
        evs.append(e)
    return {"ev": "run", "plan": case["plan"], "events": evs}


def validate_shard(args):
    label, lines = args
    """-> (accepted_count, rejected_lines, states, transitions)"""
    accepted, rejected, st, tr = 0, [], 0, 0
    rest = list(lines)
    rounds = 0
    while rest and rounds < 4:
        rounds += 1
        path = vlib.workfile("c18-%d-trace-%s-%d.ndjson" % (os.getpid(), label, rounds))
        vlib.write_ndjson(path, rest)
        ok, info = vlib.validate_trace("Trace_Sandbox", "Trace_Sandbox", path, timeout=1800, tag="c18v")
        st += info["distinct"]
        tr += info["generated"]
        if ok:
            accepted += len(rest)
            rest = []
            break
        idx = int(info["reject"].split(",")[0])
        accepted += idx - 1
        rejected.append(rest[idx - 1])
        rest = rest[idx:]
    return accepted, rejected, st, tr, len(rest)


def trace_leg(run, good, thorough):
    seen = {}
    for case, obs in good:
        ln = trace_line(case, obs)
        key = json.dumps(ln, sort_keys=True)
        if key not in seen:
            seen[key] = ln
    lines = list(seen.values())
    if not lines:
        raise vlib.ToolError("no conforming run to validate (trace leg)")
    if not any(e["e"] == "response" for ln in lines for e in ln["events"]):
        raise vlib.ToolError("the recorded runs contain no hook events: is the `verif hooks:` commit of parent.rs present?")
    nshard = 8 if thorough else 4
    shards = [("s%d" % i, lines[i::nshard]) for i in range(nshard) if lines[i::nshard]]
    with ThreadPoolExecutor(max_workers=nshard) as ex:
        results = list(ex.map(validate_shard, shards))
    nacc = nrej = nleft = 0
    for acc, rej, st, tr, left in results:
        nacc += acc
        run.cov["states"] += st
        run.cov["transitions"] += tr
        for ln in rej:
            nrej += 1
            if nrej <= 3:
                run.drift_note("Sandbox", "run %s: its event sequence is not a behaviour of the step-level transcription "
                               "(replies were admissible): %s" % (ln["plan"], [(e["e"], e["v"]) for e in ln["events"]][:40]))
        nleft += left
    if nrej > 3 or nleft:
        run.drift_note("Sandbox", "%d recorded runs rejected by Trace_Sandbox in all, %d left unvalidated after repeated rejections"
                       % (nrej, nleft))
    run.traces(nacc)
    run.note("distinct_event_sequences_validated", nacc)
    mid = lines[len(lines) // 2]
    run.sample({"leg": "V", "plan": mid["plan"],
                "events": ["%s:%s%s" % (e["e"], e["v"], ("/" + e["c"]) if e["c"] else "") for e in mid["events"]]})
    # self-check: a corrupted trace must be rejected
    victim = None
    for ln in lines:
        if any(e["e"] == "response" and e["v"] == 2 for e in ln["events"]):
            victim = json.loads(json.dumps(ln))
            break
    if victim is None:
        raise vlib.ToolError("self-check: no recorded run with an EOF response to corrupt")
    for e in victim["events"]:
        if e["e"] == "response" and e["v"] == 2:
            e["v"] = 0          # claims a reply frame where the child had died
            break
    path = vlib.workfile("c18-%d-corrupt.ndjson" % os.getpid())
    vlib.write_ndjson(path, [lines[0], victim])
    ok, info = vlib.validate_trace("Trace_Sandbox", "Trace_Sandbox", path, tag="c18c")
    if ok or not info.get("reject", "").startswith("2,"):
        raise vlib.ToolError("self-check: a corrupted sandbox trace was not rejected at the corrupted run")
    run.note("selfcheck_corrupted_trace_rejected", True)


# ----------------------------------------------------------------------------

def design_leg(run, thorough):
    def clean(cfg, workers, to, **kw):
        r = vlib.tlc("MC_Sandbox", cfg, workers=workers, timeout=to, tag="c18d", xmx="12g", **kw)
        if r.invariant_violated or (not r.ok and not getattr(r, "timed_out", False) and "violated" in (r.error_text or "")):
            log(r.stdout[-3000:])
            raise vlib.ToolError("design model %s (repaired code) violates %s" % (cfg, r.invariant_violated or "a property"))
        vlib.require_ok(r, cfg)
        run.add_tlc(r, cfg)
        return r
    clean("MC_Sandbox_fixed5", 8, 1800)
    clean("MC_Sandbox_noview", 4, 600)
    r = clean("MC_Sandbox_live4" if thorough else "MC_Sandbox_live3", 8 if thorough else 4, 1800)
    if "Checking temporal properties" not in r.stdout:
        raise vlib.ToolError("liveness configuration did not check a temporal property")
    # the transcription of the code before the fix must run into the wedge
    r = vlib.tlc("MC_Sandbox", "MC_Sandbox_unfixed", workers=2, timeout=300, tag="c18u")
    if r.invariant_violated not in ("OwnReply", "Isolation"):
        log(r.stdout[-2000:])
        raise vlib.ToolError("sanity: the unrepaired model (no break_out after a Panic reply) should violate OwnReply/Isolation")
    wedge = "taskAlive = FALSE" in r.stdout
    run.note("sanity_unfixed_model", "%s violated as expected (%d states; counterexample %s)" % (
        r.invariant_violated, r.distinct, "reaches the EPIPE wedge" if wedge else "ends with Crashed for a later request"))


def generate(run, thorough):
    cfgs = ["MC_Sandbox_gen4", "MC_Sandbox_gen5u"] if thorough else ["MC_Sandbox_gen3"]
    cases = {}
    for cfg in cfgs:
        r = vlib.tlc("MC_Sandbox", cfg, workers=8, timeout=2400, coverage=True, tag="c18g", xmx="12g")
        vlib.require_ok(r, cfg)
        run.add_tlc(r, cfg)
        never = [a for a, (d, t) in r.coverage.items() if t == 0 and a not in WEDGE_ACTIONS]
        if never or len(r.coverage) < 20:
            raise vlib.ToolError("vacuity gate: actions never taken in %s: %s (coverage lines: %d)" % (cfg, never, len(r.coverage)))
        for c in vlib.tagged_json(r, "REPLAY"):
            key = (tuple(c["plan"]), tuple(c["gaps"]))
            if key in cases:
                if cases[key]["expect"] != c["expect"] or cases[key]["gens"] != c["gens"]:
                    raise vlib.ToolError("generator: two behaviours of one case disagree on expect/gens: %s" % (key,))
                continue
            if c["model"] != [e[0] for e in c["expect"]]:
                raise vlib.ToolError("generator: the repaired model's own replies are not the admissible ones: %s" % c)
            c["mode"] = "async"
            cases[key] = c
    out = [cases[k] for k in sorted(cases, key=lambda k: (len(k[0]), k))]
    # the same gaps spent blocking the executor thread (as a REPL waiting for input does): short sequences only
    lim = 3 if thorough else 2
    out += [dict(c, mode="block") for c in list(out) if len(c["plan"]) <= lim and any(c["gaps"])]
    if not out:
        raise vlib.ToolError("generator printed no cases")
    return out


CLI_KINDS = {"ok": None, "overrun": "1e999999999", "oom": "2^300000000", "big": "units for length"}


def cli_leg(run, cases, thorough):
    """Every TLC-generated fault sequence over {ok, overrun, oom, big} (length <= 3; all gaps 0) typed into the real rink
    binary running its sandboxed REPL: one answer per line, in order, own result or an error naming what happened, and
    every later request answered normally."""
    import concurrent.futures as cf
    import shutil
    import subprocess
    from engines import c20
    c20.build_cli()
    plans = sorted(set(tuple(c["plan"]) for c in cases if len(c["plan"]) <= 3 and all(k in CLI_KINDS for k in c["plan"])))
    root = vlib.workfile("c18-cli")
    shutil.rmtree(root, ignore_errors=True)

    def one(item):
        n, plan = item
        d = os.path.join(root, "s%d" % n)
        os.makedirs(os.path.join(d, "cfg", "rink"))
        os.makedirs(os.path.join(d, "cwd"))
        open(os.path.join(d, "cfg", "rink", "config.toml"), "w").write(
            '[currency]\nenabled = false\n[limits]\nenabled = true\nshow_metrics = false\nmemory = "60MB"\ntimeout = "2500ms"\n')
        lines = []
        for i, k in enumerate(plan):
            lines.append(CLI_KINDS[k] or "%d + %d" % (1000 + i, 7 * n + i))
        lines.append("40 + 2")          # a final normal request after whatever happened
        env = vlib.child_env({"XDG_CONFIG_HOME": os.path.join(d, "cfg"), "XDG_CACHE_HOME": os.path.join(d, "cache"),
                              "XDG_DATA_HOME": os.path.join(d, "data"), "HOME": d})
        try:
            p = subprocess.run([c20.RINK], input="\n".join(lines) + "\nquit\n", cwd=os.path.join(d, "cwd"), env=env,
                               stdout=subprocess.PIPE, stderr=subprocess.DEVNULL, text=True, timeout=120)
            out = [ln for ln in p.stdout.splitlines() if ln.strip()]
            rc = p.returncode
        except subprocess.TimeoutExpired:
            out, rc = ["<the REPL did not finish within 120 s>"], -9
        return plan, lines, out, rc

    with cf.ThreadPoolExecutor(max_workers=8) as ex:
        results = list(ex.map(one, enumerate(plans)))
    nbad = 0
    for plan, lines, out, rc in results:
        run.count()
        if any(k != "ok" for k in plan):
            run.nontrivial(("cli",) + plan)
        want = []
        for i, k in enumerate(plan):
            if k == "ok":
                a, b = lines[i].split(" + ")
                want.append(("ok", [str(int(a) + int(b))]))
            elif k == "overrun":
                want.append(("timeout", ["timed out", "timeout", "time limit"]))      # wording is free, the cause must be named
            elif k == "oom":
                want.append(("crashed", ["crash", "memory", "killed", "abort"]))
            else:
                want.append(("big", ["meter", "units for"]))
        want.append(("ok", ["42"]))
        # one answer per request, in order: find each expected answer after the previous one
        pos, okk = 0, True
        for cls, needles in want:
            hit = next((j for j in range(pos, len(out)) if any(n in out[j].lower() for n in needles)
                        and (cls != "ok" or not any(w in out[j].lower() for w in ("crash", "timed out", "error")))), None)
            if hit is None:
                okk = False
                break
            pos = hit + 1
        if not okk or rc != 0:
            nbad += 1
            run.violation({"engine": "cli-sandbox", "plan": list(plan), "lines": lines, "rc": rc},
                          {"answers_in_order": [w[0] + ": " + "|".join(w[1]) for w in want]}, {"stdout": out[-12:]}, "cli-sandbox")
    shutil.rmtree(root, ignore_errors=True)
    run.note("cli_sequences", len(plans))
    if plans:
        run.sample({"leg": "E", "typed": results[len(results) // 2][1], "printed": results[len(results) // 2][2][-6:]})
    log("[C18] E: %d fault sequences typed into the sandboxed rink REPL, %d with wrong answers" % (len(plans), nbad))


def cleanup():
    import glob
    for f in glob.glob(os.path.join(vlib.WORK, "c18-%d-*" % os.getpid())):
        try:
            os.remove(f)
        except OSError:
            pass


def run(tier, seed):
    try:
        return run_(tier, seed)
    finally:
        cleanup()


def run_(tier, seed):
    run = vlib.Run(PROP, tier, seed, "model_checking")
    thorough = tier == "thorough"
    run.cov["rule"] = (
        "D: TLC explores Sandbox.tla exhaustively for every fault sequence over {ok, panic, overrun, oom, exit, big} up to length "
        "%d with gap 0 / long before every request. G: every (sequence, gap vector) printed by TLC%s is run through the real "
        "Sandbox::execute (timeout %d ms, memory limit %d MiB, big payload 200000 bytes, gaps 0/60 ms; short sequences also with "
        "blocking gaps) and each reply compared with the set of classes the property admits; a mismatch is re-run alone before "
        "it is believed. Non-trivial = the sequence contains a fault followed by a later request; distinct by fault sequence. "
        "V: the hook/call/ret event sequence of every conforming run is validated by Trace_Sandbox.tla (distinct sequences)."
        % (5,
           " (length <= 4 with every gap vector, length 5 with all gaps 0 and all gaps 60 ms)" if thorough else " (length <= 3, every gap vector)",
           TIMEOUT_MS, LIMIT >> 20))
    run.assumptions += [
        "the timer fires only for a handler that really outlives the limit (generous limits; a mismatch is re-run alone)",
        "Ctrl-C (Error::Interrupted) is outside the property's quantifier and not modelled",
        "pipe capacity 2 chunks / big frame 3 chunks stand for 64 KiB / 200000 bytes",
        "harness trusted for: the test service, process control, comparing an echoed payload with the one sent, classifying Error variants",
    ]
    vlib.build_harness(bins=["rv-sandbox"])

    design_leg(run, thorough)
    cases = generate(run, thorough)
    log("[C18] %d cases generated" % len(cases))

    obs = run_cases(cases, JOBS, "cases")
    good, bad = [], []
    for c, o in zip(cases, obs):
        run.count()
        plan = c["plan"]
        if any(k in FAULTS for k in plan[:-1]):
            run.nontrivial(tuple(plan))
        b = judge(c, o)
        if b is None:
            good.append((c, o))
        else:
            bad.append((c, o, b))
    run.sample({"leg": "G", "case": {k: cases[len(cases) // 2][k] for k in ("plan", "gaps", "expect", "mode")},
                "observed": brief(obs[len(cases) // 2])})
    run.note("cases_replayed", len(cases))
    run.cov["exhaustive"] = True

    # ---- mismatches: re-run alone before believing them
    if bad:
        log("[C18] %d of %d cases have a reply outside the admissible set; re-running representatives alone" % (len(bad), len(cases)))
        per_sig = {}
        for c, o, b in sorted(bad, key=lambda x: (len(x[0]["plan"]), x[0]["plan"])):
            per_sig.setdefault(signature(c, b), []).append((c, o, b))
        chosen = []
        for sig, lst in per_sig.items():
            chosen += lst[:3]
        chosen = chosen[:36]
        unrepro = 0
        for attempt in (1, 2):
            if not chosen:
                break
            again = run_cases([c for c, _, _ in chosen], 1, "retry%d" % attempt)
            still = []
            for (c, o, b), o2 in zip(chosen, again):
                b2 = judge(c, o2)
                if b2 is not None:
                    run.violation(violation_case(c, o2, b2),
                                  {"admissible": c["expect"], "note": "per request: the set of reply classes the property allows"},
                                  {"first_run": brief(o), "alone": brief(o2)}, "sandbox-replay")
                else:
                    still.append((c, o, b))
            chosen = still
        unrepro = len(chosen)
        run.note("mismatching_cases", len(bad))
        if unrepro:
            run.note("mismatches_not_reproduced_alone", [
                {"plan": c["plan"], "gaps": c["gaps"], "under_load": brief(o)} for c, o, b in chosen[:10]])
            log("[C18] %d mismatches under load did not reproduce when re-run alone twice (not believed)" % unrepro)

    # ---- respawn pattern vs transcription (drift level): equal pids <=> equal child generation
    ndrift = 0
    for c, o in good:
        oks = [(i, r["pid"]) for i, r in enumerate(o["replies"]) if r["class"] == "ok"]
        for (i, p1) in oks:
            for (j, p2) in oks:
                if i < j and ((p1 == p2) != (c["gens"][i] == c["gens"][j])):
                    ndrift += 1
    if ndrift:
        run.drift_note("Sandbox", "%d reply pairs: same/different child pid disagrees with the transcription's respawn pattern" % ndrift)

    # ---- E: the same fault sequences end to end through the real `rink` REPL with [limits] enabled
    #      (cli/src/repl.rs + cli/src/service.rs: RinkService holds a mutex during handle; GLOBAL allocator limit)
    cli_leg(run, cases, thorough)

    # ---- V: trace validation of the conforming runs
    if good:
        try:
            trace_leg(run, good, thorough)
        except vlib.ToolError as e:
            if not run.violations:
                raise
            log("[C18] trace leg not completed on a tree with violations: %s" % e)   # the verdict stands
    return run.finish()


def replay(path, seed):
    body = json.load(open(path))
    case = body["case"]
    run = vlib.Run(PROP, "quick", seed, "model_checking")
    vlib.build_harness(bins=["rv-sandbox"])
    if case.get("engine") != "sandbox-replay":
        return 2
    adm = (body.get("spec_allows") or {}).get("admissible")
    if not adm:
        table = {"ok": ["Ok"], "big": ["Ok"], "panic": ["Panic"], "overrun": ["Timeout"], "oom": ["Crashed"], "exit": ["Crashed"]}
        adm = [table[k] for k in case["plan"]]
    c = {"plan": case["plan"], "gaps": case["gaps"], "mode": case.get("mode", "async"), "expect": adm}
    rc = 0
    for n in range(3):
        o = run_cases([c], 1, "replay")[0]
        b = judge(c, o)
        log("run %d: %s -> %s" % (n + 1, brief(o), "admissible" if b is None else "VIOLATED: " + b[2]))
        if b is not None:
            rc = 1
    log("recorded : %s" % json.dumps(case.get("observed")))
    cleanup()
    return rc
