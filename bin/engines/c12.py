"""C12 - definition order does not matter.

Legs (DESIGN.md section 4, C12):
  D  design: TLC on Loader.tla (the resolver of load.rs as a state machine) over a universe of definitions
     engineered for prefix / plural collisions: every uniquely named set, every order, every split into files;
     OrderIndependent (the database of every order equals the canonical order's), TopoOrder, CycleReported,
     TemporariesEmpty, Progress (a decreasing measure) and <>Done.
  G  the same sets x orders x splits, rendered as definitions.units text (one self-contained text per item,
     files = concatenations, parsed lists concatenated as cli/src/config.rs does), are loaded by the real
     code: all dumps of one set must be equal (else VIOLATION) and equal to the model's database (else DRIFT).
  V  the bundled database (and the currency overlay on top of it): the parsed definition list in identity,
     reversed, rotated, dependency-reversed and seeded random orders, each also split into 2 and 3 lists;
     canonical registry dumps must be byte-equal.
  T  every group of loads is a line of a trace validated by Trace_Order.tla (the database is a function of
     the set); one corrupted trace must be rejected.
"""
import collections
import json
import os

import loaderkit as lk
import vlib
from vlib import log

PROP = "C12"


def order_trace(run, events, tag):
    """Validate load groups with Trace_Order (sharded at set boundaries). Returns list of rejected events."""
    rejected = []
    shards = []
    cur = []
    last = None
    for e in events:
        if len(cur) >= 1200 and e["set"] != last:
            shards.append(cur)
            cur = []
        cur.append(e)
        last = e["set"]
    if cur:
        shards.append(cur)
    for i, sh in enumerate(shards):
        path = vlib.workfile("c12-%s-%d.ndjson" % (tag, i))
        rest = sh
        while rest:
            vlib.write_ndjson(path, rest)
            ok, info = vlib.validate_trace("Trace_Order", "Trace_Order", path, timeout=900, tag="c12t")
            run.cov["states"] += info["distinct"]
            run.cov["transitions"] += info["generated"]
            if ok:
                run.traces(len(rest))
                break
            idx = int(info["reject"].split(",")[0])
            rejected.append(rest[idx - 1])
            run.traces(idx - 1)
            # continue after the rejected line with the lines of other sets
            bad = rest[idx - 1]["set"]
            rest = [e for e in rest[idx:] if e["set"] != bad]
            if len(rejected) > 20:
                break
    return rejected


def leg_design(run, thorough):
    r = vlib.tlc("MC_Loader", "MC_Loader_q", workers=4, timeout=900, tag="c12d")
    if r.invariant_violated or not r.ok:
        log(r.stdout[-3000:])
        raise vlib.ToolError("design model MC_Loader_q does not satisfy its properties (%s)" % r.invariant_violated)
    run.add_tlc(r, "MC_Loader_q (invariants, Progress, <>Done)")
    # non-vacuity of TopoOrder: the strict variant (no exclusion for long names of base units) must fail
    r = vlib.tlc("MC_Loader", "MC_Loader_longname", workers=1, timeout=300, tag="c12s")
    if r.invariant_violated != "TopoOrderStrict":
        raise vlib.ToolError("sanity: MC_Loader_longname should violate TopoOrderStrict (got %s)" % r.invariant_violated)
    run.note("sanity_strict_topo_order", "TopoOrderStrict violated as expected: a unit mentioning a base unit by its long name "
             "is emitted first when its own name sorts first (design weakness, independent of the input order)")


def leg_generated(run, thorough):
    ev = leg_generated_cfg(run, thorough, "MC_Loader_gen5" if thorough else "MC_Loader_gen4", True, "g")
    # a second universe: a reference with two prefix + unit readings (d- / da-, am / m, `dam`)
    ev += leg_generated_cfg(run, thorough, "MC_Loader_amb", False, "a")
    return ev


def leg_generated_cfg(run, thorough, cfg, with_gate, pfx):
    # (no -coverage here: TLC's cost accounting of the recursive operators exhausts the heap; the vacuity gate
    # below looks at what the behaviours did instead)
    r = vlib.tlc("MC_Loader", cfg, workers=8 if thorough else 6, timeout=3000, tag="c12g", xmx="24g" if thorough else "8g")
    if r.invariant_violated:
        log(r.stdout[-3000:])
        raise vlib.ToolError("generator model %s violates %s" % (cfg, r.invariant_violated))
    vlib.require_ok(r, cfg)
    run.add_tlc(r, cfg)
    pool, cases, dbs = lk.parse_loader_gen(r)
    if not cases or not dbs:
        raise vlib.ToolError("generator printed no cases")
    ambig = sum(1 for ln in r.stdout.splitlines() if ln.startswith('<<"AMBIG"'))
    texts = [lk.item_text(it) for it in pool]
    groups = collections.defaultdict(list)
    for c in cases:
        groups[tuple(sorted(i for f in c for i in f))].append(c)
    model = {}
    for db in dbs:
        model[frozenset(lk.def_key(d) for d in db["set"])] = db
    # vacuity gate: the explored behaviours must contain reported cycles, dependencies emitted ahead of their turn
    # (DepStep / nested VisitEnter), failed and successful evaluations of every kind of definition
    def emitted_early(db):
        ids = [(x["ns"], x["name"]) for x in db["sorted"]]
        return ids != sorted(ids)
    gate = {
        "cycle_reported": sum(1 for db in dbs if any(e["k"] == "cycle" for e in db["errors"])),
        "dependency_emitted_early": sum(1 for db in dbs if emitted_early(db)),
        "evaluation_failed": sum(1 for db in dbs if any(e["k"] in ("malformed", "prefix", "quantity", "subst") for e in db["errors"])),
        "unit_via_prefix_or_plural": sum(1 for db in dbs if any(lk.s(u["name"]) in ("x", "y", "z") for u in db["units"])),
        "substance_loaded": sum(1 for db in dbs if db["subst"]),
        "quantity_loaded": sum(1 for db in dbs if db["quants"]),
        "doc_conflict": sum(1 for db in dbs if any(e["k"] == "docconflict" for e in db["errors"])),
    }
    empty = [k for k, v in gate.items() if v == 0] if with_gate else []
    if empty:
        raise vlib.ToolError("vacuity gate: the generated behaviours never show: %s" % empty)
    if with_gate:
        run.note("vacuity_gate", gate)
    keys = sorted(groups)
    jobs = []
    for gi, key in enumerate(keys):
        idx = {it: j for j, it in enumerate(key)}
        jobs.append({"id": gi, "texts": [texts[i - 1] for i in key],
                     "cases": [[[idx[i] for i in f] for f in c] for c in groups[key]]})
    log("[C12] G: %d sets, %d orders x splits, %d model databases (%d ambiguous-reading sets where the fixed point fails)" % (
        len(keys), len(cases), len(dbs), ambig))
    res = lk.run_load("gen", jobs, shards=12 if thorough else 8, tag="c12g" + pfx)
    events = []
    ndrift = nsilent = nloads = 0
    cyc_sets = err_sets = 0
    for gi, (key, rr, job) in enumerate(zip(keys, res, jobs)):
        run.count(len(job["cases"]))
        nloads += len(job["cases"])
        items = [texts[i - 1] for i in key]
        if "crash" in rr:
            run.violation({"engine": "gen", "kind": "crash", "crash": rr["crash"], "texts": items, "cases": job["cases"][:50]},
                          "loading terminates with a database, whatever the order", {k: rr.get(k) for k in ("crash", "msg", "signal")}, "gen")
            events.append({"ev": "crash", "set": "%s%d" % (pfx, gi), "loads": len(job["cases"]), "digest": []})
            continue
        for cr in rr["crashes"][:3]:
            run.violation({"engine": "gen", "kind": "panic", "texts": items, "cases": [cr["files"]], "msg": cr.get("msg")},
                          "loading terminates with a database, whatever the order", cr, "gen")
        for g in rr["groups"]:
            events.append({"ev": "loads", "set": "%s%d" % (pfx, gi), "loads": g["loads"], "digest": g["digest"]})
        if rr["dump"] is None:
            continue        # every order panicked (reported above): there is no database to compare
        if len(key) > 1:
            run.nontrivial(pfx + ":" + ",".join(map(str, key)))
        if rr["diffs"]:
            d = rr["diffs"][0]
            run.violation({"engine": "gen", "kind": "order-dependent", "texts": items, "cases": [job["cases"][0], d.get("files")],
                           "diff": d.get("diff")},
                          "one database for every order and split of the set", {"diff": d.get("diff"), "orders_differing": len(rr["diffs"])}, "gen")
            continue
        defs = frozenset(lk.def_key(d) for i in key for d in pool[i - 1])
        m = model.get(defs)
        if m is None:
            raise vlib.ToolError("no model database for item set %s" % (key,))
        if m["silent"]:
            nsilent += 1
            continue
        a = lk.norm_model(m)
        b = lk.norm_code(rr["dump"])
        if any(e[0] == "cycle" for e in b["errors"]):
            cyc_sets += 1
        if b["errors"]:
            err_sets += 1
        d = lk.first_diff(a, b)
        if d:
            ndrift += 1
            if ndrift <= 5:
                run.drift_note("Loader", "set %s: %s" % ([t.strip() for t in items], d[:300]))
    run.note("generated_sets_" + cfg, {"sets": len(keys), "loads": nloads, "model_silent": nsilent, "drift": ndrift,
                                "sets_with_load_errors": err_sets, "sets_with_cycle_reports": cyc_sets,
                                "ambiguous_reading_sets_failing_fixed_point": ambig})
    mid = keys[len(keys) // 2]
    run.sample({"leg": "G", "set": [texts[i - 1] for i in mid], "orders_x_splits": len(groups[mid])})
    return events


def leg_bundled(run, thorough, seed):
    events = []
    for ctx, n in (("bundled", 40 if thorough else 3), ("currency", 10 if thorough else 3)):
        outp = vlib.workfile("c12-perm-%s.ndjson" % ctx)
        dumpdir = os.path.join(vlib.WORK, "c12-dumps")
        vlib.run_tool([lk.rv_load(), "perm", "--ctx", ctx, "--n", str(n), "--seed", str(seed), "--out", outp,
                       "--dumpdir", dumpdir], timeout=3000)
        res = vlib.read_ndjson(outp)
        ref = None
        for r in res:
            run.count()
            case = {"engine": "perm", "ctx": ctx, "perm": r.get("perm"), "arg": r.get("arg"), "k": r.get("k")}
            if "crash" in r:
                run.violation(dict(case, kind="crash", crash=r["crash"]), "loading terminates with a database, whatever the order",
                              {k: r.get(k) for k in ("crash", "msg", "signal")}, "perm")
                events.append({"ev": "crash", "set": ctx, "loads": 1, "digest": []})
                continue
            if r["perm"] == "original":
                if not r["equal"]:
                    raise vlib.ToolError("the uniquely named reduction of the %s list does not load to the same database as the full list" % ctx)
                run.note("reopened_categories_%s" % ctx, r.get("dropped"))
                continue
            if r["perm"] == "identity" and r["k"] == 1:
                ref = r["digest"]
            if r.get("moved", 0) > 0:
                run.nontrivial("%s:%s:%s:%s" % (ctx, r["perm"], r["arg"], r["k"]))
            events.append({"ev": "loads", "set": ctx, "loads": 1, "digest": r["digest"]})
            if not r["equal"]:
                run.violation(dict(case, kind="order-dependent", diff=r.get("diff")),
                              "the registry dump of the identity order (byte-equal)", {"diff": r.get("diff"), "dump": r.get("dump")}, "perm")
        run.sample({"leg": "V", "ctx": ctx, "loads": len(res), "definitions": res[-1].get("n"), "identity_digest": ref})
        log("[C12] V %s: %d loads of %s definitions" % (ctx, len(res), res[-1].get("n")))
    return events


USER_DEFS = ["verifa 3 m", "verifb 2 verifa", "verifq- 1000", "verifc verifqverifb / 7", "verifd verifc verifa",
             "verife 1|3 verifd s", "verifr ? length^7 / time^3", "veriff verifqverifa^2 / verife"]
CLI_QUERIES = ["verifa", "1 verifb -> m", "1 verifc -> m", "1 verifd -> m^2", "1 verife -> m^2 s", "1 veriff -> 1/s",
               "1 verifqverifd -> verifd", "verifr", "3 verifbs + 1 verifa -> m"]


def leg_cli(run, thorough, seed):
    """the same user definitions spread over ./definitions.units and <config dir>/rink/definitions.units in every way
    (cli/src/config.rs concatenates the parsed lists): the real `rink` binary must answer alike for every split"""
    import hashlib
    import random
    import shutil
    import subprocess
    from engines import c20
    c20.build_cli()
    rng = random.Random(seed)
    n = len(USER_DEFS)
    masks = list(range(2 ** n))
    if not thorough:
        masks = [0, 2 ** n - 1] + rng.sample(masks[1:-1], 22)
    root = vlib.workfile("c12-cli")
    shutil.rmtree(root, ignore_errors=True)
    events = []
    results = []
    for mask in masks:
        d = os.path.join(root, "m%d" % mask)
        cfg = os.path.join(d, "cfg", "rink")
        cwd = os.path.join(d, "cwd")
        os.makedirs(cfg)
        os.makedirs(cwd)
        here = [USER_DEFS[i] for i in range(n) if mask >> i & 1]
        there = [USER_DEFS[i] for i in range(n) if not mask >> i & 1]
        rng.shuffle(here)
        rng.shuffle(there)
        if here:
            open(os.path.join(cwd, "definitions.units"), "w").write("\n".join(here) + "\n")
        if there:
            open(os.path.join(cfg, "definitions.units"), "w").write("\n".join(there) + "\n")
        open(os.path.join(cfg, "config.toml"), "w").write("[currency]\nenabled = false\n")
        env = vlib.child_env({"XDG_CONFIG_HOME": os.path.join(d, "cfg"), "XDG_CACHE_HOME": os.path.join(d, "cache"),
                              "XDG_DATA_HOME": os.path.join(d, "data"), "HOME": d})
        outs = []
        for q in CLI_QUERIES:
            p = subprocess.run([c20.RINK, q], cwd=cwd, env=env, stdout=subprocess.PIPE, stderr=subprocess.STDOUT, text=True, timeout=120)
            outs.append("%d|%s" % (p.returncode, p.stdout.strip()))
        text = "\n".join(outs)
        dg = list(hashlib.sha256(text.encode()).digest()[:6])
        run.count()
        run.nontrivial("cli:%d" % mask)
        events.append({"ev": "loads", "set": "cli-user-files", "loads": 1, "digest": dg})
        results.append((mask, here, there, outs))
    # the reference is the answer most splits give; it must be a real answer (the definitions are valid)
    import collections
    cnt = collections.Counter("\n".join(o) for _, _, _, o in results)
    reftext = cnt.most_common(1)[0][0]
    refouts = reftext.split("\n")
    loaded = [o for _, _, _, o in results if o[0].startswith("0|") and "verifa" in o[0]]
    if not loaded:
        # is it the data or the splitting? the same definitions appended to the bundled file as ONE text, loaded by the library
        one = vlib.workfile("c12-onefile.units")
        open(one, "w").write(open(os.path.join(vlib.REPO, "core", "definitions.units")).read() + "\n" + "\n".join(USER_DEFS) + "\n")
        import evalkit
        r1 = evalkit.run_eval([{"qs": "1 verife -> m^2 s"}, {"qs": "verifr"}], ctx="file:" + one, tag="c12one")
        if all("crash" not in r and r["obs"]["t"] not in ("err",) for r in r1):
            run.violation({"engine": "cli-split", "kind": "no-split-loads", "answers": results[0][3][:2]},
                          "definitions that load as one text also load when spread over the bundled file, ./ and the config dir",
                          {"first_answer": results[0][3][0][:400]}, "cli-split")
            shutil.rmtree(root, ignore_errors=True)
            return events
        raise vlib.ToolError("CLI leg: no split loads the user definitions: %s" % results[0][3][:2])
    if not (refouts[0].startswith("0|") and "verifa" in refouts[0]):
        refouts = loaded[0]
        reftext = "\n".join(refouts)
    run.sample({"leg": "CLI", "answers": refouts[:4]})
    for mask, here, there, outs in results:
        if "\n".join(outs) != reftext:
            bad = [(q, a, b) for q, a, b in zip(CLI_QUERIES, refouts, outs) if a != b]
            run.violation({"engine": "cli-split", "mask": mask, "here": here, "there": there, "query": bad[0][0]},
                          "the same answers for every way of spreading the definitions over the two files",
                          {"expected": bad[0][1][:300], "observed": bad[0][2][:300]}, "cli-split")
    shutil.rmtree(root, ignore_errors=True)
    log("[C12] CLI: %d splits of %d user definitions over ./ and the config dir" % (len(masks), n))
    return events


def run(tier, seed):
    run = vlib.Run(PROP, tier, seed, "model_checking")
    thorough = tier == "thorough"
    run.cov["rule"] = ("G: every uniquely named subset (<= %d items) of a universe of definitions with prefix/plural collisions, every "
                       "order, every split into <= 3 files; non-trivial = distinct set of >= 2 items. V: the parsed bundled list "
                       "(and the currency overlay) in identity, reversed, 16 rotations, dependency-reversed and seeded random orders, "
                       "x 1..3 lists; non-trivial = a load in which at least one definition moved." % (5 if thorough else 4))
    run.assumptions += [
        "what is permuted is the parsed definition list (Defs.defs); `!category`, `??` and `!symbol` are positional in the text by design",
        "uniquely named: of a category id declared more than once in the shipped files only the last (effective) entry is kept",
        "harness trusted for: canonical JSON dump of the Registry maps, byte comparison, SipHash digests",
    ]
    import time
    vlib.build_harness()
    t0 = time.time()
    leg_design(run, thorough)
    t1 = time.time()
    events = leg_generated(run, thorough)
    t2 = time.time()
    events += leg_bundled(run, thorough, seed)
    events += leg_cli(run, thorough, seed)
    t3 = time.time()
    rejected = order_trace(run, events, "ord")
    log("[C12] wall: design %.0fs, generated %.0fs, bundled %.0fs, trace %.0fs" % (t1 - t0, t2 - t1, t3 - t2, time.time() - t3))
    for e in rejected:
        # every rejected line was already reported by the leg that produced it; make sure of it
        if not run.violations and not run.known_hits:
            run.violation({"engine": "trace", "event": e}, "one database per set (Trace_Order)", e, "trace")
    # the binding is not vacuous: a corrupted trace must be rejected
    bad = [dict(e) for e in events if e["ev"] == "loads" and e["set"] == "bundled"][:6]
    if len(bad) >= 2:
        bad[1] = dict(bad[1], digest=[(bad[1]["digest"][0] + 1) % 65536] + bad[1]["digest"][1:])
        p = vlib.workfile("c12-corrupt.ndjson")
        vlib.write_ndjson(p, bad)
        ok, _ = vlib.validate_trace("Trace_Order", "Trace_Order", p, tag="c12c")
        if ok:
            raise vlib.ToolError("self-check: a corrupted load trace was accepted by Trace_Order")
        run.note("selfcheck_corrupted_trace_rejected", True)
    return run.finish()


def replay(path, seed):
    body = json.load(open(path))
    case = body["case"]
    vlib.build_harness()
    if case.get("engine") == "gen":
        res = lk.run_load("gen", [{"id": 0, "texts": case["texts"], "cases": [c for c in case["cases"] if c]}], shards=1, tag="c12r")
        r = res[0]
        log("texts: %r" % case["texts"])
        log("distinct databases now: %s, panics: %s, crash: %s" % (len(r.get("groups", [])), r.get("crashes"), r.get("crash")))
        for d in r.get("diffs", [])[:2]:
            log("  differs: %s" % d.get("diff"))
        return 1 if ("crash" in r or r.get("crashes") or len(r.get("groups", [])) > 1) else 0
    if case.get("engine") == "perm":
        inp = vlib.workfile("c12r.ndjson")
        outp = vlib.workfile("c12r-out.ndjson")
        vlib.write_ndjson(inp, [{"perm": case["perm"], "arg": case["arg"], "k": case["k"], "cutseed": seed + case["arg"] * 3 + case["k"]}])
        vlib.run_tool([lk.rv_load(), "perm", "--ctx", case["ctx"], "--in", inp, "--out", outp,
                       "--dumpdir", os.path.join(vlib.WORK, "c12-dumps")], timeout=600)
        r = vlib.read_ndjson(outp)[0]
        log("now: %s" % json.dumps({k: r.get(k) for k in ("equal", "diff", "crash", "dump")}))
        return 0 if r.get("equal") else 1
    return 2
