"""C12 - definition order does not matter.

Legs (DESIGN.md section 4, C12):
  D  design: TLC on Loader.tla (the resolver of load.rs as a state machine) over a universe of definitions
     engineered for prefix / plural collisions: every uniquely named set, every order, every split into files;
     OrderIndependent (the database of every order equals the canonical order's), TopoOrder, CycleReported,
     TemporariesEmpty, Progress (a decreasing measure) and <>Done.
  G  the same sets x orders x splits, rendered as definitions.units text (one self-contained text per item,
     files = concatenations, parsed lists concatenated as cli/src/config.rs does), are loaded by the real
     code: all dumps of one set must be equal (else VIOLATION) and equal to the model's database (else DRIFT).
     Three universes: prefix / plural collisions (gen), a reference with two readings (amb), references that are
     not names (fwd: long names of base units, element symbols, chemical formulas, a `!symbol` line apart from
     its substance).  "Forward references resolve" (Loader.ForwardRefsResolve) on the code: every definition a
     load refused is loaded once more, alone, on top of the finished database - it must be refused again.
  V  the bundled database (and the currency overlay on top of it): the parsed definition list in identity,
     reversed, rotated, dependency-reversed and seeded random orders, each also split into 2 and 3 lists;
     canonical registry dumps must be byte-equal.  Plus the list extended by a copy of every unit and substance
     definition under a fresh name that sorts before / after every other name: every copy must mean what its
     original means (a name's place in the alphabet, which is the resolver's order, must not matter).
  T  every group of loads is a line of a trace validated by Trace_Order.tla (the database is a function of
     the set); one corrupted trace must be rejected.
"""
import collections
import json
import os

import loaderkit as lk
import vlib
from vlib import log

PROP = "C12"


def order_trace(run, events, tag):
    """Validate load groups with Trace_Order (sharded at set boundaries). Returns list of rejected events."""
    rejected = []
    shards = []
    cur = []
    last = None
    for e in events:
        if len(cur) >= 1200 and e["set"] != last:
            shards.append(cur)
            cur = []
        cur.append(e)
        last = e["set"]
    if cur:
        shards.append(cur)
    for i, sh in enumerate(shards):
        path = vlib.workfile("c12-%s-%d.ndjson" % (tag, i))
        rest = sh
        while rest:
            vlib.write_ndjson(path, rest)
            ok, info = vlib.validate_trace("Trace_Order", "Trace_Order", path, timeout=900, tag="c12t")
            run.cov["states"] += info["distinct"]
            run.cov["transitions"] += info["generated"]
            if ok:
                run.traces(len(rest))
                break
            idx = int(info["reject"].split(",")[0])
            rejected.append(rest[idx - 1])
            run.traces(idx - 1)
            # continue after the rejected line with the lines of other sets
            bad = rest[idx - 1]["set"]
            rest = [e for e in rest[idx:] if e["set"] != bad]
            if len(rejected) > 20:
                break
    return rejected


def leg_design(run, thorough):
    r = vlib.tlc("MC_Loader", "MC_Loader_q", workers=4, timeout=900, tag="c12d")
    if r.invariant_violated or not r.ok:
        log(r.stdout[-3000:])
        raise vlib.ToolError("design model MC_Loader_q does not satisfy its properties (%s)" % r.invariant_violated)
    run.add_tlc(r, "MC_Loader_q (invariants, Progress, <>Done)")
    # non-vacuity of ForwardRefsResolve: the design without the resolver's link from a long name to its base unit
    # (rink-rs before 3701c96) and without the link from a formula to its elements (before 479bb55) must violate it
    for cfg, what in (("MC_Loader_longname", "LinkLongNames"), ("MC_Loader_noformula", "LinkFormulas")):
        r = vlib.tlc("MC_Loader", cfg, workers=1, timeout=300, tag="c12s")
        if r.invariant_violated != "ForwardRefsResolve":
            raise vlib.ToolError("sanity: %s (design without %s) should violate ForwardRefsResolve (got %s)" % (cfg, what, r.invariant_violated))
    run.note("sanity_forward_refs", "ForwardRefsResolve is violated, as it must be, by the design without LinkLongNames (a unit that "
             "mentions a base unit by its long name is emitted first when its own name sorts first) and without LinkFormulas")


def leg_generated(run, thorough):
    ev = leg_generated_cfg(run, thorough, "MC_Loader_gen5" if thorough else "MC_Loader_gen4", GATE_GEN, "g")
    # a second universe: a reference with two prefix + unit readings (d- / da-, am / m, `dam`)
    ev += leg_generated_cfg(run, thorough, "MC_Loader_amb", (), "a")
    # a third universe: references through long names of base units, element symbols and chemical formulas, from
    # names that sort before and after what they refer to; a `!symbol` line in another file than its substance
    ev += leg_generated_cfg(run, thorough, "MC_Loader_fwd5" if thorough else "MC_Loader_fwd", GATE_FWD, "f")
    return ev


GATE_GEN = ("cycle_reported", "dependency_emitted_early", "evaluation_failed", "unit_via_prefix_or_plural", "substance_loaded",
            "quantity_loaded", "doc_conflict")
GATE_FWD = ("dependency_emitted_early", "evaluation_failed", "substance_loaded", "symbol_registered", "formula_unit_loaded",
            "unit_via_long_name", "symbol_directive_apart")


def leg_generated_cfg(run, thorough, cfg, gate_names, pfx):
    # (no -coverage here: TLC's cost accounting of the recursive operators exhausts the heap; the vacuity gate
    # below looks at what the behaviours did instead)
    r = vlib.tlc("MC_Loader", cfg, workers=8 if thorough else 6, timeout=3000, tag="c12g", xmx="24g" if thorough else "8g")
    if r.invariant_violated:
        log(r.stdout[-3000:])
        raise vlib.ToolError("generator model %s violates %s" % (cfg, r.invariant_violated))
    vlib.require_ok(r, cfg)
    run.add_tlc(r, cfg)
    pool, cases, dbs = lk.parse_loader_gen(r)
    if not cases or not dbs:
        raise vlib.ToolError("generator printed no cases")
    ambig = sum(1 for ln in r.stdout.splitlines() if ln.startswith('<<"AMBIG"'))
    texts = [lk.item_text(it) for it in pool]
    has_dir = [any(d["kind"] == "symdir" for d in it) for it in pool]
    # one group of loads per set and - where the set has `!symbol` lines of their own - per way of placing them
    # in / outside the file of their substance (the groups of one set are compared with each other further down)
    groups = collections.defaultdict(list)
    for c in cases:
        key = tuple(sorted(i for f in c for i in f))
        sig = lk.symdir_signature(pool, c) if any(has_dir[i - 1] for i in key) else ()
        groups[(key, sig)].append(c)
    model = {}
    for db in dbs:
        model[frozenset(lk.def_key(d) for d in db["set"])] = db
    # vacuity gate: the explored behaviours must contain reported cycles, dependencies emitted ahead of their turn
    # (DepStep / nested VisitEnter), failed and successful evaluations of every kind of definition
    def emitted_early(db):
        ids = [(x["ns"], x["name"]) for x in db["sorted"]]
        return ids != sorted(ids)
    by_set = collections.defaultdict(set)
    for key, sig in groups:
        by_set[key].add(sig)
    gate = {
        "symbol_registered": sum(1 for db in dbs if db.get("symbols")),
        "formula_unit_loaded": sum(1 for db in dbs if db["silent"] and db.get("symbols")),
        "unit_via_long_name": sum(1 for db in dbs if any(lk.s(u["name"]) in ("a", "ac") for u in db["units"])),
        "symbol_directive_apart": sum(1 for sigs in by_set.values() if len(sigs) > 1),
        "cycle_reported": sum(1 for db in dbs if any(e["k"] == "cycle" for e in db["errors"])),
        "dependency_emitted_early": sum(1 for db in dbs if emitted_early(db)),
        "evaluation_failed": sum(1 for db in dbs if any(e["k"] in ("malformed", "prefix", "quantity", "subst") for e in db["errors"])),
        "unit_via_prefix_or_plural": sum(1 for db in dbs if any(lk.s(u["name"]) in ("x", "y", "z") for u in db["units"])),
        "substance_loaded": sum(1 for db in dbs if db["subst"]),
        "quantity_loaded": sum(1 for db in dbs if db["quants"]),
        "doc_conflict": sum(1 for db in dbs if any(e["k"] == "docconflict" for e in db["errors"])),
    }
    empty = [k for k in gate_names if gate[k] == 0]
    if empty:
        raise vlib.ToolError("vacuity gate: the generated behaviours of %s never show: %s" % (cfg, empty))
    if gate_names:
        run.note("vacuity_gate_" + cfg, {k: gate[k] for k in gate_names})
    keys = sorted(groups)
    jobs = []
    for gi, (key, sig) in enumerate(keys):
        idx = {it: j for j, it in enumerate(key)}
        jobs.append({"id": gi, "texts": [texts[i - 1] for i in key],
                     "cases": [[[idx[i] for i in f] for f in c] for c in groups[(key, sig)]]})
    log("[C12] G %s: %d sets, %d orders x splits, %d model databases (%d ambiguous-reading sets where the fixed point fails)" % (
        cfg, len(by_set), len(cases), len(dbs), ambig))
    res = lk.run_load("gen", jobs, shards=12 if thorough else 8, tag="c12g" + pfx)
    events = []
    ndrift = nsilent = nloads = 0
    cyc_sets = err_sets = nrefused = namb_fwd = 0
    dump_of = {}
    for gi, ((key, sig), rr, job) in enumerate(zip(keys, res, jobs)):
        run.count(len(job["cases"]))
        nloads += len(job["cases"])
        items = [texts[i - 1] for i in key]
        if "crash" in rr:
            run.violation({"engine": "gen", "kind": "crash", "crash": rr["crash"], "texts": items, "cases": job["cases"][:50]},
                          "loading terminates with a database, whatever the order", {k: rr.get(k) for k in ("crash", "msg", "signal")}, "gen")
            events.append({"ev": "crash", "set": "%s%d" % (pfx, gi), "loads": len(job["cases"]), "digest": []})
            continue
        for cr in rr["crashes"][:3]:
            run.violation({"engine": "gen", "kind": "panic", "texts": items, "cases": [cr["files"]], "msg": cr.get("msg")},
                          "loading terminates with a database, whatever the order", cr, "gen")
        for g in rr["groups"]:
            events.append({"ev": "loads", "set": "%s%d" % (pfx, gi), "loads": g["loads"], "digest": g["digest"]})
        if rr["dump"] is None:
            continue        # every order panicked (reported above): there is no database to compare
        if len(key) > 1:
            run.nontrivial(pfx + ":" + ",".join(map(str, key)) + (":%s" % (sig,) if len(by_set[key]) > 1 else ""))
        dump_of[(key, sig)] = (rr["digest"], job["cases"][0])
        if rr["diffs"]:
            d = rr["diffs"][0]
            run.violation({"engine": "gen", "kind": "order-dependent", "texts": items, "cases": [job["cases"][0], d.get("files")],
                           "diff": d.get("diff")},
                          "one database for every order and split of the set", {"diff": d.get("diff"), "orders_differing": len(rr["diffs"])}, "gen")
            continue
        case0 = groups[(key, sig)][0]
        defs = frozenset(lk.def_key(d) for f in case0 for d in lk.parse_file_model([pool[i - 1] for i in f]))
        m = model.get(defs)
        if m is None:
            raise vlib.ToolError("no model database for item set %s" % (key,))
        # "forward references resolve" (Loader.ForwardRefsResolve on the code): what the load refused must be refused
        # again when it is loaded alone on top of the finished database
        refused = lk.refused(rr["dump"]["load"].get("msgs", []))
        again = set()
        for e in rr.get("reload") or []:
            if e.get("panic"):
                run.violation({"engine": "gen", "kind": "panic", "texts": items, "cases": [job["cases"][0]], "msg": "second load panicked"},
                              "loading terminates with a database, whatever the order", e, "gen")
            elif (e["ns"], e["name"]) in lk.refused(e["load"].get("msgs", [])):
                again.add((e["ns"], e["name"]))
        unresolved = sorted(refused - again)
        nrefused += len(refused)
        events.append({"ev": "reload", "set": "%s%d" % (pfx, gi), "refused": len(refused), "still": len(refused & again),
                       "amb": bool(m["ambiguous"])})
        if unresolved and m["ambiguous"]:
            namb_fwd += 1      # a reference with two readings: outside the scope of ForwardRefsScoped
        elif unresolved:
            run.violation({"engine": "gen", "kind": "forward-reference", "texts": items, "cases": [job["cases"][0]],
                           "refused": ["%d:%s" % u for u in unresolved]},
                          "forward references resolve: a definition is refused only if it is also refused when it is loaded after "
                          "everything else the set defines",
                          {"refused_by_the_load": [x for x in rr["dump"]["load"].get("msgs", []) if any(u[1] in x for u in unresolved)][:4],
                           "loads_alone_on_the_finished_database": ["%d:%s" % u for u in unresolved]}, "gen")
        if m["silent"]:
            nsilent += 1
            continue
        a = lk.norm_model(m)
        b = lk.norm_code(rr["dump"])
        if any(e[0] == "cycle" for e in b["errors"]):
            cyc_sets += 1
        if b["errors"]:
            err_sets += 1
        d = lk.first_diff(a, b)
        if d:
            ndrift += 1
            if ndrift <= 5:
                run.drift_note("Loader", "set %s: %s" % ([t.strip() for t in items], d[:300]))
    # a `!symbol` line names its substance: whether it is in the file of the substance or in another one must not matter
    napart = 0
    for key, sigs in by_set.items():
        if len(sigs) < 2:
            continue
        full = max(sigs, key=len)
        for sig in sorted(sigs):
            if sig == full or (key, sig) not in dump_of or (key, full) not in dump_of:
                continue
            if dump_of[(key, sig)][0] != dump_of[(key, full)][0]:
                napart += 1
                run.violation({"engine": "gen", "kind": "order-dependent", "family": "symbol-directive-apart",
                               "texts": [texts[i - 1] for i in key], "cases": [dump_of[(key, full)][1], dump_of[(key, sig)][1]],
                               "directives_apart": [list(x) for x in sorted(set(full) - set(sig))]},
                              "one database for every order and split of the set",
                              {"differs": "the loads in which the `!symbol` line is in another file than its substance"}, "gen")
    run.note("generated_sets_" + cfg, {"sets": len(by_set), "groups": len(keys), "loads": nloads, "model_silent": nsilent, "drift": ndrift,
                                "sets_with_load_errors": err_sets, "sets_with_cycle_reports": cyc_sets,
                                "ambiguous_reading_sets_failing_fixed_point": ambig,
                                "definitions_refused": nrefused, "ambiguous_reading_sets_with_unresolved_reference": namb_fwd,
                                "symbol_directive_apart_differs": napart})
    mid = keys[len(keys) // 2]
    run.sample({"leg": "G", "universe": cfg, "set": [texts[i - 1] for i in mid[0]], "orders_x_splits": len(groups[mid])})
    return events


def leg_bundled(run, thorough, seed):
    events = []
    for ctx, n in (("bundled", 40 if thorough else 3), ("currency", 10 if thorough else 3)):
        outp = vlib.workfile("c12-perm-%s.ndjson" % ctx)
        dumpdir = os.path.join(vlib.WORK, "c12-dumps")
        vlib.run_tool([lk.rv_load(), "perm", "--ctx", ctx, "--n", str(n), "--seed", str(seed), "--out", outp,
                       "--dumpdir", dumpdir], timeout=3000)
        res = vlib.read_ndjson(outp)
        ref = None
        ncopies = ncopyable = 0
        for r in res:
            run.count()
            case = {"engine": "perm", "ctx": ctx, "perm": r.get("perm"), "arg": r.get("arg"), "k": r.get("k")}
            if "crash" in r:
                run.violation(dict(case, kind="crash", crash=r["crash"]), "loading terminates with a database, whatever the order",
                              {k: r.get(k) for k in ("crash", "msg", "signal")}, "perm")
                events.append({"ev": "crash", "set": ctx, "loads": 1, "digest": []})
                continue
            if r["perm"] == "original":
                if not r["equal"]:
                    raise vlib.ToolError("the uniquely named reduction of the %s list does not load to the same database as the full list" % ctx)
                run.note("reopened_categories_%s" % ctx, r.get("dropped"))
                continue
            if r["perm"] == "clone":
                run.nontrivial("%s:copies:%s" % (ctx, r["arg"]))
                events.append({"ev": "copies", "set": r["set"], "copies": r["copies"], "agree": r["agree"]})
                if not r["equal"]:
                    run.violation(dict(case, kind="renamed-copy-differs", diff=r.get("diff")),
                                  "a copy of a definition under a fresh name (sorting %s every other name) means what the original means, "
                                  "and the load reports nothing new" % ("before" if r["arg"] == 0 else "after"),
                                  {"diff": r.get("diff"), "msgs": r.get("msgs")}, "perm")
                ncopies = r["copies"]
                ncopyable = r["copyable"]
                continue
            if r["perm"] == "identity" and r["k"] == 1:
                ref = r["digest"]
            if r.get("moved", 0) > 0:
                run.nontrivial("%s:%s:%s:%s" % (ctx, r["perm"], r["arg"], r["k"]))
            events.append({"ev": "loads", "set": ctx, "loads": 1, "digest": r["digest"]})
            if not r["equal"]:
                run.violation(dict(case, kind="order-dependent", diff=r.get("diff")),
                              "the registry dump of the identity order (byte-equal)", {"diff": r.get("diff"), "dump": r.get("dump")}, "perm")
        events += copies_one_by_one(run, thorough, seed, ctx, ncopyable)
        run.sample({"leg": "V", "ctx": ctx, "loads": len(res), "definitions": res[-1].get("n"), "identity_digest": ref,
                    "renamed_copies": ncopies})
        log("[C12] V %s: %d loads of %s definitions" % (ctx, len(res), res[-1].get("n")))
    return events


def copies_one_by_one(run, thorough, seed, ctx, ncopyable):
    """one load per definition: the list plus ONE renamed copy, sorting first (the resolver visits it before anything else
    has pulled its dependencies in) resp. last; all of them in the thorough tier, a seeded sample in the quick tier"""
    import concurrent.futures as cf
    import random
    rng = random.Random(seed * 7919 + len(ctx))
    idx = list(range(ncopyable))
    if not thorough and ctx == "bundled":
        idx = sorted(rng.sample(idx, min(len(idx), 240)))
    shards = 12 if thorough else 8
    jobs = []
    for arg in (0, 1):
        pick = idx if arg == 0 else idx[::4]        # sorting last: every dependency is visited first anyway
        per = min(40, max(1, (len(pick) + shards - 1) // shards))     # a job has a time limit: keep it to at most 40 loads
        jobs += [{"perm": "clone", "arg": arg, "k": 1, "idx": pick[i:i + per]} for i in range(0, len(pick), per)]

    def one(j):
        inp = vlib.workfile("c12-copy-%s-%d.ndjson" % (ctx, j))
        outp = vlib.workfile("c12-copy-%s-%d-out.ndjson" % (ctx, j))
        vlib.write_ndjson(inp, jobs[j::shards])
        vlib.run_tool([lk.rv_load(), "perm", "--ctx", ctx, "--in", inp, "--out", outp], timeout=3000)
        return vlib.read_ndjson(outp)

    with cf.ThreadPoolExecutor(max_workers=shards) as ex:
        res = [r for part in ex.map(one, range(min(shards, len(jobs)))) for r in part]
    events = []
    loads = 0
    for r in res:
        case = {"engine": "perm", "ctx": ctx, "perm": "clone", "arg": r.get("arg"), "k": 1}
        if "crash" in r:
            run.violation(dict(case, kind="crash", crash=r["crash"]), "loading terminates with a database, whatever the order",
                          {k: r.get(k) for k in ("crash", "msg", "signal")}, "perm")
            continue
        run.count(r["loads"])
        loads += r["loads"]
        events.append({"ev": "copies", "set": r["set"], "copies": r["copies"], "agree": r["agree"]})
        if not r["equal"]:
            bad = r["diff"]["copies_that_differ"]
            names = [b["copy_of"] for b in bad]
            run.violation(dict(case, kind="renamed-copy-differs", copy_of=names[:8], idx=r.get("idx"), diff=r.get("diff")),
                          "the list plus one copy of a definition under a fresh name (sorting %s every other name): the copy means what the "
                          "original means and the load reports nothing new" % ("before" if r["arg"] == 0 else "after"),
                          {"diff": r.get("diff")}, "perm")
    for i in idx[:2000]:
        run.nontrivial("%s:copy:%d" % (ctx, i))
    run.note("renamed_copies_one_per_load_%s" % ctx, {"definitions": len(idx), "of": ncopyable, "loads": loads})
    log("[C12] V %s: %d loads with one renamed copy each (%d of %d definitions)" % (ctx, loads, len(idx), ncopyable))
    return events


USER_DEFS = ["verifa 3 m", "verifb 2 verifa", "verifq- 1000", "verifc verifqverifb / 7", "verifd verifc verifa",
             "verife 1|3 verifd s", "verifr ? length^7 / time^3", "veriff verifqverifa^2 / verife"]
CLI_QUERIES = ["verifa", "1 verifb -> m", "1 verifc -> m", "1 verifd -> m^2", "1 verife -> m^2 s", "1 veriff -> 1/s",
               "1 verifqverifd -> verifd", "verifr", "3 verifbs + 1 verifa -> m",
               # definitions (with their documentation) and category listings: what a leak across a file boundary would change
               "verifb", "verifc", "verifd", "verife", "veriff", "units for m^2 s", "units for verifa"]
# how a user file may END: nothing after the last definition changes what the file defines
FILE_ENDINGS = {"tidy": "\n", "no-final-newline": "", "blank-lines": "\n\n\n", "open-category": "\n!category verifcat \"Verif Cat\"\n",
                "dangling-doc": "\n?? dangling documentation\n", "comment": "\n# the end", "open-category-no-newline": "\n!category verifcat \"Verif Cat\""}


def leg_cli(run, thorough, seed):
    """the same user definitions spread over ./definitions.units and <config dir>/rink/definitions.units in every way
    (cli/src/config.rs concatenates the parsed lists): the real `rink` binary must answer alike for every split"""
    import hashlib
    import random
    import shutil
    import subprocess
    from engines import c20
    c20.build_cli()
    rng = random.Random(seed)
    n = len(USER_DEFS)
    masks = list(range(2 ** n))
    if not thorough:
        masks = [0, 2 ** n - 1] + rng.sample(masks[1:-1], 22)
    root = vlib.workfile("c12-cli")
    shutil.rmtree(root, ignore_errors=True)
    events = []
    results = []
    for mask in masks:
        d = os.path.join(root, "m%d" % mask)
        cfg = os.path.join(d, "cfg", "rink")
        cwd = os.path.join(d, "cwd")
        os.makedirs(cfg)
        os.makedirs(cwd)
        here = [USER_DEFS[i] for i in range(n) if mask >> i & 1]
        there = [USER_DEFS[i] for i in range(n) if not mask >> i & 1]
        rng.shuffle(here)
        rng.shuffle(there)
        # the two plain splits end tidily; every other split draws an ending for each file
        e1, e2 = ("tidy", "tidy") if mask in (0, 2 ** n - 1) else (rng.choice(sorted(FILE_ENDINGS)), rng.choice(sorted(FILE_ENDINGS)))
        if here:
            open(os.path.join(cwd, "definitions.units"), "w").write("\n".join(here) + FILE_ENDINGS[e1])
        if there:
            open(os.path.join(cfg, "definitions.units"), "w").write("\n".join(there) + FILE_ENDINGS[e2])
        open(os.path.join(cfg, "config.toml"), "w").write("[currency]\nenabled = false\n")
        env = vlib.child_env({"XDG_CONFIG_HOME": os.path.join(d, "cfg"), "XDG_CACHE_HOME": os.path.join(d, "cache"),
                              "XDG_DATA_HOME": os.path.join(d, "data"), "HOME": d})
        outs = []
        for q in CLI_QUERIES:
            p = subprocess.run([c20.RINK, q], cwd=cwd, env=env, stdout=subprocess.PIPE, stderr=subprocess.STDOUT, text=True, timeout=120)
            outs.append("%d|%s" % (p.returncode, p.stdout.strip()))
        text = "\n".join(outs)
        dg = list(hashlib.sha256(text.encode()).digest()[:6])
        run.count()
        run.nontrivial("cli:%d" % mask)
        events.append({"ev": "loads", "set": "cli-user-files", "loads": 1, "digest": dg})
        results.append((mask, here + ["<ending: %s>" % e1], there + ["<ending: %s>" % e2], outs))
    # the reference is the answer most splits give; it must be a real answer (the definitions are valid)
    import collections
    cnt = collections.Counter("\n".join(o) for _, _, _, o in results)
    reftext = cnt.most_common(1)[0][0]
    refouts = reftext.split("\n")
    loaded = [o for _, _, _, o in results if o[0].startswith("0|") and "verifa" in o[0]]
    if not loaded:
        # is it the data or the splitting? the same definitions appended to the bundled file as ONE text, loaded by the library
        one = vlib.workfile("c12-onefile.units")
        open(one, "w").write(open(os.path.join(vlib.REPO, "core", "definitions.units")).read() + "\n" + "\n".join(USER_DEFS) + "\n")
        import evalkit
        r1 = evalkit.run_eval([{"qs": "1 verife -> m^2 s"}, {"qs": "verifr"}], ctx="file:" + one, tag="c12one")
        if all("crash" not in r and r["obs"]["t"] not in ("err",) for r in r1):
            run.violation({"engine": "cli-split", "kind": "no-split-loads", "answers": results[0][3][:2]},
                          "definitions that load as one text also load when spread over the bundled file, ./ and the config dir",
                          {"first_answer": results[0][3][0][:400]}, "cli-split")
            shutil.rmtree(root, ignore_errors=True)
            return events
        raise vlib.ToolError("CLI leg: no split loads the user definitions: %s" % results[0][3][:2])
    if not (refouts[0].startswith("0|") and "verifa" in refouts[0]):
        refouts = loaded[0]
        reftext = "\n".join(refouts)
    run.sample({"leg": "CLI", "answers": refouts[:4]})
    for mask, here, there, outs in results:
        if "\n".join(outs) != reftext:
            bad = [(q, a, b) for q, a, b in zip(CLI_QUERIES, refouts, outs) if a != b]
            run.violation({"engine": "cli-split", "mask": mask, "here": here, "there": there, "query": bad[0][0]},
                          "the same answers for every way of spreading the definitions over the two files",
                          {"expected": bad[0][1][:300], "observed": bad[0][2][:300]}, "cli-split")
    shutil.rmtree(root, ignore_errors=True)
    log("[C12] CLI: %d splits of %d user definitions over ./ and the config dir" % (len(masks), n))
    return events


def run(tier, seed):
    run = vlib.Run(PROP, tier, seed, "model_checking")
    thorough = tier == "thorough"
    run.cov["rule"] = ("G: every uniquely named subset (<= %d items) of a universe of definitions with prefix/plural collisions, every "
                       "order, every split into <= 3 files; non-trivial = distinct set of >= 2 items. V: the parsed bundled list "
                       "(and the currency overlay) in identity, reversed, 16 rotations, dependency-reversed and seeded random orders, "
                       "x 1..3 lists, and the list plus a renamed copy of every unit and substance definition (names sorting first / last); "
                       "non-trivial = a load in which at least one definition moved. Universes of G: gen, amb (two readings), fwd (long "
                       "names, symbols, formulas, `!symbol` lines)." % (5 if thorough else 4))
    run.assumptions += [
        "V: what is permuted is the parsed definition list (Defs.defs); `!category` and `??` are positional in the text by design. "
        "`!symbol` names its substance: G places the line in every file (known finding where that is another file than the substance's)",
        "forward references on the code: a definition the load refused is loaded again, alone, as a second load on the finished "
        "database (prefixes and quantities defined in terms of other prefixes / quantities are always refused there: load-local tables)",
        "uniquely named: of a category id declared more than once in the shipped files only the last (effective) entry is kept",
        "harness trusted for: canonical JSON dump of the Registry maps, byte comparison, SipHash digests",
    ]
    import time
    vlib.build_harness()
    t0 = time.time()
    leg_design(run, thorough)
    t1 = time.time()
    events = leg_generated(run, thorough)
    t2 = time.time()
    events += leg_bundled(run, thorough, seed)
    events += leg_cli(run, thorough, seed)
    t3 = time.time()
    rejected = order_trace(run, events, "ord")
    log("[C12] wall: design %.0fs, generated %.0fs, bundled %.0fs, trace %.0fs" % (t1 - t0, t2 - t1, t3 - t2, time.time() - t3))
    for e in rejected:
        # every rejected line was already reported by the leg that produced it; make sure of it
        if not run.violations and not run.known_hits:
            run.violation({"engine": "trace", "event": e}, "one database per set (Trace_Order)", e, "trace")
    # the binding is not vacuous: a corrupted trace must be rejected
    bad = [dict(e) for e in events if e["ev"] == "loads" and e["set"] == "bundled"][:6]
    if len(bad) >= 2:
        bad[1] = dict(bad[1], digest=[(bad[1]["digest"][0] + 1) % 65536] + bad[1]["digest"][1:])
        p = vlib.workfile("c12-corrupt.ndjson")
        vlib.write_ndjson(p, bad)
        ok, _ = vlib.validate_trace("Trace_Order", "Trace_Order", p, tag="c12c")
        if ok:
            raise vlib.ToolError("self-check: a corrupted load trace was accepted by Trace_Order")
        cp = [dict(e) for e in events if e["ev"] == "copies"][:1]
        if cp:
            cp[0]["agree"] -= 1
            vlib.write_ndjson(p, cp)
            ok, _ = vlib.validate_trace("Trace_Order", "Trace_Order", p, tag="c12c")
            if ok:
                raise vlib.ToolError("self-check: a trace with a renamed copy that differs was accepted by Trace_Order")
        run.note("selfcheck_corrupted_trace_rejected", True)
    return run.finish()


def replay(path, seed):
    body = json.load(open(path))
    case = body["case"]
    vlib.build_harness()
    if case.get("engine") == "gen":
        res = lk.run_load("gen", [{"id": 0, "texts": case["texts"], "cases": [c for c in case["cases"] if c]}], shards=1, tag="c12r")
        r = res[0]
        log("texts: %r" % case["texts"])
        log("distinct databases now: %s, panics: %s, crash: %s" % (len(r.get("groups", [])), r.get("crashes"), r.get("crash")))
        for d in r.get("diffs", [])[:2]:
            log("  differs: %s" % d.get("diff"))
        if case.get("kind") == "forward-reference" and r.get("dump"):
            refused = lk.refused(r["dump"]["load"].get("msgs", []))
            again = {(e["ns"], e["name"]) for e in r.get("reload") or [] if not e.get("panic")
                     and (e["ns"], e["name"]) in lk.refused(e["load"].get("msgs", []))}
            log("refused by the load: %s; refused again when loaded alone afterwards: %s" % (sorted(refused), sorted(again)))
            return 1 if refused - again else 0
        return 1 if ("crash" in r or r.get("crashes") or len(r.get("groups", [])) > 1) else 0
    if case.get("engine") == "perm":
        inp = vlib.workfile("c12r.ndjson")
        outp = vlib.workfile("c12r-out.ndjson")
        job = {"perm": case["perm"], "arg": case["arg"], "k": case["k"], "cutseed": seed + case["arg"] * 3 + case["k"]}
        if case.get("idx") is not None:
            job["idx"] = case["idx"]
        vlib.write_ndjson(inp, [job])
        vlib.run_tool([lk.rv_load(), "perm", "--ctx", case["ctx"], "--in", inp, "--out", outp,
                       "--dumpdir", os.path.join(vlib.WORK, "c12-dumps")], timeout=600)
        r = vlib.read_ndjson(outp)[0]
        log("now: %s" % json.dumps({k: r.get(k) for k in ("equal", "diff", "crash", "dump")}))
        return 0 if r.get("equal") else 1
    return 2
