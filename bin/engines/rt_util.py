def limbs_to_int(limbs):
    v = 0
    for x in reversed(limbs):
        v = v * 4096 + x
    return v
