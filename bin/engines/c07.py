"""C07 - unit names resolve exact first, then prefix, then plural; canonicalising keeps the denotation;
resolution is deterministic.

(G) spec -> code: MC_Names enumerates every small database (letters {a, b, s}, names of length <= 2, values distinct
    primes) together with the admissible denotations (Names.tla, relational) of every query string of length <= 4 and
    checks the theorems of Names.tla as invariants; every database is rendered as a definitions text, loaded by the real
    loader into a fresh Context, and every query string is resolved by the real Context::lookup (twice, and on a second
    fresh context) and Context::canonicalize.
(V) code -> spec: on the bundled database every `prefix + unit [+ s]` string and every plain name [+ s] is resolved by
    the real code; the judge specification Trace_Names decides every recorded (name, lookup, canonical name, lookup of
    the canonical name) against Resolve over the registry dump."""
import json
import random
import time

import evalkit
import regkit
import vlib
from regkit import cps_of, s_of
from vlib import log

PROP = "C07"
LETTERS = "abs"
MAXLEN = 4


def queries(maxlen=MAXLEN):
    out = []
    level = [""]
    for _ in range(maxlen):
        level = [w + c for w in level for c in LETTERS]
        out += level
    return out


def render_defs(case):
    lines = []
    for u in case["units"]:
        n = s_of(u["name"])
        lines.append("%s !" % n if u["k"] == "base" else "%s %d" % (n, u["v"]))
    for p in case["prefixes"]:
        lines.append("%s%s %d" % (s_of(p["name"]), "--" if p["k"] == "short" else "-", p["v"]))
    for a in case.get("alias", []):
        lines.append("%s %s" % (s_of(a["name"]), s_of(a["t"])))
    return "\n".join(lines) + "\n"


def limbs_int(mag):
    v = 0
    for i, x in enumerate(mag):
        v += x << (12 * i)
    return v


def flat(obs):
    """number_json of a small-universe value -> (int, base unit name or '') ; None when it has another shape"""
    if not obs or obs.get("t") != "num":
        return None
    q = obs["v"]
    if q["d"] != [1] or q["n"]["neg"]:
        return None
    d = obs["d"]
    if len(d) == 0:
        dn = ""
    elif len(d) == 1 and d[0]["e"] == 1:
        dn = s_of(d[0]["u"])
    else:
        return None
    return (limbs_int(q["n"]["mag"]), dn)


def intended_registry(case):
    base = sorted(s_of(u["name"]) for u in case["units"] if u["k"] == "base")
    units = {s_of(u["name"]): (u["v"], "") for u in case["units"] if u["k"] == "const"}
    units.update({s_of(p["name"]): (p["v"], "") for p in case["prefixes"] if p["k"] == "long"})
    units.update({s_of(a["name"]): (a["den"]["v"], s_of(a["den"]["d"])) for a in case.get("alias", [])})
    prefixes = sorted((s_of(p["name"]), p["v"]) for p in case["prefixes"])
    return base, units, prefixes


def observed_registry(reg):
    base = sorted(s_of(b) for b in reg["base"])
    units = {}
    for u in reg["units"]:
        units[s_of(u["name"])] = flat(u["val"])
    prefixes = []
    for p in reg["prefixes"]:
        v = p["v"]
        ok = "n" in v and v["d"] == [1] and not v["n"]["neg"]
        prefixes.append((s_of(p["name"]), limbs_int(v["n"]["mag"]) if ok else None))
    return base, units, sorted(prefixes, key=lambda t: (t[0], t[1] or 0))


def compare_db(case, res, qs, universe):
    """-> list of (name, what, detail) mismatches between the admissible sets TLC printed and what the code did"""
    adm = {s_of(h["name"]): {(a["v"], s_of(a["d"])) for a in h["adm"]} for h in case["hits"]}
    obs = {qs[h["i"]]: h for h in res["hits"]}
    bad = []
    for n in qs:
        o = obs.get(n)
        a = adm.get(n)
        got = flat(o["l"]) if o and o["l"] is not None else None
        if a is None:
            if o and o["l"] is not None:
                bad.append((n, "lookup", "the name denotes nothing, the code returned %s" % json.dumps(o["l"])))
        else:
            if o is None or o["l"] is None:
                bad.append((n, "lookup", "the code returned None; admissible: %s" % sorted(a)))
            elif got not in a:
                bad.append((n, "lookup", "the code returned %s; admissible: %s" % (got if got else json.dumps(o["l"]), sorted(a))))
        if o and not (o["again_same"] and o["fresh_same"]):
            bad.append((n, "determinism", "repeated lookup (same context: %s, fresh context: %s) differs" % (
                "same" if o["again_same"] else "differs", "same" if o["fresh_same"] else "differs")))
        if o and o["canon"] is not None and a is not None:
            c = s_of(o["canon"])
            if c in universe:
                ac = adm.get(c, set())
                if not (a & ac):
                    bad.append((n, "canon", "canonical name %r denotes %s, the name denotes %s" % (c, sorted(ac), sorted(a))))
            else:
                bad.append((n, "canon-outside", c))
    return bad


def leg_small(run, cfg, workers, shards, coverage=False, timeout=2400):
    t0 = time.time()
    r = vlib.tlc("MC_Names", cfg, workers=workers, timeout=timeout, coverage=coverage, tag="c07g", xmx="12g")
    vlib.require_ok(r, cfg)      # the theorems of Names.tla are invariants of this run
    run.add_tlc(r, cfg)
    if coverage:
        never = [a for a in ("AddUnit", "AddPrefix") if r.coverage.get(a, (0, 0))[1] == 0]
        if never:
            raise vlib.ToolError("vacuity gate: actions never taken in %s: %s" % (cfg, never))
    cases = vlib.tagged_json(r, "CASE")
    kinds_seen = {u["k"] for c in cases for u in c["units"]} | {p["k"] for c in cases for p in c["prefixes"]}
    if "alias" in cfg and not any(c.get("alias") for c in cases):
        raise vlib.ToolError("vacuity gate: %s generated no alias" % cfg)
    if kinds_seen != {"base", "const", "short", "long"}:
        raise vlib.ToolError("vacuity gate: %s generated only the kinds %s" % (cfg, sorted(kinds_seen)))
    if len(cases) != r.distinct:
        raise vlib.ToolError("%s: %d cases printed for %d databases" % (cfg, len(cases), r.distinct))
    qs = queries()
    universe = set(qs)
    jobs = [{"id": i, "defs": render_defs(c)} for i, c in enumerate(cases)]
    t1 = time.time()
    res = regkit.run_sharded(lambda i, o: [vlib.rv("rv-names"), "small", "--in", i, "--out", o], jobs, shards, "c07s",
                             header={"names": [cps_of(q) for q in qs]})
    t2 = time.time()
    notloaded = 0
    outside = 0
    nbad = 0
    for case, job, rs in zip(cases, jobs, res):
        if "crash" in rs:
            run.violation({"engine": "small", "defs": job["defs"], "name": None, "what": "crash"},
                          "every name resolves to an admissible denotation or to nothing", rs, "small")
            continue
        if rs["errors"] or intended_registry(case) != observed_registry(rs["reg"]):
            notloaded += 1
            if notloaded <= 3:
                run.drift_note("Loader", "definitions %r did not load into the intended registry: %s %s" % (
                    job["defs"], rs["errors"], json.dumps(rs["reg"])[:300]))
            continue
        run.count(len(qs))
        for h in case["hits"]:
            if h["ncand"] >= 2:
                run.nontrivial("s:" + job["defs"] + ":" + s_of(h["name"]))
        for (n, what, detail) in compare_db(case, rs, qs, universe):
            if what == "canon-outside":
                outside += 1
                continue
            nbad += 1
            adm = [h["adm"] for h in case["hits"] if s_of(h["name"]) == n]
            run.violation({"engine": "small", "defs": job["defs"], "name": n, "what": what},
                          {"admissible": adm[0] if adm else [], "rule": "exact, else prefix x unit, else the same without a trailing s"},
                          detail, "small")
    if notloaded * 20 > len(cases):
        raise vlib.ToolError("%d of %d small databases did not load as intended: the generator leg cannot run" % (notloaded, len(cases)))
    log("[C07] %s: %d databases x %d names; tlc %.1fs, code %.1fs, compare %.1fs; not loaded %d, canonical outside universe %d, mismatches %d" % (
        cfg, len(cases), len(qs), t1 - t0, t2 - t1, time.time() - t2, notloaded, outside, nbad))
    return cases, jobs, res, {"databases": len(cases), "not_loaded_as_intended": notloaded, "canon_outside_universe": outside}


# ---------------------------------------------------------------------------------------------------------
# bundled database

def names_env(dump):
    for p in dump["prefixes"]:
        if "n" not in p["v"]:
            raise vlib.ToolError("prefix %s has a float value: Trace_Names expects rationals" % p["s"])
    return {"base": dump["base"], "units": [{"name": u["name"], "val": u["val"]} for u in dump["units"]],
            "prefixes": [{"name": p["name"], "v": p["v"]} for p in dump["prefixes"]]}


def bundled_names(dump):
    stems = [u["s"] for u in dump["units"]] + [s_of(b) for b in dump["base"]]
    pres = [p["s"] for p in dump["prefixes"]]
    seen = set()
    out = []
    for pre in [""] + pres:
        for st in stems:
            for suf in ("", "s"):
                n = pre + st + suf
                if n in ("ans", "ANS", "_"):
                    continue          # Context::lookup reads these as the previous result, not as unit names
                if n not in seen:
                    seen.add(n)
                    out.append(n)
    return out


def candidate_count(n, stems, pres, maxpre):
    """sampling heuristic only (which names the quick tier looks at); verdicts never depend on it"""
    def direct(x):
        c = 1 if x in stems else 0
        for k in range(1, min(len(x), maxpre + 1)):
            if x[:k] in pres and x[k:] in stems:
                c += 1
        return c
    return direct(n) + (direct(n[:-1]) if n.endswith("s") else 0)


def resolve_bundled(names, shards, tag="c07v", ctx="bundled"):
    res = regkit.run_sharded(lambda i, o: [vlib.rv("rv-names"), "run", "--ctx", ctx, "--in", i, "--out", o],
                             [{"n": cps_of(n)} for n in names], shards, tag)
    return res


def event_of(r):
    return evalkit.strip_nulls({k: r.get(k) for k in ("n", "l", "canon", "cl")})


def leg_bundled(run, dump, envp, names, shards, label):
    t0 = time.time()
    res = resolve_bundled(names, shards)
    t1 = time.time()
    events = []
    idx = []
    for i, r in enumerate(res):
        run.count()
        if "crash" in r:
            run.violation({"engine": "bundled", "name": names[i], "what": "crash"},
                          "every name resolves to an admissible denotation or to nothing", r, "bundled")
            continue
        if not (r["again_same"] and r["fresh_same"]):
            run.violation({"engine": "bundled", "name": names[i], "what": "determinism"},
                          "a name denotes the same value every time in a given database",
                          {"again_same": r["again_same"], "fresh_same": r["fresh_same"], "lookup": r["l"]}, "bundled")
        events.append(event_of(r))
        idx.append(i)
    verdicts, st = regkit.judge(events, "Trace_Names", envp, shards=shards, tag="c07j", min_per_shard=400)
    run.cov["states"] += st["distinct"]
    run.cov["transitions"] += st["generated"]
    run.traces(len(events))
    nrej = {}
    namb = 0
    for j, ev in enumerate(events):
        n = names[idx[j]]
        for tag, detail in verdicts.get(j, []):
            if tag == "NOTE":
                namb += 1
                run.nontrivial("b:" + n)
            elif tag == "REJECT":
                what = detail.strip('"')
                nrej[what] = nrej.get(what, 0) + 1
                r = res[idx[j]]
                canon = s_of(r["canon"]) if r.get("canon") is not None else None
                run.violation({"engine": "bundled", "name": n, "what": what, "canon": canon,
                               "canon_resolves": r.get("cl") is not None},
                              "lookup(name) is a member of Resolve(db, name); if canonicalize(name) = c and the name resolves, "
                              "Resolve(db, c) and Resolve(db, name) have a common denotation",
                              {"lookup": r.get("l"), "canon": canon, "canon_lookup": r.get("cl")}, "bundled")
    log("[C07] bundled %s: %d names; code %.1fs, judge %.1fs (%d states); >=2 candidate readings: %d; rejected: %s" % (
        label, len(names), t1 - t0, time.time() - t1, st["distinct"], namb, nrej))
    return {"names": len(names), "with_two_or_more_candidate_readings": namb, "rejected": nrej}


def selfcheck(run, dump, envp):
    """the binding is not vacuous: corrupted observations must be rejected by Trace_Names"""
    names = ["kilometers", "mm", "min"]
    res = resolve_bundled(names, 1, tag="c07self")
    if any("crash" in r for r in res):
        return          # a crash is reported by the bundled leg (all three names are part of it)
    evs = [event_of(r) for r in res]
    verdicts, _ = regkit.judge(evs, "Trace_Names", envp, shards=1, tag="c07selfj0")
    rej = {i: [d for t, d in v if t == "REJECT"] for i, v in verdicts.items()}
    if any(rej.get(i) for i in range(3)) or any("l" not in e or "canon" not in e for e in evs):
        # the code under test resolves these three names wrongly: that is a finding, not a tool failure
        for i in range(3):
            for what in rej.get(i, []):
                run.violation({"engine": "bundled", "name": names[i], "what": what.strip('"'), "canon": None, "canon_resolves": "cl" in evs[i]},
                              "lookup(name) is a member of Resolve(db, name); canonicalising keeps the denotation", res[i], "bundled")
        run.note("selfcheck_corrupted_observations_rejected", "skipped: the genuine observations are already rejected")
        return
    bad1 = json.loads(json.dumps(evs[0]))
    bad1["l"]["v"]["n"]["mag"][0] += 1                      # a wrong value
    bad2 = json.loads(json.dumps(evs[1]))
    bad2["canon"] = cps_of("second")                        # a canonical name that denotes something else
    bad2["cl"] = evs[2]["l"]
    bad3 = json.loads(json.dumps(evs[2]))
    bad3["l"] = evs[1]["l"]                                 # `min` read as something that is not the exact unit
    bad4 = json.loads(json.dumps(evs[0]))
    del bad4["l"]                                           # None for a name that resolves
    verdicts, _ = regkit.judge([bad1, bad2, bad3, bad4], "Trace_Names", envp, shards=1, tag="c07selfj")
    rej = {i: [d for t, d in v if t == "REJECT"] for i, v in verdicts.items()}
    want = {0: '"lookup"', 1: '"canon"', 2: '"lookup"', 3: '"lookup"'}
    for i, w in want.items():
        if w not in rej.get(i, []):
            raise vlib.ToolError("self-check: corrupted observation %d was not rejected by Trace_Names (%s)" % (i, rej))
    run.note("selfcheck_corrupted_observations_rejected", 4)


def selfcheck_small(run, cases, jobs, res):
    qs = queries()
    for case, rs in zip(cases, res):
        if "crash" in rs or not rs["hits"] or not case["prefixes"]:
            continue
        fake = json.loads(json.dumps(rs))
        h = fake["hits"][-1]
        if h["l"] is None:
            continue
        h["l"]["v"]["n"]["mag"][0] += 1
        if not any(w == "lookup" for _, w, _ in compare_db(case, fake, qs, set(qs))):
            raise vlib.ToolError("self-check: a corrupted small-database observation was not flagged")
        fake = json.loads(json.dumps(rs))
        fake["hits"] = fake["hits"][:-1]
        if not any(w == "lookup" for _, w, _ in compare_db(case, fake, qs, set(qs))):
            raise vlib.ToolError("self-check: a missing small-database observation was not flagged")
        run.note("selfcheck_small_replay_comparer", True)
        return
    raise vlib.ToolError("self-check: no small database with a prefix and a resolving name")


def run(tier, seed):
    run = vlib.Run(PROP, tier, seed, "model_checking")
    thorough = tier == "thorough"
    run.cov["rule"] = ("(G) every database of the small universe (letters a,b,s; names of length <= 2; units base or constant, prefixes "
                       "short or long; distinct primes) x every query string of length <= 4: admissible denotations computed by Names.tla, "
                       "theorems ExactWins/PluralLast/LeastClass/TranscriptionAdmissible as invariants, replayed on the real loader + lookup "
                       "+ canonicalize. (V) bundled database: prefix + unit [+ s] strings and plain names [+ s] resolved by the code and "
                       "judged by Trace_Names against the registry dump. non-trivial = distinct (database, name) with >= 2 candidate "
                       "readings (the shadowing rules decide).")
    run.assumptions += ["harness trusted for: string <-> code points, num-bigint <-> base-4096 limbs, JSON equality of two lookups",
                        "the value of the one float-valued unit is not compared (dimensionality only)",
                        "small universe: a long prefix never shares its name with a unit (the loader's insertion order is C08/C12's subject)"]
    vlib.build_harness()
    rng = random.Random(seed)

    # ---- G
    cases, jobs, res, info = leg_small(run, "MC_Names_quick", workers=4, shards=6, coverage=True)
    selfcheck_small(run, cases, jobs, res)
    ginfo = {"MC_Names_quick": info}
    mid = cases[len(cases) // 2]
    run.sample({"leg": "G", "defs": render_defs(mid), "admissible": {s_of(h["name"]): h["adm"] for h in mid["hits"][:6]}})
    for cfg in (("MC_Names_alias2", "MC_Names_t32", "MC_Names_t22") if thorough else ("MC_Names_alias1",)):
        if True:
            c2, j2, r2, info = leg_small(run, cfg, workers=8 if thorough else 4, shards=16)
            ginfo[cfg] = info
            run.sample({"leg": "G", "cfg": cfg, "defs": render_defs(c2[len(c2) // 3])})
            del c2, j2, r2
    run.note("small_universe", ginfo)

    # ---- V
    dump = regkit.get_dump("bundled")
    envp = regkit.write_env("c07-env.json", names_env(dump))
    selfcheck(run, dump, envp)
    allnames = bundled_names(dump)
    if thorough:
        names = allnames
    else:
        stems = set(u["s"] for u in dump["units"]) | set(s_of(b) for b in dump["base"])
        pres = set(p["s"] for p in dump["prefixes"])
        maxpre = max(len(p) for p in pres)
        amb = [n for n in allnames if candidate_count(n, stems, pres, maxpre) >= 2]
        rest = rng.sample(allnames, 10000)
        # names that also live in another namespace of the registry (quantities, substances, symbols, definitions that are
        # not units, categories), bare and behind every prefix: the places where canonicalisation may follow the wrong table
        otherns = set(q["s"] for q in dump["quantities"]) | set(x["s"] for x in dump["substances"]) \
            | set(d["s"] for d in dump["defs"] if not d.get("is_unit")) | set(s_of(x["sym"]) for x in dump["symbols"]) \
            | set(s_of(c["id"]) for c in dump["category_names"])
        allset = set(allnames)
        cross = [n for n in otherns if n in allset] + [p + o for p in sorted(pres) for o in sorted(otherns) if p + o in allset]
        names = list(dict.fromkeys(["kilometers", "mm", "min"] + amb + cross + rest))
        run.note("quick_selection", {"all_names": len(allnames), "preselected_ambiguous": len(amb), "cross_namespace": len(cross), "random": len(rest)})
    vinfo = leg_bundled(run, dump, envp, names, 16 if thorough else 10, tier)
    vinfo["all_names"] = len(allnames)
    run.note("bundled", vinfo)
    run.sample({"leg": "V", "names": names[:3] + names[len(names) // 2:len(names) // 2 + 3]})
    return run.finish()


def replay(path, seed):
    body = json.load(open(path))
    case = body["case"]
    vlib.build_harness()
    if case["engine"] == "small":
        qs = queries() if case.get("name") is None else [case["name"]]
        res = regkit.run_sharded(lambda i, o: [vlib.rv("rv-names"), "small", "--in", i, "--out", o],
                                 [{"id": 0, "defs": case["defs"]}], 1, "c07r", header={"names": [cps_of(q) for q in qs]})[0]
        if "crash" in res:
            log("definitions: %r\ncrash: %s" % (case["defs"], res))
            return 1
        envp = regkit.write_env("c07r-env.json", {"base": res["reg"]["base"], "units": res["reg"]["units"], "prefixes": res["reg"]["prefixes"]})
        obs = {h["i"]: h for h in res["hits"]}
        events = []
        det = True
        for i, q in enumerate(qs):
            h = obs.get(i, {})
            det = det and h.get("again_same", True) and h.get("fresh_same", True)
            events.append(evalkit.strip_nulls({"n": cps_of(q), "l": h.get("l"), "canon": h.get("canon"), "cl": h.get("cl")}))
        log("definitions: %r\nregistry: %s" % (case["defs"], json.dumps(res["reg"])[:600]))
    else:
        dump = regkit.get_dump("bundled")
        envp = regkit.write_env("c07r-env.json", names_env(dump))
        r = resolve_bundled([case["name"]], 1, tag="c07r")[0]
        if "crash" in r:
            log("name %r: crash %s" % (case["name"], r))
            return 1
        det = r["again_same"] and r["fresh_same"]
        events = [event_of(r)]
    verdicts, _ = regkit.judge(events, "Trace_Names", envp, shards=1, tag="c07rj")
    rej = [(i, d) for i, v in verdicts.items() for t, d in v if t == "REJECT"]
    for ev in events[:5]:
        log("name %r: lookup %s canonical %r -> %s" % (s_of(ev["n"]), json.dumps(ev.get("l"))[:200],
                                                          s_of(ev["canon"]) if "canon" in ev else None, json.dumps(ev.get("cl"))[:200]))
    log("deterministic: %s; rejected by Trace_Names: %s" % (det, rej or "nothing"))
    return 1 if rej or not det else 0
