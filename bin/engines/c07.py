"""C07 - unit names resolve exact first, then prefix, then plural; canonicalising keeps the denotation;
resolution is deterministic.

(G) spec -> code: MC_Names enumerates every small database (letters {a, b, s}, names of length <= 2, values distinct
    primes) together with the admissible denotations (Names.tla, relational) of every query string of length <= 4 and
    checks the theorems of Names.tla as invariants; every database is rendered as a definitions text, loaded by the real
    loader into a fresh Context, and every query string is resolved by the real Context::lookup (twice, and on a second
    fresh context) and Context::canonicalize.
(V) code -> spec: on the bundled database every `prefix + unit [+ s]` string and every plain name [+ s] is resolved by
    the real code; the judge specification Trace_Names decides every recorded (name, lookup, canonical name, lookup of
    the canonical name) against Resolve over the registry dump.
(G-collide) MC_Names_collide*: databases with two spellings of one prefix (a second prefix of the same value) and one
    more unit whose name is spelled prefix name + exact name [+ s]: an exact definition under a name that also has a
    prefixed (plural) reading, up to 4 letters.
(H) histories on ONE long-lived context: the behaviours of MC_Names are growing databases (db, then db + more
    definitions); the code loads the first part, answers every name, loads the rest with a further Context::load into
    the same context and answers every name again.  Every answer is compared with the admissible set Names.tla gives for
    the database as it is at that moment (the state of MC_Names reached so far), and with a context that has the same
    loads and was never asked anything.  The same on the bundled database: names are asked, a further load defines
    exact units under names that resolved by prefix / plural (among them long prefix + canonical unit name) and under
    names that did not resolve, and the names (with every other spelling of the prefix, the aliases of the unit, the
    plural) are asked again; Trace_Names judges each stage against the registry of that stage."""
import concurrent.futures as cf
import json
import random
import re
import time

import evalkit
import regkit
import vlib
from regkit import cps_of, s_of
from vlib import log

PROP = "C07"
MAX_SHOWN = 6      # violations written per leg and kind (a stale memo fails thousands of histories the same way)
LETTERS = "abs"
MAXLEN = 4


def queries(maxlen=MAXLEN):
    out = []
    level = [""]
    for _ in range(maxlen):
        level = [w + c for w in level for c in LETTERS]
        out += level
    return out


def render_defs(case):
    lines = []
    for u in case["units"]:
        n = s_of(u["name"])
        lines.append("%s !" % n if u["k"] == "base" else "%s %d" % (n, u["v"]))
    for p in case["prefixes"]:
        lines.append("%s%s %d" % (s_of(p["name"]), "--" if p["k"] == "short" else "-", p["v"]))
    for a in case.get("alias", []):
        lines.append("%s %s" % (s_of(a["name"]), s_of(a["t"])))
    return "\n".join(lines) + "\n"


def limbs_int(mag):
    v = 0
    for i, x in enumerate(mag):
        v += x << (12 * i)
    return v


def flat(obs):
    """number_json of a small-universe value -> (int, base unit name or '') ; None when it has another shape"""
    if not obs or obs.get("t") != "num":
        return None
    q = obs["v"]
    if q["d"] != [1] or q["n"]["neg"]:
        return None
    d = obs["d"]
    if len(d) == 0:
        dn = ""
    elif len(d) == 1 and d[0]["e"] == 1:
        dn = s_of(d[0]["u"])
    else:
        return None
    return (limbs_int(q["n"]["mag"]), dn)


def intended_registry(case):
    base = sorted(s_of(u["name"]) for u in case["units"] if u["k"] == "base")
    units = {s_of(u["name"]): (u["v"], "") for u in case["units"] if u["k"] == "const"}
    units.update({s_of(p["name"]): (p["v"], "") for p in case["prefixes"] if p["k"] == "long"})
    units.update({s_of(a["name"]): (a["den"]["v"], s_of(a["den"]["d"])) for a in case.get("alias", [])})
    prefixes = sorted((s_of(p["name"]), p["v"]) for p in case["prefixes"])
    return base, units, prefixes


def observed_registry(reg):
    base = sorted(s_of(b) for b in reg["base"])
    units = {}
    for u in reg["units"]:
        units[s_of(u["name"])] = flat(u["val"])
    prefixes = []
    for p in reg["prefixes"]:
        v = p["v"]
        ok = "n" in v and v["d"] == [1] and not v["n"]["neg"]
        prefixes.append((s_of(p["name"]), limbs_int(v["n"]["mag"]) if ok else None))
    return base, units, sorted(prefixes, key=lambda t: (t[0], t[1] or 0))


def compare_db(case, res, qs, universe):
    """-> list of (name, what, detail) mismatches between the admissible sets TLC printed and what the code did"""
    adm = {s_of(h["name"]): {(a["v"], s_of(a["d"])) for a in h["adm"]} for h in case["hits"]}
    obs = {qs[h["i"]]: h for h in res["hits"]}
    bad = []
    for n in qs:
        o = obs.get(n)
        a = adm.get(n)
        got = flat(o["l"]) if o and o["l"] is not None else None
        if a is None:
            if o and o["l"] is not None:
                bad.append((n, "lookup", "the name denotes nothing, the code returned %s" % json.dumps(o["l"])))
        else:
            if o is None or o["l"] is None:
                bad.append((n, "lookup", "the code returned None; admissible: %s" % sorted(a)))
            elif got not in a:
                bad.append((n, "lookup", "the code returned %s; admissible: %s" % (got if got else json.dumps(o["l"]), sorted(a))))
        if o and not (o["again_same"] and o["fresh_same"]):
            bad.append((n, "determinism", "repeated lookup (same context: %s, fresh context: %s) differs" % (
                "same" if o["again_same"] else "differs", "same" if o["fresh_same"] else "differs")))
        if o and o["canon"] is not None and a is not None:
            c = s_of(o["canon"])
            if c in universe:
                ac = adm.get(c, set())
                if not (a & ac):
                    bad.append((n, "canon", "canonical name %r denotes %s, the name denotes %s" % (c, sorted(ac), sorted(a))))
            else:
                bad.append((n, "canon-outside", c))
    return bad


def spelled_out_collision(case):
    """two prefixes of one value, and the LONGER spelling + an exact name is itself an exactly defined unit"""
    exact = {s_of(u["name"]) for u in case["units"]} | {s_of(p["name"]) for p in case["prefixes"] if p["k"] == "long"}
    for p in case["prefixes"]:
        for q in case["prefixes"]:
            if p is not q and p["v"] == q["v"] and len(q["name"]) > len(p["name"]):
                if any(s_of(q["name"]) + u in exact for u in exact):
                    return True
    return False


# canonical names longer than the query strings TLC printed admissible sets for: these observations are judged by
# Trace_Names, each line against its own (small) database
OUTSIDE = []


def outside_event(n, h, reg):
    ev = evalkit.strip_nulls({"n": cps_of(n), "l": h.get("l"), "canon": h.get("canon"), "cl": h.get("cl")})
    ev["db"] = {"base": reg["base"], "units": reg["units"], "prefixes": reg["prefixes"]}
    return ev


def judge_outside(run, rng, limit):
    items = OUTSIDE[:]
    del OUTSIDE[:]
    total = len(items)
    if limit is not None and len(items) > limit:
        items = rng.sample(items, limit)
    if not items:
        return {"observed": 0, "judged": 0}
    t0 = time.time()
    envp = regkit.write_env("c07-empty-env.json", {"base": [], "units": [], "prefixes": []})
    # self-check line: the first observation with its canonical name's lookup replaced by a value no name denotes
    fake = json.loads(json.dumps(items[0][1]))
    fake["cl"] = {"t": "num", "d": [], "v": {"d": [1], "n": {"neg": False, "mag": [4093]}}}
    events = [ev for _, ev in items] + [fake]
    verdicts, st = regkit.judge(events, "Trace_Names", envp, shards=8, tag="c07o", min_per_shard=1500)
    run.cov["states"] += st["distinct"]
    run.cov["transitions"] += st["generated"]
    run.traces(len(items))
    nrej = {}
    for j, (case, ev) in enumerate(items):
        for tag, detail in verdicts.get(j, []):
            if tag == "REJECT":
                what = detail.strip('"')
                nrej[what] = nrej.get(what, 0) + 1
                if nrej[what] <= MAX_SHOWN:
                    run.violation(dict(case, what=what), "lookup(name) is a member of Resolve(db, name); if canonicalize(name) = c and "
                                  "the name resolves, Resolve(db, c) and Resolve(db, name) have a common denotation",
                                  {"lookup": ev.get("l"), "canon": s_of(ev["canon"]), "canon_lookup": ev.get("cl")}, case["engine"])
    if not any(t == "REJECT" and d.strip('"') == "canonlookup" for t, d in verdicts.get(len(items), [])):
        raise vlib.ToolError("self-check: a corrupted lookup of a long canonical name was not rejected by Trace_Names")
    log("[C07] canonical names outside the query universe: %d observed, %d judged by Trace_Names on their own databases in %.1fs; rejected: %s" % (
        total, len(items), time.time() - t0, nrej))
    return {"observed": total, "judged": len(items), "rejected": nrej}


def tlc_small(cfg, workers, coverage=False, timeout=2400):
    t0 = time.time()
    r = vlib.tlc("MC_Names", cfg, workers=workers, timeout=timeout, coverage=coverage, tag="c07g", xmx="12g")
    return r, time.time() - t0


def leg_small(run, cfg, workers, shards, coverage=False, timeout=2400, pre=None):
    r, ttlc = pre if pre is not None else tlc_small(cfg, workers, coverage, timeout)
    t0 = time.time() - ttlc
    vlib.require_ok(r, cfg)      # the theorems of Names.tla are invariants of this run
    run.add_tlc(r, cfg)
    if coverage:
        never = [a for a in ("AddUnit", "AddPrefix") if r.coverage.get(a, (0, 0))[1] == 0]
        never += [a for a in r.coverage if a.startswith("Add") and a != "AddAlias" and "collide" in cfg and r.coverage[a][1] == 0]
        if never:
            raise vlib.ToolError("vacuity gate: actions never taken in %s: %s" % (cfg, never))
    cases = vlib.tagged_json(r, "CASE")
    kinds_seen = {u["k"] for c in cases for u in c["units"]} | {p["k"] for c in cases for p in c["prefixes"]}
    if "alias" in cfg and not any(c.get("alias") for c in cases):
        raise vlib.ToolError("vacuity gate: %s generated no alias" % cfg)
    if "collide" in cfg:
        two = sum(1 for c in cases if len({p["v"] for p in c["prefixes"]}) < len(c["prefixes"]))
        col = sum(1 for c in cases if any(len(u["name"]) > 2 for u in c["units"]))
        both = sum(1 for c in cases if spelled_out_collision(c))
        if not (two and col and both):
            raise vlib.ToolError("vacuity gate: %s generated %d databases with two spellings of a prefix, %d with a colliding "
                                 "unit, %d where long spelling + unit is itself a unit" % (cfg, two, col, both))
    if kinds_seen != {"base", "const", "short", "long"}:
        raise vlib.ToolError("vacuity gate: %s generated only the kinds %s" % (cfg, sorted(kinds_seen)))
    if len(cases) != r.distinct:
        raise vlib.ToolError("%s: %d cases printed for %d databases" % (cfg, len(cases), r.distinct))
    qs = queries()
    universe = set(qs)
    jobs = [{"id": i, "defs": render_defs(c)} for i, c in enumerate(cases)]
    t1 = time.time()
    res = regkit.run_sharded(lambda i, o: [vlib.rv("rv-names"), "small", "--in", i, "--out", o], jobs, shards, "c07s",
                             header={"names": [cps_of(q) for q in qs]})
    t2 = time.time()
    notloaded = 0
    outside = 0
    nbad = 0
    for case, job, rs in zip(cases, jobs, res):
        byname = None
        if "crash" in rs:
            run.violation({"engine": "small", "defs": job["defs"], "name": None, "what": "crash"},
                          "every name resolves to an admissible denotation or to nothing", rs, "small")
            continue
        if rs["errors"] or intended_registry(case) != observed_registry(rs["reg"]):
            notloaded += 1
            if notloaded <= 3:
                run.drift_note("Loader", "definitions %r did not load into the intended registry: %s %s" % (
                    job["defs"], rs["errors"], json.dumps(rs["reg"])[:300]))
            continue
        run.count(len(qs))
        for h in case["hits"]:
            if h["ncand"] >= 2:
                run.nontrivial("s:" + job["defs"] + ":" + s_of(h["name"]))
        for (n, what, detail) in compare_db(case, rs, qs, universe):
            if what == "canon-outside":
                outside += 1
                if byname is None:
                    byname = {qs[h["i"]]: h for h in rs["hits"]}
                OUTSIDE.append(({"engine": "small", "defs": job["defs"], "name": n}, outside_event(n, byname[n], rs["reg"])))
                continue
            nbad += 1
            adm = [h["adm"] for h in case["hits"] if s_of(h["name"]) == n]
            run.violation({"engine": "small", "defs": job["defs"], "name": n, "what": what},
                          {"admissible": adm[0] if adm else [], "rule": "exact, else prefix x unit, else the same without a trailing s"},
                          detail, "small")
    if notloaded * 20 > len(cases):
        raise vlib.ToolError("%d of %d small databases did not load as intended: the generator leg cannot run" % (notloaded, len(cases)))
    log("[C07] %s: %d databases x %d names; tlc %.1fs, code %.1fs, compare %.1fs; not loaded %d, canonical outside universe %d, mismatches %d" % (
        cfg, len(cases), len(qs), t1 - t0, t2 - t1, time.time() - t2, notloaded, outside, nbad))
    return cases, jobs, res, {"databases": len(cases), "not_loaded_as_intended": notloaded, "canon_outside_universe": outside}



# ---------------------------------------------------------------------------------------------------------
# histories: one long-lived context, further loads, the same questions again

def def_items(case):
    """the definitions of a database as a set of items; two databases with the same items are the same state of MC_Names"""
    items = [("u", s_of(u["name"]), u["k"], u["v"]) for u in case["units"]]
    items += [("p", s_of(p["name"]), p["k"], p["v"]) for p in case["prefixes"]]
    # the alias carries its denotation: a sub-database in which the alias's target reads differently is another alias
    items += [("a", s_of(a["name"]), s_of(a["t"]), (a["den"]["v"], s_of(a["den"]["d"]))) for a in case.get("alias", [])]
    return items


def render_items(items):
    lines = []
    for it in items:
        if it[0] == "u":
            lines.append("%s !" % it[1] if it[2] == "base" else "%s %d" % (it[1], it[3]))
        elif it[0] == "p":
            lines.append("%s%s %d" % (it[1], "--" if it[2] == "short" else "-", it[3]))
        else:
            lines.append("%s %s" % (it[1], it[2]))
    return "\n".join(lines) + "\n"


def adm_map(case):
    return {s_of(h["name"]): frozenset((a["v"], s_of(a["d"])) for a in h["adm"]) for h in case["hits"]}


def changed_names(c1, c2):
    a1, a2 = adm_map(c1), adm_map(c2)
    return [n for n in set(a1) | set(a2) if a1.get(n) != a2.get(n)]


def small_histories(universe, rng, per_case):
    """universe: frozenset(items) -> case.  A history is a chain of states of MC_Names, each a sub-database of the next
    (every one a printed state: its admissible sets are TLC's).  per_case = None: every two-stage split."""
    out = []
    for key, case in universe.items():
        items = sorted(key, key=repr)
        n = len(items)
        if n < 2:
            continue
        splits = []
        for mask in range(1, (1 << n) - 1):
            first = frozenset(items[i] for i in range(n) if mask >> i & 1)
            c1 = universe.get(first)
            if c1 is not None:
                splits.append((len(changed_names(c1, case)), rng.random(), [first, key]))
        splits.sort(key=lambda t: (-t[0], t[1]))
        if per_case is not None and len(splits) > per_case:
            # the splits after which most names change their denotation, and one at random
            keep = splits[:per_case - 1]
            keep.append(rng.choice(splits[per_case - 1:]))
            splits = keep
        out += [ch for _, _, ch in splits]
        if n >= 3:
            # one definition per load, in an order whose every stage is a state of the universe
            for _ in range(4):
                order = items[:]
                rng.shuffle(order)
                chain = [frozenset(order[:k]) for k in range(1, n + 1)]
                if all(c in universe for c in chain):
                    out.append(chain)
                    break
    return out


def refused_block(i, case, qs, rng):
    """A definition the loader must REFUSE (Names.tla: Refuse, a stuttering step - the database is what it was): a substance
    whose last property does not evaluate.  Its property, input and output names are names of the query alphabet, by
    preference names that denote something in the database, so that whatever the refused definition leaves behind in the
    context (load-time temporaries are consulted before the registry) shows as a changed denotation."""
    live = [s_of(h["name"]) for h in case["hits"] if h["adm"]]
    pool = (live if len(live) >= 3 else live + qs[:12])
    names = rng.sample(sorted(set(pool)), 3) if len(set(pool)) >= 3 else qs[:3]
    v = rng.choice([1, 1, 2, 3])
    w = rng.choice([1, 1, 2, 5])
    if v != 1 and w != 1:
        w = 1
    return "zq_r%d {\n %s %s %d / %s %d\n zq_bad const zq_b%d 1 zq_no_such_unit\n}\n" % (i, names[0], names[1], w, names[2], v, i)


def history_job(i, chain, ask_first=True, refused=None):
    stages = []
    prev = frozenset()
    for k, st in enumerate(chain):
        text = render_items(sorted(st - prev, key=repr))
        if refused is not None and refused[0] == k:
            text = refused[1] + text if refused[2] else text + refused[1]
        stages.append({"defs": text, "ask": ask_first or k == len(chain) - 1})
        prev = st
    return {"id": i, "base": "empty", "stages": stages}


def compare_stage(case, st, qs, universe_q):
    return compare_db(case, st, qs, universe_q)


def leg_history(run, universe, rng, shards, per_case, limit=None):
    t0 = time.time()
    qs = queries()
    uq = set(qs)
    chains = small_histories(universe, rng, per_case)
    nall = len(chains)
    if limit is not None and len(chains) > limit:
        chains = rng.sample(chains, limit)
    t1 = time.time()
    tot = {"code": 0.0, "notloaded": 0, "bad": 0, "stages": 0}
    shown = {}

    def one(ch, job, rs):
        loads = [st["defs"] for st in job["stages"]]
        asked = [st["ask"] for st in job["stages"]]
        if "crash" in rs:
            run.violation({"engine": "history", "loads": loads, "asked": asked, "stage": None, "name": None, "what": "crash"},
                          "every name resolves to an admissible denotation or to nothing", rs, "history")
            return
        for k, (key, st) in enumerate(zip(ch, rs["stages"])):
            case = universe[key]
            if not st.get("reg_fresh_same", True):
                # the load gave another registry than the same loads give on a context that was never asked anything
                tot["bad"] += 1
                shown["load"] = shown.get("load", 0) + 1
                if shown["load"] <= MAX_SHOWN:
                    run.violation({"engine": "history", "loads": loads, "asked": asked, "stage": k, "name": None, "what": "load"},
                                  "the database is what was loaded: the same loads give the same registry whatever was asked in between",
                                  {"errors": st["errors"], "registry": st["reg"]}, "history")
                return
            # (a load may complain and still give the intended registry: a later load's `b bs` is reported as a dependency
            # cycle and defined all the same.  What is judged here is name resolution in the database that resulted.)
            if intended_registry(case) != observed_registry(st["reg"]):
                tot["notloaded"] += 1
                if tot["notloaded"] <= 3:
                    run.drift_note("Loader", "loads %r did not give the intended registry at stage %d: %s %s" % (
                        loads, k, st["errors"], json.dumps(st["reg"])[:300]))
                return
            if "hits" not in st:
                continue
            tot["stages"] += 1
            run.count(len(qs))
            if k > 0:
                for n in changed_names(universe[ch[k - 1]], case):
                    run.nontrivial("h:" + "|".join(loads[:k + 1]) + ":" + n)
            byname = None
            for (n, what, detail) in compare_stage(case, st, qs, uq):
                if what == "canon-outside":
                    if byname is None:
                        byname = {qs[h["i"]]: h for h in st["hits"]}
                    OUTSIDE.append(({"engine": "history", "loads": loads, "asked": asked, "stage": k, "name": n},
                                    outside_event(n, byname[n], st["reg"])))
                    continue
                tot["bad"] += 1
                shown[what] = shown.get(what, 0) + 1
                if shown[what] > MAX_SHOWN:
                    continue
                adm = [h["adm"] for h in case["hits"] if s_of(h["name"]) == n]
                run.violation({"engine": "history", "loads": loads, "asked": asked, "stage": k, "name": n, "what": what},
                              {"admissible_in_the_database_after_load_%d" % k: adm[0] if adm else [],
                               "rule": "a name denotes what the database, as it is at that moment, says: exact, else prefix x "
                                       "unit, else the same without a trailing s; the same answer as a context with the same "
                                       "loads that was never asked anything"},
                              detail, "history")

    first = ([], [], [])
    BATCH = 20000           # results are compared and dropped batch by batch (the thorough tier runs > 100000 histories)
    for lo in range(0, len(chains), BATCH):
        bchains = chains[lo:lo + BATCH]
        # every third history asks nothing before the last load (load, load, ask: what an earlier LOAD left behind)
        # every second history carries, in one of its loads, a definition the loader refuses (the state of MC_Names stays)
        jobs = [history_job(lo + i, ch, ask_first=((lo + i) % 3 != 2),
                            refused=((rng.randrange(len(ch)), refused_block(lo + i, universe[ch[-1]], qs, rng), rng.random() < 0.5)
                                     if (lo + i) % 2 == 0 else None))
                for i, ch in enumerate(bchains)]
        tot["refused"] = tot.get("refused", 0) + sum(1 for j in jobs if any("zq_bad" in st["defs"] for st in j["stages"]))
        tc = time.time()
        res = regkit.run_sharded(lambda i, o: [vlib.rv("rv-names"), "history", "--in", i, "--out", o], jobs, shards, "c07h",
                                 header={"names": [cps_of(q) for q in qs]})
        tot["code"] += time.time() - tc
        if lo == 0:
            first = (bchains, jobs, res)
        for ch, job, rs in zip(bchains, jobs, res):
            one(ch, job, rs)
    notloaded, nbad, nstages = tot["notloaded"], tot["bad"], tot["stages"]
    if notloaded * 20 > len(chains):
        raise vlib.ToolError("%d of %d histories did not load as intended: the history leg cannot run" % (notloaded, len(chains)))
    log("[C07] histories: %d chains (%d judged stages) x %d names; build %.1fs, code %.1fs, compare %.1fs; not loaded %d, mismatches %d" % (
        len(chains), nstages, len(qs), t1 - t0, tot["code"], time.time() - t1 - tot["code"], notloaded, nbad))
    return first[0], first[1], first[2], {"histories": len(chains), "histories_generated": nall, "stages_judged": nstages,
                                          "not_loaded_as_intended": notloaded,
                                          "histories_with_a_refused_definition": tot.get("refused", 0),
                                          "three_or_more_loads": sum(1 for c in chains if len(c) >= 3), "mismatches": nbad}


def selfcheck_history(run, universe, chains, jobs, res):
    """a stale answer (the previous stage's) for a name whose denotation the last load changed must be flagged"""
    qs = queries()
    for ch, job, rs in zip(chains, jobs, res):
        if "crash" in rs or len(ch) != 2 or not all("hits" in st for st in rs["stages"]):
            continue
        c1, c2 = universe[ch[0]], universe[ch[1]]
        a1, a2 = adm_map(c1), adm_map(c2)
        stale = [n for n in a1 if n in a2 and not (a1[n] & a2[n])]
        if not stale:
            continue
        if compare_stage(c2, rs["stages"][1], qs, set(qs)):
            continue        # the genuine observation is already flagged (a finding, reported by the leg)
        n = stale[0]
        fake = json.loads(json.dumps(rs["stages"][1]))
        old = [h for h in rs["stages"][0]["hits"] if qs[h["i"]] == n]
        for h in fake["hits"]:
            if qs[h["i"]] == n and old:
                h["l"] = old[0]["l"]
        if not any(w == "lookup" and nm == n for nm, w, _ in compare_stage(c2, fake, qs, set(qs))):
            raise vlib.ToolError("self-check: a stale answer after a further load was not flagged")
        run.note("selfcheck_history_stale_answer_flagged", True)
        return
    run.note("selfcheck_history_stale_answer_flagged", "skipped: no history whose genuine observations are all accepted")

# ---------------------------------------------------------------------------------------------------------
# bundled database

def names_env(dump):
    for p in dump["prefixes"]:
        if "n" not in p["v"]:
            raise vlib.ToolError("prefix %s has a float value: Trace_Names expects rationals" % p["s"])
    return {"base": dump["base"], "units": [{"name": u["name"], "val": u["val"]} for u in dump["units"]],
            "prefixes": [{"name": p["name"], "v": p["v"]} for p in dump["prefixes"]]}


def bundled_names(dump):
    stems = [u["s"] for u in dump["units"]] + [s_of(b) for b in dump["base"]]
    pres = [p["s"] for p in dump["prefixes"]]
    seen = set()
    out = []
    for pre in [""] + pres:
        for st in stems:
            for suf in ("", "s"):
                n = pre + st + suf
                if n in ("ans", "ANS", "_"):
                    continue          # Context::lookup reads these as the previous result, not as unit names
                if n not in seen:
                    seen.add(n)
                    out.append(n)
    return out


def candidate_count(n, stems, pres, maxpre):
    """sampling heuristic only (which names the quick tier looks at); verdicts never depend on it"""
    def direct(x):
        c = 1 if x in stems else 0
        for k in range(1, min(len(x), maxpre + 1)):
            if x[:k] in pres and x[k:] in stems:
                c += 1
        return c
    return direct(n) + (direct(n[:-1]) if n.endswith("s") else 0)


def resolve_bundled(names, shards, tag="c07v", ctx="bundled"):
    res = regkit.run_sharded(lambda i, o: [vlib.rv("rv-names"), "run", "--ctx", ctx, "--in", i, "--out", o],
                             [{"n": cps_of(n)} for n in names], shards, tag)
    return res


def event_of(r):
    return evalkit.strip_nulls({k: r.get(k) for k in ("n", "l", "canon", "cl")})


def leg_bundled(run, dump, envp, names, shards, label):
    t0 = time.time()
    res = resolve_bundled(names, shards)
    t1 = time.time()
    events = []
    idx = []
    for i, r in enumerate(res):
        run.count()
        if "crash" in r:
            run.violation({"engine": "bundled", "name": names[i], "what": "crash"},
                          "every name resolves to an admissible denotation or to nothing", r, "bundled")
            continue
        if not (r["again_same"] and r["fresh_same"]):
            run.violation({"engine": "bundled", "name": names[i], "what": "determinism"},
                          "a name denotes the same value every time in a given database",
                          {"again_same": r["again_same"], "fresh_same": r["fresh_same"], "lookup": r["l"]}, "bundled")
        events.append(event_of(r))
        idx.append(i)
    verdicts, st = regkit.judge(events, "Trace_Names", envp, shards=shards, tag="c07j", min_per_shard=400)
    run.cov["states"] += st["distinct"]
    run.cov["transitions"] += st["generated"]
    run.traces(len(events))
    nrej = {}
    namb = 0
    for j, ev in enumerate(events):
        n = names[idx[j]]
        for tag, detail in verdicts.get(j, []):
            if tag == "NOTE":
                namb += 1
                run.nontrivial("b:" + n)
            elif tag == "REJECT":
                what = detail.strip('"')
                nrej[what] = nrej.get(what, 0) + 1
                r = res[idx[j]]
                canon = s_of(r["canon"]) if r.get("canon") is not None else None
                run.violation({"engine": "bundled", "name": n, "what": what, "canon": canon,
                               "canon_resolves": r.get("cl") is not None},
                              "lookup(name) is a member of Resolve(db, name); if canonicalize(name) = c and the name resolves, "
                              "Resolve(db, c) and Resolve(db, name) have a common denotation",
                              {"lookup": r.get("l"), "canon": canon, "canon_lookup": r.get("cl")}, "bundled")
    log("[C07] bundled %s: %d names; code %.1fs, judge %.1fs (%d states); >=2 candidate readings: %d; rejected: %s" % (
        label, len(names), t1 - t0, time.time() - t1, st["distinct"], namb, nrej))
    return {"names": len(names), "with_two_or_more_candidate_readings": namb, "rejected": nrej}


# ---------------------------------------------------------------------------------------------------------
# bundled database + a further load (history on the real database)

_plain = re.compile(r"^[A-Za-z]+$")


def referenced_names(dump):
    """every identifier some definition of the bundled database refers to (its value was fixed when it was loaded)"""
    out = set()

    def walk(x):
        if isinstance(x, dict):
            if x.get("k") == "unit" and isinstance(x.get("name"), list):
                out.add(s_of(x["name"]))
            for v in x.values():
                walk(v)
        elif isinstance(x, list):
            for v in x:
                walk(v)
    for d in dump["defs"]:
        walk(d["def"])
    for sub in dump["substances"]:
        for pr in sub["props"]:
            out.add(s_of(pr["input_name"]))
            out.add(s_of(pr["output_name"]))
    return out


class BundledView:
    """python-side index of the dump, used ONLY to choose inputs (which names to define and to ask); never for verdicts"""
    def __init__(self, dump):
        self.exact = set(u["s"] for u in dump["units"]) | set(s_of(b) for b in dump["base"])
        self.pres = [(p["s"], json.dumps(p["v"], sort_keys=True)) for p in dump["prefixes"]]
        self.byval = {}
        for n, v in self.pres:
            self.byval.setdefault(v, []).append(n)
        self.alias_of = {}
        for u in dump["units"]:
            if u["alias"]:
                self.alias_of.setdefault(s_of(u["def"]["name"]), []).append(u["s"])
        for ln in dump["long_names"]:
            self.alias_of.setdefault(s_of(ln["short"]), []).append(s_of(ln["long"]))
            self.alias_of.setdefault(s_of(ln["long"]), []).append(s_of(ln["short"]))
        self.plain_units = sorted(n for n in self.exact if _plain.match(n) and len(n) >= 3)
        self.nonalias = sorted(set(u["s"] for u in dump["units"] if not u["alias"] and _plain.match(u["s"]) and "def" in u)
                               | set(s_of(ln["long"]) for ln in dump["long_names"]))
        refs = referenced_names(dump)
        self.ref_tails = set()
        for r in refs:
            for x in (r, r[:-1] if r.endswith("s") else None):
                if x:
                    for k in range(len(x)):
                        self.ref_tails.add(x[k:])

    def splits(self, n):
        return [(p, n[len(p):]) for p, _ in self.pres if n.startswith(p) and n[len(p):] in self.exact]

    def cls(self, n):
        """least class of reading (0 exact, 1 prefix, 2 plural, 3 prefixed plural), None when the name does not resolve"""
        if n in self.exact:
            return 0
        if self.splits(n):
            return 1
        if n.endswith("s"):
            if n[:-1] in self.exact:
                return 2
            if self.splits(n[:-1]):
                return 3
        return None

    def usable(self, n):
        """a new exact definition under this name changes no reading a bundled definition was evaluated with"""
        return n not in self.ref_tails and n not in ("ans", "ANS", "_") and _plain.match(n) is not None


def further_load(view, rng, n_prefixed=36, n_plural=12, n_fresh=12):
    """-> (definitions text, names to ask, info).  New exact units, each `name k unit` with its own k:
    names that resolve by prefix (half of them spelled long prefix + a unit that is its own canonical name), names that
    resolve only as plurals, and names that do not resolve at all."""
    longs = [n for n, v in view.pres if any(len(m) < len(n) for m in view.byval[v]) and _plain.match(n)]
    allp = [n for n, _ in view.pres if _plain.match(n)]
    chosen = {}

    def pick(kind, gen, want):
        got = 0
        for _ in range(want * 60):
            if got >= want:
                break
            n, expect = gen()
            if n in chosen or not view.usable(n) or view.cls(n) not in expect:
                continue
            if any(n.startswith(c) or c.startswith(n) or n.endswith(c) or c.endswith(n) for c in chosen):
                continue          # the new definitions do not read each other
            chosen[n] = kind
            got += 1
    pick("long prefix + canonical unit", lambda: (rng.choice(longs) + rng.choice(view.nonalias), (1,)), n_prefixed // 2)
    pick("prefix + unit", lambda: (rng.choice(allp) + rng.choice(view.plain_units), (1,)), n_prefixed - n_prefixed // 2)
    pick("plural", lambda: (rng.choice([""] * 2 + allp) + rng.choice(view.plain_units) + "s", (2, 3)), n_plural)
    pick("unresolved", lambda: ("".join(rng.choice("bcdfghjklmnpqrtvwxz") + rng.choice("aeiou") for _ in range(rng.randint(3, 4)))
                                + rng.choice(["", "", "s"]), (None,)), n_fresh)
    defs = []
    ask = []
    k = 1000
    for n, kind in chosen.items():
        k += rng.randint(1, 9)
        defs.append("%s %d %s" % (n, k, rng.choice(["meter", "second", "gram", "byte", "radian", "1"])))
        fam = [n, n + "s"]
        for p, stem in (view.splits(n) + (view.splits(n[:-1]) if n.endswith("s") else [])):
            pv = dict(view.pres)[p]
            stems = [stem] + view.alias_of.get(stem, [])
            for q in view.byval[pv]:                      # every spelling of the same prefix
                for st in stems:                           # the unit and its other names
                    fam += [q + st, q + st + "s"]
        if n.endswith("s"):
            fam += [n[:-1]]
        for p in rng.sample(allp, 4):
            fam += [p + n, p + n + "s"]
        ask += fam
    ask = [a for a in dict.fromkeys(ask) if a not in ("ans", "ANS", "_")]
    kinds = {}
    for kind in chosen.values():
        kinds[kind] = kinds.get(kind, 0) + 1
    return "\n".join(defs) + "\n", ask, {"new_exact_definitions": kinds}


def run_bundled_history(defs, names, tag="c07bh"):
    job = {"id": 0, "base": "bundled", "stages": [{"defs": "", "ask": True}, {"defs": defs, "ask": True}],
           "names": [cps_of(n) for n in names]}
    return regkit.run_sharded(lambda i, o: [vlib.rv("rv-names"), "history", "--timeout-ms", "600000", "--in", i, "--out", o],
                              [job], 1, tag)[0]


def stage_events(names, st):
    obs = {h["i"]: h for h in st["hits"]}
    evs = []
    det = []
    for i, n in enumerate(names):
        h = obs.get(i, {})
        evs.append(evalkit.strip_nulls({"n": cps_of(n), "l": h.get("l"), "canon": h.get("canon"), "cl": h.get("cl")}))
        det.append((h.get("again_same", True), h.get("fresh_same", True)))
    return evs, det


def stage_env(name, st):
    return regkit.write_env(name, {"base": st["reg"]["base"], "units": st["reg"]["units"], "prefixes": st["reg"]["prefixes"]})


def leg_bundled_history(run, dump, rng, extra_names, shards):
    t0 = time.time()
    view = BundledView(dump)
    defs, ask, info = further_load(view, rng)
    names = list(dict.fromkeys(ask + extra_names))
    # the same load also carries a definition the loader refuses (MC_Names.Refuse): a substance whose last property does not
    # evaluate and whose property, input and output names are exactly defined units that are asked about afterwards
    rn = [rng.choice([n for n in ("meter", "second", "gram", "foot", "inch", "hour") if n in view.exact] or view.plain_units)]
    rn += rng.sample([n for n in view.plain_units if n not in rn], 2)
    names = list(dict.fromkeys(names + rn + [rng.choice([p for p, _ in view.pres if _plain.match(p)]) + n for n in rn]))
    refused = "zq_refused {\n %s %s 1 / %s 2\n zq_bad const zq_b 1 zq_no_such_unit\n}\n" % tuple(rn)
    info["refused_definition_names"] = rn
    rs = run_bundled_history(defs + refused, names)
    t1 = time.time()
    case0 = {"engine": "bundled-history", "defs": defs + refused}
    if "stages" in rs and len(rs["stages"]) > 1:
        errs = rs["stages"][1]["errors"]
        if not any("zq_refused" in e for e in errs):
            raise vlib.ToolError("the refused definition of the further load was not refused: %s" % errs)
        if all("zq_" in ln for e in errs for ln in e.splitlines()[1:] or [e]):
            rs["stages"][1]["errors"] = []
    if "crash" in rs:
        run.violation(dict(case0, stage=None, name=None, what="crash"),
                      "every name resolves to an admissible denotation or to nothing", rs, "bundled-history")
        return info
    if not all(st.get("reg_fresh_same", True) for st in rs["stages"]):
        run.violation(dict(case0, stage=1, name=None, what="load"),
                      "the database is what was loaded: the same loads give the same registry whatever was asked in between",
                      {"errors": rs["stages"][1]["errors"]}, "bundled-history")
        return info
    if rs["stages"][1]["errors"]:
        raise vlib.ToolError("the further load on the bundled database was refused: %s" % rs["stages"][1]["errors"])
    before = {s_of(u["name"]) for u in rs["stages"][0]["reg"]["units"]}
    after = {s_of(u["name"]) for u in rs["stages"][1]["reg"]["units"]}
    if len(after - before) != len(defs.splitlines()):
        raise vlib.ToolError("the further load defined %d new units, %d were written" % (len(after - before), len(defs.splitlines())))
    nrej = {}
    changed = 0
    staged = [stage_events(names, st) for st in rs["stages"]]
    per_stage = [ev for ev, _ in staged]
    # self-check lines: for the newly defined names, the answer of BEFORE the load, judged against the registry of AFTER it,
    # must be rejected (the exact definition wins).  They are appended to the second stage's lines.
    newnames = set(ln.split()[0] for ln in defs.splitlines())
    stale = [j for j, n in enumerate(names) if n in newnames and per_stage[0][j].get("l") != per_stage[1][j].get("l")]
    stale_evs = []
    for j in stale:
        e = dict(per_stage[1][j])
        e.pop("l", None)
        if "l" in per_stage[0][j]:
            e["l"] = per_stage[0][j]["l"]
        stale_evs.append(e)

    def judge_stage(k):
        events = per_stage[k] + (stale_evs if k == 1 else [])
        return regkit.judge(events, "Trace_Names", stage_env("c07bh-env%d.json" % k, rs["stages"][k]), shards=shards,
                            tag="c07bhj%d" % k, min_per_shard=400)
    with cf.ThreadPoolExecutor(max_workers=2) as ex:
        judged = list(ex.map(judge_stage, range(2)))
    shown = {}

    def report(case, expected, observed):
        shown[case["what"]] = shown.get(case["what"], 0) + 1
        nrej[case["what"]] = nrej.get(case["what"], 0) + 1
        if shown[case["what"]] <= MAX_SHOWN:
            run.violation(case, expected, observed, "bundled-history")
    for k, (verdicts, stats) in enumerate(judged):
        events, det = staged[k]
        run.cov["states"] += stats["distinct"]
        run.cov["transitions"] += stats["generated"]
        run.traces(len(events))
        run.count(len(events))
        for j, n in enumerate(names):
            if not (det[j][0] and det[j][1]):
                report(dict(case0, stage=k, name=n, what="determinism"),
                       "a name denotes the same value every time in a given database: the same answer again, and the "
                       "same as a context with the same loads that was never asked anything",
                       {"again_same": det[j][0], "fresh_same": det[j][1], "lookup": events[j].get("l")})
            for tag, detail in verdicts.get(j, []):
                if tag == "REJECT":
                    canon = s_of(events[j]["canon"]) if "canon" in events[j] else None
                    report(dict(case0, stage=k, name=n, what=detail.strip('"'), canon=canon),
                           "judged against the registry as it is after load %d: lookup(name) is a member of Resolve(db, name); "
                           "if canonicalize(name) = c and the name resolves, Resolve(db, c) and Resolve(db, name) have a "
                           "common denotation" % k,
                           {"lookup": events[j].get("l"), "canon": canon, "canon_lookup": events[j].get("cl")})
            if k == 1 and per_stage[0][j].get("l") != events[j].get("l"):
                changed += 1
                run.nontrivial("bh:" + n)
    if nrej:
        run.note("selfcheck_bundled_history_stale_answers_rejected", "skipped: the genuine observations are already rejected")
    elif not stale:
        raise vlib.ToolError("vacuity gate: the further load changed the denotation of none of the names it defines")
    else:
        v1 = judged[1][0]
        caught = sum(1 for i in range(len(stale_evs))
                     if any(t == "REJECT" and d.strip('"') == "lookup" for t, d in v1.get(len(names) + i, [])))
        if caught != len(stale_evs):
            raise vlib.ToolError("self-check: %d of %d stale answers (of before the further load) were accepted by Trace_Names "
                                 "against the registry of after it" % (len(stale_evs) - caught, len(stale_evs)))
        run.note("selfcheck_bundled_history_stale_answers_rejected", caught)
    info.update({"names_asked_before_and_after": len(names), "names_whose_answer_changed": changed, "rejected": nrej})
    log("[C07] bundled history: %d new definitions, %d names x 2 stages; code %.1fs, judge %.1fs; answers changed by the load: %d; rejected: %s" % (
        len(defs.splitlines()), len(names), t1 - t0, time.time() - t1, changed, nrej))
    return info


def selfcheck(run, dump, envp):
    """the binding is not vacuous: corrupted observations must be rejected by Trace_Names"""
    names = ["kilometers", "mm", "min"]
    res = resolve_bundled(names, 1, tag="c07self")
    if any("crash" in r for r in res):
        return          # a crash is reported by the bundled leg (all three names are part of it)
    evs = [event_of(r) for r in res]
    verdicts, _ = regkit.judge(evs, "Trace_Names", envp, shards=1, tag="c07selfj0")
    rej = {i: [d for t, d in v if t == "REJECT"] for i, v in verdicts.items()}
    if any(rej.get(i) for i in range(3)) or any("l" not in e or "canon" not in e for e in evs):
        # the code under test resolves these three names wrongly: that is a finding, not a tool failure
        for i in range(3):
            for what in rej.get(i, []):
                run.violation({"engine": "bundled", "name": names[i], "what": what.strip('"'), "canon": None, "canon_resolves": "cl" in evs[i]},
                              "lookup(name) is a member of Resolve(db, name); canonicalising keeps the denotation", res[i], "bundled")
        run.note("selfcheck_corrupted_observations_rejected", "skipped: the genuine observations are already rejected")
        return
    bad1 = json.loads(json.dumps(evs[0]))
    bad1["l"]["v"]["n"]["mag"][0] += 1                      # a wrong value
    bad2 = json.loads(json.dumps(evs[1]))
    bad2["canon"] = cps_of("second")                        # a canonical name that denotes something else
    bad2["cl"] = evs[2]["l"]
    bad3 = json.loads(json.dumps(evs[2]))
    bad3["l"] = evs[1]["l"]                                 # `min` read as something that is not the exact unit
    bad4 = json.loads(json.dumps(evs[0]))
    del bad4["l"]                                           # None for a name that resolves
    verdicts, _ = regkit.judge([bad1, bad2, bad3, bad4], "Trace_Names", envp, shards=1, tag="c07selfj")
    rej = {i: [d for t, d in v if t == "REJECT"] for i, v in verdicts.items()}
    want = {0: '"lookup"', 1: '"canon"', 2: '"lookup"', 3: '"lookup"'}
    for i, w in want.items():
        if w not in rej.get(i, []):
            raise vlib.ToolError("self-check: corrupted observation %d was not rejected by Trace_Names (%s)" % (i, rej))
    run.note("selfcheck_corrupted_observations_rejected", 4)


def selfcheck_small(run, cases, jobs, res):
    qs = queries()
    for case, rs in zip(cases, res):
        if "crash" in rs or not rs["hits"] or not case["prefixes"]:
            continue
        fake = json.loads(json.dumps(rs))
        h = fake["hits"][-1]
        if h["l"] is None:
            continue
        h["l"]["v"]["n"]["mag"][0] += 1
        if not any(w == "lookup" for _, w, _ in compare_db(case, fake, qs, set(qs))):
            raise vlib.ToolError("self-check: a corrupted small-database observation was not flagged")
        fake = json.loads(json.dumps(rs))
        fake["hits"] = fake["hits"][:-1]
        if not any(w == "lookup" for _, w, _ in compare_db(case, fake, qs, set(qs))):
            raise vlib.ToolError("self-check: a missing small-database observation was not flagged")
        run.note("selfcheck_small_replay_comparer", True)
        return
    raise vlib.ToolError("self-check: no small database with a prefix and a resolving name")


def run(tier, seed):
    run = vlib.Run(PROP, tier, seed, "model_checking")
    thorough = tier == "thorough"
    run.cov["rule"] = ("(G) every database of the small universe (letters a,b,s; names of length <= 2; units base or constant, prefixes "
                       "short or long; distinct primes) x every query string of length <= 4: admissible denotations computed by Names.tla, "
                       "theorems ExactWins/PluralLast/LeastClass/TranscriptionAdmissible as invariants, replayed on the real loader + lookup "
                       "+ canonicalize. (V) bundled database: prefix + unit [+ s] strings and plain names [+ s] resolved by the code and "
                       "judged by Trace_Names against the registry dump. non-trivial = distinct (database, name) with >= 2 candidate "
                       "readings (the shadowing rules decide). (G-collide) the same with two spellings of one prefix and a unit named "
                       "prefix + exact name [+ s]. (H) histories: sub-database loaded, every name asked, the rest loaded into the "
                       "same context, every name asked again (and chains of one definition per load); each stage compared with the "
                       "admissible sets of the MC_Names state reached; bundled database + a further load of exact units under names "
                       "that resolved by prefix / plural / not at all, each stage judged by Trace_Names against that stage's "
                       "registry. non-trivial there = (history, name) whose admissible set the load changed.")
    run.assumptions += ["harness trusted for: string <-> code points, num-bigint <-> base-4096 limbs, JSON equality of two lookups",
                        "the value of the one float-valued unit is not compared (dimensionality only)",
                        "small universe: a long prefix never shares its name with a unit (the loader's insertion order is C08/C12's subject)",
                        "histories only ADD uniquely named definitions: no exact name is defined twice, and no later definition changes "
                        "the reading of a name an earlier definition refers to (what a definition's right-hand side meant when it was "
                        "loaded is C08/C12's subject)"]
    vlib.build_harness()
    rng = random.Random(seed)

    # ---- G
    more = ("MC_Names_alias2", "MC_Names_collide_t", "MC_Names_t32", "MC_Names_t22") if thorough else ("MC_Names_alias1", "MC_Names_collide1")
    pre = {}
    if not thorough:
        # the quick tier's three generator runs are small: TLC explores them side by side (4 workers each)
        with cf.ThreadPoolExecutor(max_workers=3) as ex:
            futs = {c: ex.submit(tlc_small, c, 4, c == "MC_Names_quick" or "collide" in c) for c in ("MC_Names_quick",) + more}
            pre = {c: f.result() for c, f in futs.items()}
    cases, jobs, res, info = leg_small(run, "MC_Names_quick", workers=4, shards=6, coverage=True, pre=pre.get("MC_Names_quick"))
    selfcheck_small(run, cases, jobs, res)
    ginfo = {"MC_Names_quick": info}
    universe = {frozenset(def_items(c)): c for c in cases}
    mid = cases[len(cases) // 2]
    run.sample({"leg": "G", "defs": render_defs(mid), "admissible": {s_of(h["name"]): h["adm"] for h in mid["hits"][:6]}})
    for cfg in more:
        if True:
            c2, j2, r2, info = leg_small(run, cfg, workers=8 if thorough else 4, shards=16, coverage="collide" in cfg, pre=pre.get(cfg))
            ginfo[cfg] = info
            run.sample({"leg": "G", "cfg": cfg, "defs": render_defs(c2[len(c2) // 3])})
            if cfg != "MC_Names_t32":
                for c in c2:
                    universe.setdefault(frozenset(def_items(c)), c)
            del c2, j2, r2
    run.note("small_universe", ginfo)

    # ---- H (small universe): growing databases on one long-lived context
    chains, hjobs, hres, hinfo = leg_history(run, universe, rng, 16, per_case=3 if thorough else 2,
                                             limit=150000 if thorough else 12000)
    selfcheck_history(run, universe, chains, hjobs, hres)
    if chains:
        run.sample({"leg": "H", "loads": [st["defs"] for st in hjobs[len(hjobs) // 2]["stages"]]})
    run.note("histories", hinfo)
    del universe, chains, hjobs, hres
    run.note("canonical_names_outside_the_query_universe", judge_outside(run, rng, None if thorough else 3000))

    # ---- V
    dump = regkit.get_dump("bundled")
    envp = regkit.write_env("c07-env.json", names_env(dump))
    selfcheck(run, dump, envp)
    allnames = bundled_names(dump)
    if thorough:
        names = allnames
    else:
        stems = set(u["s"] for u in dump["units"]) | set(s_of(b) for b in dump["base"])
        pres = set(p["s"] for p in dump["prefixes"])
        maxpre = max(len(p) for p in pres)
        amb = [n for n in allnames if candidate_count(n, stems, pres, maxpre) >= 2]
        rest = rng.sample(allnames, 10000)
        # names that also live in another namespace of the registry (quantities, substances, symbols, definitions that are
        # not units, categories), bare and behind every prefix: the places where canonicalisation may follow the wrong table
        otherns = set(q["s"] for q in dump["quantities"]) | set(x["s"] for x in dump["substances"]) \
            | set(d["s"] for d in dump["defs"] if not d.get("is_unit")) | set(s_of(x["sym"]) for x in dump["symbols"]) \
            | set(s_of(c["id"]) for c in dump["category_names"])
        allset = set(allnames)
        cross = [n for n in otherns if n in allset] + [p + o for p in sorted(pres) for o in sorted(otherns) if p + o in allset]
        names = list(dict.fromkeys(["kilometers", "mm", "min"] + amb + cross + rest))
        run.note("quick_selection", {"all_names": len(allnames), "preselected_ambiguous": len(amb), "cross_namespace": len(cross), "random": len(rest)})
    vinfo = leg_bundled(run, dump, envp, names, 16 if thorough else 10, tier)
    vinfo["all_names"] = len(allnames)
    run.note("bundled", vinfo)

    # ---- H (bundled database): names asked, a further load, the names asked again
    rounds = 4 if thorough else 1
    binfo = []
    for _ in range(rounds):
        binfo.append(leg_bundled_history(run, dump, rng, ["kilometers", "mm", "min"] + rng.sample(allnames, 600), 2))
    run.note("bundled_history", binfo)
    run.sample({"leg": "V", "names": names[:3] + names[len(names) // 2:len(names) // 2 + 3]})
    return run.finish()


def replay_history(case):
    if case["engine"] == "history":
        qs = queries() if case.get("name") is None else [case["name"]]
        asked = case.get("asked") or [True] * len(case["loads"])
        job = {"id": 0, "base": "empty", "stages": [{"defs": d, "ask": a} for d, a in zip(case["loads"], asked)]}
        rs = regkit.run_sharded(lambda i, o: [vlib.rv("rv-names"), "history", "--in", i, "--out", o], [job], 1, "c07r",
                                header={"names": [cps_of(q) for q in qs]})[0]
        for k, d in enumerate(case["loads"]):
            log("load %d%s: %r" % (k, "" if asked[k] else " (nothing asked after it)", d))
    else:
        qs = [case["name"]] if case.get("name") else ["kilometers"]
        rs = run_bundled_history(case["defs"], qs, tag="c07r")
        log("bundled database, then a further load: %r" % case["defs"][:2000])
    if "crash" in rs:
        log("crash: %s" % rs)
        return 1
    bad = False
    for k, st in enumerate(rs["stages"]):
        if not st.get("reg_fresh_same", True):
            log("after load %d: the registry differs from the one the same loads give on a context that was never asked anything "
                "(errors of the load: %s)" % (k, st["errors"]))
            bad = True
        if "hits" not in st or (case.get("stage") is not None and k != case["stage"]):
            continue
        events, det = stage_events(qs, st)
        verdicts, _ = regkit.judge(events, "Trace_Names", stage_env("c07r-env.json", st), shards=1, tag="c07rj")
        rej = [(s_of(events[i]["n"]), d) for i, v in verdicts.items() for t, d in v if t == "REJECT"]
        nondet = [qs[i] for i, (a, f) in enumerate(det) if not (a and f)]
        for ev in events[:5]:
            log("after load %d, name %r: lookup %s canonical %r -> %s" % (
                k, s_of(ev["n"]), json.dumps(ev.get("l"))[:200], s_of(ev["canon"]) if "canon" in ev else None,
                json.dumps(ev.get("cl"))[:200]))
        log("after load %d: rejected by Trace_Names against the registry of that moment: %s; differs from a repeated lookup or from a "
            "context with the same loads that was never asked: %s" % (k, rej or "nothing", nondet or "nothing"))
        bad = bad or bool(rej) or bool(nondet)
    return 1 if bad else 0


def replay(path, seed):
    body = json.load(open(path))
    case = body["case"]
    vlib.build_harness()
    if case["engine"] in ("history", "bundled-history"):
        return replay_history(case)
    if case["engine"] == "small":
        qs = queries() if case.get("name") is None else [case["name"]]
        res = regkit.run_sharded(lambda i, o: [vlib.rv("rv-names"), "small", "--in", i, "--out", o],
                                 [{"id": 0, "defs": case["defs"]}], 1, "c07r", header={"names": [cps_of(q) for q in qs]})[0]
        if "crash" in res:
            log("definitions: %r\ncrash: %s" % (case["defs"], res))
            return 1
        envp = regkit.write_env("c07r-env.json", {"base": res["reg"]["base"], "units": res["reg"]["units"], "prefixes": res["reg"]["prefixes"]})
        obs = {h["i"]: h for h in res["hits"]}
        events = []
        det = True
        for i, q in enumerate(qs):
            h = obs.get(i, {})
            det = det and h.get("again_same", True) and h.get("fresh_same", True)
            events.append(evalkit.strip_nulls({"n": cps_of(q), "l": h.get("l"), "canon": h.get("canon"), "cl": h.get("cl")}))
        log("definitions: %r\nregistry: %s" % (case["defs"], json.dumps(res["reg"])[:600]))
    else:
        dump = regkit.get_dump("bundled")
        envp = regkit.write_env("c07r-env.json", names_env(dump))
        r = resolve_bundled([case["name"]], 1, tag="c07r")[0]
        if "crash" in r:
            log("name %r: crash %s" % (case["name"], r))
            return 1
        det = r["again_same"] and r["fresh_same"]
        events = [event_of(r)]
    verdicts, _ = regkit.judge(events, "Trace_Names", envp, shards=1, tag="c07rj")
    rej = [(i, d) for i, v in verdicts.items() for t, d in v if t == "REJECT"]
    for ev in events[:5]:
        log("name %r: lookup %s canonical %r -> %s" % (s_of(ev["n"]), json.dumps(ev.get("l"))[:200],
                                                          s_of(ev["canon"]) if "canon" in ev else None, json.dumps(ev.get("cl"))[:200]))
    log("deterministic: %s; rejected by Trace_Names: %s" % (det, rej or "nothing"))
    return 1 if rej or not det else 0
