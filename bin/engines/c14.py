"""C14 - date arithmetic.  TLC enumerates date literals (boundary instants x offsets x every documented literal
pattern), durations and query forms (MC_DateGen over DateTime.tla); the real evaluator runs every query
(rv-eval, bundled database); the judge specification Trace_Date (Lexer + Grammar + Eval + DateTime over BigNum)
parses each query text itself, computes the instant / duration the property determines with its own proleptic
Gregorian calendar and compares it with the reply."""
import json
import os
import random
import re
import time

import evalkit
import vlib
from vlib import log

PROP = "C14"

# time units the generated durations are written in; their values are looked up in the code's own database
# (the database is not under test here) and handed to the judge as its environment
UNIT_NAMES = ["s", "ns", "us", "\u00b5s", "ms", "nanosecond", "microsecond", "millisecond", "second", "sec",
              "minute", "min", "hour", "hr", "day", "week", "year", "m", "kg"]

_rfc_re = re.compile(r"^([+-]?\d{4,6})-(\d\d)-(\d\d)T(\d\d):(\d\d):(\d\d)(?:\.(\d{1,9}))?(Z|[+-]\d\d:\d\d)$")


def rfc_fields(s):
    """RFC 3339 string -> [year, month, day, hour, minute, second, nanosecond, offset seconds] (digit extraction
    only; no calendar arithmetic here).  Unparseable -> []."""
    m = _rfc_re.match(s or "")
    if not m:
        return []
    frac = m.group(7) or ""
    ns = int((frac + "000000000")[:9])
    z = m.group(8)
    if z == "Z":
        off = 0
    else:
        off = (1 if z[0] == "+" else -1) * (int(z[1:3]) * 3600 + int(z[4:6]) * 60)
    return [int(m.group(1)), int(m.group(2)), int(m.group(3)), int(m.group(4)), int(m.group(5)), int(m.group(6)), ns, off]


def limbs_int(mag):
    v = 0
    for i, x in enumerate(mag):
        v += x << (12 * i)
    return v


def unit_env():
    """Looks the time units up in the code's database.  Returns (list for the judge, {name: Fraction seconds})."""
    from fractions import Fraction
    jobs = [{"lookup": [ord(c) for c in n]} for n in UNIT_NAMES]
    res = evalkit.run_eval(jobs, ctx="bundled", tag="c14units")
    units, secs = [], {}
    for n, r in zip(UNIT_NAMES, res):
        v = r.get("lookup")
        if not v or v.get("t") != "num":
            raise vlib.ToolError("unit %r is not an exact number in the bundled database" % n)
        units.append({"name": [ord(c) for c in n], "v": v["v"], "d": v["d"]})
        if [x["u"] for x in v["d"]] == [[115]] and v["d"][0]["e"] == 1:
            num = limbs_int(v["v"]["n"]["mag"]) * (-1 if v["v"]["n"]["neg"] else 1)
            secs[n] = Fraction(num, limbs_int(v["v"]["d"]))
    return units, secs


def event_of(res):
    """what Trace_Date needs from one rv-eval result"""
    ev = evalkit.slim_event(res, keep_parts=False)
    if "crash" not in res:
        o = res["obs"]
        if o.get("t") == "date":
            ev["obs"]["rfc"] = rfc_fields(o.get("rfc3339"))
            ev["obs"]["fields"] = o.get("fields")
    return ev


def judge(events, units, shards, tag, min_per_shard=150):
    path = vlib.workfile("%s-units.json" % tag)
    with open(path, "w") as f:
        json.dump(units, f)
    return evalkit.judge(events, "Trace_Date", shards=shards, tag=tag, env={"UNITS": path}, min_per_shard=min_per_shard)


def obs_brief(r):
    if "crash" in r:
        return {k: r.get(k) for k in ("crash", "msg", "signal")}
    o = r["obs"]
    return {k: o[k] for k in ("t", "c", "msg", "rfc3339", "fields", "v", "d", "kind") if k in o}


def probe(texts):
    """development helper: run and judge a few texts, print everything"""
    vlib.build_harness()
    units, _ = unit_env()
    res = evalkit.run_eval([{"qs": t} for t in texts], ctx="bundled", tag="c14p")
    evs = [event_of(r) for r in res]
    verdicts, st = judge(evs, units, 4, "c14pj", min_per_shard=20)
    for i, t in enumerate(texts):
        print(t, "=>", sorted(verdicts.get(i, {"ACCEPT"})), json.dumps(obs_brief(res[i]))[:160])


if __name__ == "__main__":
    import sys
    probe([l.rstrip("\n") for l in sys.stdin if l.strip()])
