"""C14 - date arithmetic.  TLC enumerates date literals (boundary instants x offsets x every documented literal
pattern), durations and query forms (MC_DateGen over DateTime.tla); the real evaluator runs every query
(rv-eval, bundled database); the judge specification Trace_Date (Lexer + Grammar + Eval + DateTime over BigNum)
parses each query text itself, computes the instant / duration the property determines with its own proleptic
Gregorian calendar and compares it with the reply."""
import json
import os
import random
import re
import time

import evalkit
import vlib
from vlib import log

PROP = "C14"

# time units the generated durations are written in; their values are looked up in the code's own database
# (the database is not under test here) and handed to the judge as its environment
UNIT_NAMES = ["s", "ns", "us", "\u00b5s", "ms", "nanosecond", "microsecond", "millisecond", "second", "sec",
              "minute", "min", "hour", "hr", "day", "week", "year", "m", "kg"]

_rfc_re = re.compile(r"^([+-]?\d{4,6})-(\d\d)-(\d\d)T(\d\d):(\d\d):(\d\d)(?:\.(\d{1,9}))?(Z|[+-]\d\d:\d\d)$")


def rfc_fields(s):
    """RFC 3339 string -> [year, month, day, hour, minute, second, nanosecond, offset seconds] (digit extraction
    only; no calendar arithmetic here).  Unparseable -> []."""
    m = _rfc_re.match(s or "")
    if not m:
        return []
    frac = m.group(7) or ""
    ns = int((frac + "000000000")[:9])
    z = m.group(8)
    if z == "Z":
        off = 0
    else:
        off = (1 if z[0] == "+" else -1) * (int(z[1:3]) * 3600 + int(z[4:6]) * 60)
    return [int(m.group(1)), int(m.group(2)), int(m.group(3)), int(m.group(4)), int(m.group(5)), int(m.group(6)), ns, off]


def limbs_int(mag):
    v = 0
    for i, x in enumerate(mag):
        v += x << (12 * i)
    return v


def unit_env():
    """Looks the time units up in the code's database.  Returns (list for the judge, {name: Fraction seconds})."""
    from fractions import Fraction
    jobs = [{"lookup": [ord(c) for c in n]} for n in UNIT_NAMES]
    res = evalkit.run_eval(jobs, ctx="bundled", tag="c14units")
    units, secs = [], {}
    for n, r in zip(UNIT_NAMES, res):
        v = r.get("lookup")
        if not v or v.get("t") != "num":
            raise vlib.ToolError("unit %r is not an exact number in the bundled database" % n)
        units.append({"name": [ord(c) for c in n], "v": v["v"], "d": v["d"]})
        if [x["u"] for x in v["d"]] == [[115]] and v["d"][0]["e"] == 1:
            num = limbs_int(v["v"]["n"]["mag"]) * (-1 if v["v"]["n"]["neg"] else 1)
            secs[n] = Fraction(num, limbs_int(v["v"]["d"]))
    return units, secs


def event_of(res, zl=(), clock=None):
    """what Trace_Date needs from one rv-eval result; zl: the zone-naming literals of the query with their offsets;
    clock: the UTC time [y, m, d, h, mi, s] the context clock was set to for this query (None: the system time)"""
    ev = evalkit.slim_event(res, keep_parts=False)
    ev["zl"] = list(zl)
    if clock is not None:
        ev["clock"] = list(clock)
    if "crash" not in res:
        o = res["obs"]
        if o.get("t") == "date":
            ev["obs"]["rfc"] = rfc_fields(o.get("rfc3339"))
            ev["obs"]["fields"] = o.get("fields")
            if res.get("dateval"):
                ev["obs"]["exact"] = res["dateval"]
    return ev


_lit_re = re.compile(r"#([^#]*)#")


def run_queries(texts, shards, tag, clocks=None):
    """Runs the queries (with the date value behind each reply) and, before that, every distinct literal alone: a
    literal that names a zone gets the UTC offset the code reports for it (the tz database is an input of the
    specification, not a part of it).  clocks (optional, one per text): the UTC time the context clock is set to
    for that query; such a run is ONE sequence on ONE long-lived context, in the order given.
    Returns (results, events)."""
    lits = sorted({m for t in texts for m in _lit_re.findall(t)})
    lres = evalkit.run_eval([{"qs": "#%s#" % l, "dateval": True} for l in lits], ctx="bundled", timeout_ms=5000, shards=shards, tag=tag + "l")
    zoff = {}
    for l, r in zip(lits, lres):
        dv = r.get("dateval") if "crash" not in r else None
        if dv and dv.get("variant") == "tz":
            zoff[l] = dv["off"]
    if clocks is not None:
        res = evalkit.run_eval([{"qs": t, "dateval": True, "clock": list(c)} for t, c in zip(texts, clocks)], ctx="bundled",
                               timeout_ms=20000, shards=1, tag=tag)
        if any(r.get("bad_job") for r in res):
            raise vlib.ToolError("rv-eval refused a clock setting")
    else:
        res = evalkit.run_eval([{"qs": t, "dateval": True} for t in texts], ctx="bundled", timeout_ms=5000, shards=shards, tag=tag)
    # a time-out is believed only when the query, run alone with a generous limit, times out again
    slow = [i for i, r in enumerate(res) if r.get("crash") == "timeout"] if clocks is None else []
    if slow:
        again = evalkit.run_eval([{"qs": texts[i], "dateval": True} for i in slow], ctx="bundled", timeout_ms=60000, shards=1, tag=tag + "s")
        for i, r in zip(slow, again):
            res[i] = r
    events = []
    for i, (t, r) in enumerate(zip(texts, res)):
        zl = [{"lit": [ord(c) for c in l], "off": zoff[l]} for l in dict.fromkeys(_lit_re.findall(t)) if l in zoff]
        events.append(event_of(r, zl, clocks[i] if clocks is not None else None))
    return res, events


def judge(events, units, shards, tag, min_per_shard=150):
    path = vlib.workfile("%s-units.json" % tag)
    with open(path, "w") as f:
        json.dump(units, f)
    return evalkit.judge(events, "Trace_Date", shards=shards, tag=tag, env={"UNITS": path}, min_per_shard=min_per_shard)


def obs_brief(r):
    if "crash" in r:
        return {k: r.get(k) for k in ("crash", "msg", "signal")}
    o = r["obs"]
    b = {k: o[k] for k in ("t", "c", "msg", "rfc3339", "fields", "v", "d", "kind") if k in o}
    if r.get("dateval"):
        b["dateval"] = r["dateval"]
    return b


# ----------------------------------------------------------------------------
# generator (MC_DateGen)

def _cps(t):
    return evalkit.cps(t)


def _seq(items):
    return "<<" + ", ".join(items) + ">>"


def _set(items):
    return "{" + ", ".join(items) + "}"


def gen(tag, mode, seed, k=1, forms_per=1, years=(2000,), days=((1, 1),), times=((0, 0, 0, ""),), offsets=((0, 0),),
        writers=("iso",), durs=("1 s",), anchors=("2000-01-01",), convoffs=("+00:00",), zones=("UTC",),
        workers=4, timeout=1500, coverage=False):
    """Runs MC_DateGen; returns (cases [{q: text, mut: name}], TlcResult)."""
    mod = "Gen_%s_%d" % (tag, os.getpid())      # private to the process: concurrent C14 runs must not share the file
    with open(os.path.join(vlib.SPEC, mod + ".tla"), "w") as f:
        f.write("---- MODULE %s ----\nEXTENDS MC_DateGen\n" % mod)
        f.write("G_Years == %s\n" % _set(str(y) for y in years))
        f.write("G_Days == %s\n" % _set("<<%d, %d>>" % d for d in days))
        f.write("G_Times == %s\n" % _set("<<%d, %d, %d, %s>>" % (t[0], t[1], t[2], _seq(c for c in t[3])) for t in times))
        f.write("G_Offsets == %s\n" % _seq("<<%d, %d>>" % o for o in offsets))
        f.write("G_Writers == %s\n" % _set('"%s"' % w for w in writers))
        f.write("G_DurTexts == %s\n" % _seq(_cps(t) for t in durs))
        f.write("G_AnchorLits == %s\n" % _seq(_cps(t) for t in anchors))
        f.write("G_ConvOffsets == %s\n" % _seq(_cps(t) for t in convoffs))
        f.write("G_Zones == %s\n" % _seq(_cps(t) for t in zones))
        f.write("====\n")
    cfg = os.path.join(vlib.SPEC, mod + ".cfg")
    with open(cfg, "w") as f:
        f.write("SPECIFICATION Spec\nINVARIANT Emit\nINVARIANT RoundTrip\nCHECK_DEADLOCK FALSE\nCONSTANTS\n")
        f.write('  Mode = "%s"\n  Seed = %d\n  K = %d\n  FormsPer = %d\n' % (mode, seed % 1000, k, forms_per))
        for c in ("Years", "Days", "Times", "Offsets", "Writers", "DurTexts", "AnchorLits", "ConvOffsets", "Zones"):
            f.write("  %s <- G_%s\n" % (c, c))
    try:
        r = vlib.tlc(mod, cfg, workers=workers, timeout=timeout, tag="gen" + tag, xmx="8g", coverage=coverage)
    finally:
        for ext in (".tla", ".cfg"):
            try:
                os.unlink(os.path.join(vlib.SPEC, mod + ext))
            except OSError:
                pass
    vlib.require_ok(r, "MC_DateGen " + tag)
    cases = [{"q": "".join(chr(c) for c in o["q"]), "mut": o["mut"]} for o in vlib.tagged_json(r, "CASE")]
    if mode == "partial":
        # a literal without a year (or without any date) is written alike from many instants: keep each text once
        cases = list({c["q"]: c for c in cases}.values())
    return cases, r


# durations (whole nanoseconds) of the property's quantifier: 1 ns ... the documented maximum
def duration_ns(secs):
    year = secs["year"] * 10**9
    assert year.denominator == 1
    return [("1ns", 1), ("999ns", 999), ("1us", 1000), ("1us+1ns", 1001), ("0.5ms", 500000), ("1ms-1ns", 999999),
            ("1ms", 10**6), ("1.0005s", 1000500000), ("1s", 10**9), ("1s+1ns", 10**9 + 1), ("1min", 60 * 10**9),
            ("1day", 86400 * 10**9), ("1week", 7 * 86400 * 10**9), ("400years", 400 * int(year)),
            ("9000years", 9000 * 365 * 86400 * 10**9), ("190000years", 6 * 10**12 * 10**9),
            ("max", 9223372036854775 * 10**9), ("max+1s", 9223372036854776 * 10**9)]


TIME_SPELLINGS = ["ns", "nanosecond", "us", "\u00b5s", "microsecond", "ms", "millisecond", "s", "second", "sec", "minute",
                  "min", "hour", "hr", "day", "week", "year"]


def spell(n_ns, unit, secs):
    """the duration of n_ns nanoseconds written in `unit`: a decimal when the unit is a power of ten nanoseconds,
    else an integer or a fraction p|q"""
    from fractions import Fraction
    u = secs[unit] * 10**9          # nanoseconds per unit
    assert u.denominator == 1
    u = int(u)
    ds = str(u)
    if ds[0] == "1" and set(ds[1:]) <= {"0"}:
        k = len(ds) - 1
        if k == 0:
            return "%d %s" % (n_ns, unit)
        digits = str(n_ns).zfill(k + 1)
        ip, fp = digits[:-k], digits[-k:].rstrip("0")
        return "%s%s %s" % (ip, "." + fp if fp else "", unit)
    fr = Fraction(n_ns, u)
    if fr.denominator == 1:
        return "%d %s" % (fr.numerator, unit)
    return "%d|%d %s" % (fr.numerator, fr.denominator, unit)


def duration_texts(secs, rng, per_duration=None):
    """every duration x sign x unit spelling (per_duration: how many spellings per duration and sign, None = all)"""
    out = []
    for _name, n in duration_ns(secs):
        for sign in ("", "-"):
            units = TIME_SPELLINGS[:]
            if per_duration is not None:
                rng.shuffle(units)
                units = units[:per_duration]
            for u in units:
                out.append(sign + spell(n, u, secs))
    return out


# ----------------------------------------------------------------------------
# the check

YEARS = [1, 4, 100, 400, 1582, 1969, 1970, 2000, 2016, 2100, 9999]
YEARS_MORE = [0, -43, -1, -400, 1600, 1700, 1800, 1900, 2400, 1999, 2038, 8000]
DAYS = [(1, 1), (2, 28), (2, 29), (3, 1), (12, 31)]
DAYS_MORE = [(1, 31), (4, 30), (6, 30), (7, 31), (10, 15), (11, 30), (12, 1), (1, 2), (3, 31)]
TIMES = [(0, 0, 0, ""), (12, 0, 0, ""), (23, 59, 59, ""), (23, 59, 59, "999999999"), (1, 2, 3, "000000001"), (12, 30, 15, "5")]
TIMES_MORE = [(11, 59, 59, "999"), (12, 59, 59, ""), (0, 0, 0, "000000001"), (13, 0, 0, ""), (0, 59, 59, "5")]
ZONES = ["UTC", "US/Pacific", "Europe/London", "Asia/Kolkata", "Pacific/Apia"]
# kind 0: none, 1: fixed (seconds), 2: named zone (index into ZONES)
OFFSETS = [(0, 0), (1, 0), (1, -14400), (1, 19800), (1, 50400), (1, -12600), (1, -1800), (1, -60), (2, 2), (2, 4)]
OFFSETS_MORE = [(1, 1800), (1, 45900), (1, -43200), (1, 86340), (1, -86340), (2, 1), (2, 3), (2, 5)]
WRITERS = ["isoT", "iso", "isodate", "ord", "mdy12", "mdy24", "mdy", "ctime", "ymd12", "ymd24"]
CONV_OFFSETS = ["+00:00", "-04:00", "+05:30", "+14:00", "-03:30", "+23:59", "-23:59", "+24:00", "-24:00", "+99:00", "-00:00", "-99:59"]
ANCHORS = ["0001-01-01 00:00:00", "1970-01-01T00:00:00 +00:00", "2000-02-29 23:59:59.999999999 -04:00",
           "December 31, 9999 11:59:59.999999999 pm +14:00", "2016 dec 31 23:59:59 +05:30", "Fri Oct 15 00:00:00 1582",
           "2000-07-01 12:00:00.5 Europe/London", "Dec 31 1969 16:00:00 US/Pacific", "1850-06-15T12:00:00 Asia/Kolkata"]
# regression seeds (DESIGN.md section 6: F7, F8, F9) and forms the generator does not write; each is judged by the specification
# round 3: an incomplete date / a time only (the written fields bind), +hhmm minutes, second 60 in arithmetic
SEEDS_R3 = ["#2020-W05#", "#2020-W05 10:00#", "#2020-W53 23:59:59 -04:00#", "#2021-W53 10:00#", "#--03-15#", "#--03-15 10:30#",
            "#--02-29 10:30 +05:30#", "#--02-30 10:30#", "#jan 5 10:00#", "#January 5 10:00 pm US/Pacific#", "#10:30#",
            "#11:59:59.999999999 pm +14:00#", "#2020-01-01 10:00 +0199#", "#2020-01-01 10:00 -0060#", "#2020-01-01 10:00 +0159#",
            "#2016-12-31 23:59:60#", "#2019-06-15 12:00:60#", "(#2016-12-31 23:59:60# + 1 s) - #2016-12-31 23:59:60#",
            "(#2019-06-15 12:00:60# + 1 s) - #2019-06-15 12:00:60#", "#2016-12-31 23:59:60# + 1 s", "#2016-12-31 23:59:60.5 -04:00# + 0.5 s",
            "#2017-01-01 00:00:00# - #2016-12-31 23:59:60#", "(#2016-12-31 23:59:60# - 1 ns) + 1 ns", "#2016-12-31 23:59:60# -> +05:30"]
SEEDS = ["#2000-01-01 00:00:00.1234567890#", "#2000-01-01# -> +99:00", "(#2000-01-01# + 0.0005 s) - #2000-01-01#",
         "1 s + #2000-01-01#", "#2000-01-01# + 1 m", "#2000-01-01# + 1", "#2000-01-01# + #2000-01-01#",
         "#2000-01-01# -> UTC", "#2000-07-01 12:00 Europe/London# -> \"Asia/Kolkata\"", "#jan 1, 1 bc#", "#March 15, 44 BC#",
         "#-0043-03-15#", "#0000-02-29#", "#2000-01-01 00:00:00.000000001# - #1999-12-31 23:59:59.999999999#",
         "#2000-03-01# - #2000-02-28#", "#1900-03-01# - #1900-02-28#", "#2100-03-01# - #2100-02-28#",
         "#2000-01-01 00:00 +0090#", "#2000-01-01T00:00:00+05:30#", "#2000-01-01# -> +05:60"] + SEEDS_R3
# the clock leg: UTC times the context clock is set to, in this order (forwards by hours / a day / years, and backwards)
CLOCKS = [(2016, 8, 2, 19, 33, 19), (2016, 8, 3, 12, 0, 0), (2016, 8, 2, 23, 59, 59), (2020, 2, 29, 12, 0, 0),
          (2021, 3, 1, 0, 0, 0), (1999, 12, 31, 23, 59, 59), (2038, 1, 19, 3, 14, 8)]
CLOCK_ANCHOR = "2016-08-02 10:30:00 +00:00"

GEN_ACTIONS = {"grid": ["PickDate", "PickTime", "PickOffset", "PickWriter", "PickForm"],
               "bad": ["PickDate", "PickTime", "PickOffset", "PickMutation", "BadForm"],
               "partial": ["PickDate", "PickTime", "PickOffset", "PickPartial", "BadForm"],
               "dur": ["DurForm"]}


def vacuity_gate(r, mode):
    never = [a for a in GEN_ACTIONS[mode] if r.coverage.get(a, (0, 0))[1] == 0]
    if never:
        raise vlib.ToolError("vacuity gate: generator actions never taken in mode %s: %s" % (mode, never))


def selftests(run):
    r = vlib.tlc("MC_DateTime", "MC_DateTime", workers=1, timeout=300, tag="c14dt")
    vlib.require_ok(r, "MC_DateTime")
    if '<<"DATETIME_SELFTEST", TRUE, TRUE, TRUE, TRUE, TRUE, TRUE>>' not in r.stdout:
        log(r.stdout[-2000:])
        raise vlib.ToolError("DateTime self-test did not report TRUE x 6")
    if '<<"DATETIME_SELFTEST2", TRUE, TRUE>>' not in r.stdout:
        log(r.stdout[-2000:])
        raise vlib.ToolError("DateTime self-test (ISO weeks, partial readings) did not report TRUE x 2")
    run.note("datetime_selftest", "calendar laws on 19 years, anchor days, instants, literal readings, ISO weeks, partial readings: all TRUE")
    r = vlib.tlc("MC_BigNum", "MC_BigNum", workers=1, timeout=600, tag="c14bn")
    vlib.require_ok(r, "MC_BigNum")
    if '<<"BIGNUM_SELFTEST", TRUE, TRUE, TRUE>>' not in r.stdout:
        raise vlib.ToolError("BigNum self-test did not report TRUE/TRUE/TRUE")
    run.note("bignum_selftest", "BigNum.tla agrees with TLC native integers")


SPEC_ALLOWS = ("the instant / duration DateTime.tla determines for the query (proleptic Gregorian calendar, exact rational "
               "seconds), an error where a literal matches no documented pattern or denotes nothing or the offset is 24 h "
               "or more; an error is also admissible near the edge of the supported range; a literal with an incomplete date: "
               "an error or an instant that has the written fields at the written offset; a time-only literal: that time on the "
               "day of the context clock")


_rejects = []      # every rejected line of this run (written to work/c14-rejects.ndjson for triage; not an output of the check)


def decide(run, cases, leg, units, shards, min_per_shard=150, clocks=None):
    """cases: [{q, mut}] -> runs, judges, reports.  Returns per-tag counts."""
    t0 = time.time()
    res, events = run_queries([c["q"] for c in cases], shards, "c14" + leg, clocks=clocks)
    t1 = time.time()
    verdicts, st = judge(events, units, shards, "c14j" + leg, min_per_shard=min_per_shard)
    run.cov["states"] += st["distinct"]
    run.cov["transitions"] += st["generated"]
    run.traces(len(events))
    counts = {}
    nast = 0
    for i, c in enumerate(cases):
        run.count()
        v = verdicts.get(i, set())
        for t in v:
            counts[t] = counts.get(t, 0) + 1
        if "ASTDIFF" in v:
            nast += 1
            if nast <= 3:
                run.drift_note("Grammar", "the code's AST differs from the specification's parse of %r" % c["q"])
        if "SILENT" in v or "UNSUPPORTED" in v:
            continue
        run.nontrivial(c["q"] if clocks is None else "%s @ %s" % (c["q"], "-".join(map(str, clocks[i]))))
        if "REJECT" in v or "CRASH" in v:
            ob = obs_brief(res[i])
            _rejects.append({"leg": leg, "q": c["q"], "mut": c.get("mut", "none"), "verdict": sorted(v), "obs": ob})
            case = {"engine": "date", "leg": leg, "q": c["q"], "mut": c.get("mut", "none"),
                    "obs_kind": "crash" if "crash" in res[i] else res[i]["obs"].get("t"),
                    "verdict": "CRASH" if "CRASH" in v else "REJECT"}
            if clocks is not None:
                # the sequence up to here: the same context, the clock settings before this one matter
                case["clock"] = list(clocks[i])
                mine = set(_lit_re.findall(c["q"])) - {CLOCK_ANCHOR}
                case["history"] = [{"q": cases[j]["q"], "clock": list(clocks[j])} for j in range(i)
                                   if cases[j]["q"] == c["q"] or set(_lit_re.findall(cases[j]["q"])) & mine]
            run.violation(case, SPEC_ALLOWS, ob, "date")
    log("[C14] leg %s: %d queries, eval %.1fs, judge %.1fs, verdicts %s" % (leg, len(cases), t1 - t0, time.time() - t1, counts))
    return counts


def run(tier, seed):
    run = vlib.Run(PROP, tier, seed, "model_checking")
    thorough = tier == "thorough"
    run.cov["rule"] = ("TLC (MC_DateGen) enumerates boundary instants (11 years x Jan 1 / Feb 28 / Feb 29 / Mar 1 / Dec 31 x 6 times of "
                       "day incl. 23:59:59.999999999) x offsets (none, +00:00, -04:00, +05:30, +14:00, two named zones) x every "
                       "documented literal pattern (10 writers) x query forms (literal alone, (d+t)-d, (d-t)+t, d+t, d-t, d1-d2, "
                       "-> +hh:mm, -> \"Zone\"), durations 1 ns .. i64::MAX/1000 s x sign x 17 unit spellings, and literals with one "
                       "field out of range (a soft one - second 60, minute 60, hour 24, wrong weekday - also inside the arithmetic forms); "
                       "literals that write a time only or an incomplete date (year + ISO week, month + day without year; 9 writers) "
                       "judged by their written fields; one long-lived context whose clock is set to 5 (thorough: 11) UTC times in "
                       "sequence, the same literals (time-only, incomplete, full) and `now` evaluated again under each setting; "
                       "the quick tier keeps the literals whose hash falls on one residue (shifted by the seed). "
                       "non-trivial = distinct query text (clock leg: text and clock setting) whose reply the specification determines (not silent).")
    run.assumptions += ["harness trusted for: string <-> code points, num-bigint <-> base-4096 limbs; the driver extracts the digits of the "
                        "reply's RFC 3339 string (no calendar arithmetic outside the specification)",
                        "the values of the time units (s, ms, ..., year) are looked up in the code's own database and given to the judge: "
                        "the unit database is not under test here",
                        "the tz database is not specified: for named zones the UTC offset is taken from the reply (RFC 3339 rounds it to "
                        "minutes, so a reply in a named zone fixes its instant to +-30 s)",
                        "results beyond +-200 000 years or durations beyond i64::MAX/1000 s: an error or the exact result is accepted",
                        "clock leg: the harness sets the context clock (Context::set_time) from the UTC fields the driver chose and "
                        "evaluates with Context::eval_query (rink_core::eval would put the clock back to the system time); without a set "
                        "clock a time-only literal is bound to its written time of day and offset only",
                        "a time-only literal in a named zone is not generated (the zone's gaps are not specified); when one is judged, its "
                        "local day may be the clock's UTC day or a neighbour"]
    vlib.build_harness()
    selftests(run)
    units, secs = unit_env()
    rng = random.Random(seed)
    shards = 12 if thorough else 8

    # G1: grid of boundary instants x offsets x writers x rotating forms.  A literal is kept when its hash (shifted by the
    # seed) falls on residue 0 modulo K; the thorough tier walks through several residues, one chunk at a time.
    durs_rot = duration_texts(secs, rng, per_duration=None if thorough else 4)
    if thorough:
        years, days, times, offsets, kmod, chunks, fper = YEARS + YEARS_MORE, DAYS + DAYS_MORE, TIMES + TIMES_MORE, OFFSETS + OFFSETS_MORE, 16, 8, 4
    else:
        years, days, times, offsets, kmod, chunks, fper = YEARS, DAYS, TIMES, OFFSETS, 3, 1, 1
    c1 = {}
    ngrid = 0
    for j in range(chunks):
        grid, r1 = gen("c14grid", "grid", seed + j, k=kmod, forms_per=fper, years=years, days=days, times=times,
                       offsets=offsets, writers=WRITERS, durs=durs_rot, anchors=ANCHORS, convoffs=CONV_OFFSETS, zones=ZONES,
                       workers=8 if thorough else 4, timeout=2400, coverage=True)
        vacuity_gate(r1, "grid")
        run.add_tlc(r1, "MC_DateGen grid (residue %d of %d)" % (j, kmod))
        for t, n in decide(run, grid, "grid", units, shards).items():
            c1[t] = c1.get(t, 0) + n
        ngrid += len(grid)
        if j == 0:
            run.sample({"leg": "grid", "q": grid[len(grid) // 2]["q"]})
            run.sample({"leg": "grid", "q": grid[len(grid) // 5]["q"]})
        del grid

    # G1r: the same machine over seeded random instants, offsets and durations
    ry = sorted(rng.sample(range(1, 10000), 8 if thorough else 4))
    rd = sorted({(m, rng.randint(1, 28 if m == 2 else 30)) for m in rng.sample(range(1, 13), 8 if thorough else 4)})
    rt = sorted({(rng.randint(0, 23), rng.randint(0, 59), rng.randint(0, 59),
                  "".join(rng.choice("0123456789") for _ in range(rng.choice([0, 1, 3, 6, 9, 9]))))
                 for _ in range(8 if thorough else 4)})
    ro = [(0, 0)] + sorted({(1, rng.choice([-1, 1]) * (rng.randint(0, 23) * 3600 + rng.choice([0, 15, 30, 45, 59]) * 60))
                            for _ in range(6 if thorough else 3)}) + [(2, rng.randint(1, len(ZONES)))]
    rdur = random_duration_texts(secs, rng, 400 if thorough else 60)
    rgrid, r1r = gen("c14rand", "grid", seed, k=2, forms_per=4 if thorough else 2, years=ry, days=rd, times=rt, offsets=ro,
                     writers=WRITERS, durs=rdur, anchors=ANCHORS, convoffs=CONV_OFFSETS, zones=ZONES, workers=4, timeout=2400, coverage=True)
    vacuity_gate(r1r, "grid")
    run.add_tlc(r1r, "MC_DateGen grid over seeded random constants")
    c1r = decide(run, rgrid, "rand", units, shards)
    run.sample({"leg": "rand", "q": rgrid[len(rgrid) // 2]["q"]})

    # G2: every duration text x anchors x arithmetic forms
    durs_all = duration_texts(secs, rng, per_duration=None if thorough else 6)
    anchors = ANCHORS if thorough else [ANCHORS[i] for i in sorted(rng.sample(range(6), 2) + rng.sample(range(6, len(ANCHORS)), 1))]
    dur, r2 = gen("c14dur", "dur", seed, durs=durs_all, anchors=anchors, workers=2, timeout=1200, coverage=True)
    vacuity_gate(r2, "dur")
    run.add_tlc(r2, "MC_DateGen dur")
    c2 = decide(run, dur, "dur", units, shards)
    run.sample({"leg": "dur", "q": dur[len(dur) // 2]["q"]})

    # G3: literals with one field out of range
    # (a soft literal - second 60, minute 60, hour 24, a wrong weekday - also inside the arithmetic forms: refused, or the laws hold)
    bad_durs = ["1 s", "-1 s", "1 ns", "0.5 s", "86400 s", "1 min", "-1 ns", "2 s", "1 hour"] + random_duration_texts(secs, rng, 6)
    bad, r3 = gen("c14bad", "bad", seed, forms_per=4 if thorough else 1,
                  years=[1900, 2000, 9999] if thorough else [rng.choice([1900, 2100, 1969, 2016]), 2000],
                  days=[(1, 31), (12, 1), (12, 31)] if thorough else [rng.choice([(1, 31), (12, 31)])],
                  times=[(23, 59, 59, "5"), (0, 0, 0, ""), (12, 0, 59, "")] if thorough else [(23, 59, 59, "5")],
                  offsets=[(0, 0), (1, 19800)], writers=WRITERS, durs=bad_durs, anchors=ANCHORS, workers=4, timeout=1200, coverage=True)
    vacuity_gate(r3, "bad")
    run.add_tlc(r3, "MC_DateGen bad")
    c3 = decide(run, bad, "bad", units, shards)
    run.sample({"leg": "bad", "q": bad[len(bad) // 2]["q"], "mutation": bad[len(bad) // 2]["mut"]})

    # G4: literals that write a time only or an incomplete date (year and ISO week, month and day without a year):
    # never an instant outside what the written fields allow
    py = sorted({2020, 2016} | set(rng.sample(range(1, 10000), 6 if thorough else 2)))
    pd = [(1, 1), (12, 31), (2, 29), (3, 15)] + [(rng.randint(1, 12), rng.randint(1, 28)) for _ in range(4 if thorough else 1)]
    pt = [(0, 0, 0, ""), (10, 30, 0, ""), (23, 59, 59, "999999999")] + ([(12, 0, 1, "5"), (0, 59, 0, "")] if thorough else [])
    po = [(0, 0), (1, 0), (1, -14400), (1, 50400), (2, 2)] + ([(1, 19800), (1, -43200), (2, 4)] if thorough else [])
    part, r4 = gen("c14part", "partial", seed, years=py, days=sorted(set(pd)), times=pt, offsets=po, zones=ZONES, workers=4,
                   timeout=1200, coverage=True)
    vacuity_gate(r4, "partial")
    run.add_tlc(r4, "MC_DateGen partial")
    c5 = decide(run, part, "partial", units, shards)
    run.sample({"leg": "partial", "q": part[len(part) // 2]["q"], "writer": part[len(part) // 2]["mut"]})

    # G5: the context clock.  ONE long-lived context; the clock (Context::set_time) is moved by hours, a day, years,
    # forwards and backwards, and under every setting the same literals are evaluated again: a full date literal denotes
    # the same instant whatever the clock, a time-only literal that time on the clock's day, `now` the clock.
    tod = sorted({c["q"][1:-1] for c in part if c["mut"] in ("tod24", "tod12")})
    oth = sorted({c["q"][1:-1] for c in part if c["mut"] not in ("tod24", "tod12")})
    full = sorted({m for c in rgrid for m in _lit_re.findall(c["q"])[:1]})
    lits = (rng.sample(tod, min(len(tod), 40 if thorough else 14)) + rng.sample(oth, min(len(oth), 12 if thorough else 4))
            + rng.sample(full, min(len(full), 30 if thorough else 8)) + ANCHORS[:3] + ["2016-12-31 23:59:60", "10:30 +00:00"])
    lits = list(dict.fromkeys(lits))
    clocks = list(CLOCKS if thorough else CLOCKS[:4])
    for _ in range(4 if thorough else 1):
        clocks.append((rng.randint(1971, 2399), rng.randint(1, 12), rng.randint(1, 28), rng.randint(0, 23), rng.randint(0, 59), rng.randint(0, 59)))
    cq, ck = [], []
    for c in clocks:
        for t in ["now", "now + 1 day", "now - #%s#" % CLOCK_ANCHOR]:
            cq.append(t)
            ck.append(c)
        for l in lits:
            for t in ("#%s#" % l, "now - #%s#" % l, "#%s# - #%s#" % (l, CLOCK_ANCHOR)):
                cq.append(t)
                ck.append(c)
    c6 = decide(run, [{"q": q, "mut": "clock"} for q in cq], "clock", units, shards, clocks=ck)
    run.sample({"leg": "clock", "q": cq[len(cq) // 2], "clock": list(ck[len(cq) // 2])})
    run.note("clock_leg", {"literals": len(lits), "time_only": sum(1 for l in lits if l in set(tod)), "clock_settings": [list(c) for c in clocks]})
    if c6.get("SILENT", 0) + c6.get("UNSUPPORTED", 0) > len(cq) // 3:
        raise vlib.ToolError("leg clock: the specification was silent on more than a third of the queries")

    # regression seeds
    c4 = decide(run, [{"q": q, "mut": "none"} for q in SEEDS], "seeds", units, 1, min_per_shard=1000)
    run.sample({"leg": "seeds", "q": SEEDS[2]})
    run.note("verdict_counts", {"grid": c1, "rand": c1r, "dur": c2, "bad": c3, "partial": c5, "clock": c6, "seeds": c4})
    for leg, c in (("grid", c1), ("rand", c1r), ("dur", c2), ("bad", c3), ("partial", c5)):
        n = {"grid": ngrid, "rand": len(rgrid), "dur": len(dur), "bad": len(bad), "partial": len(part)}[leg]
        if c.get("SILENT", 0) + c.get("UNSUPPORTED", 0) > n // 2:
            raise vlib.ToolError("leg %s: the specification was silent on more than half of the generated queries" % leg)

    # the binding is not vacuous: corrupted observations must be rejected
    res, evs = run_queries(["(#2000-02-29 23:59:59 -04:00# + 86400 s) - #2000-02-29 23:59:59 -04:00#",
                            "#2000-02-28 23:59:59 +05:30# + 1 day", "#2000-02-28# -> -04:00"], 1, "c14self")
    ok = all(e["obs"].get("t") in ("num", "date") for e in evs)
    if ok:
        good, _ = judge([json.loads(json.dumps(e)) for e in evs], units, 1, "c14selfg")
        ok = not any(good.get(i, set()) & {"REJECT", "CRASH", "SILENT"} for i in range(3))
    if ok:
        evs[0]["obs"]["v"]["n"]["mag"][0] += 1
        evs[1]["obs"]["exact"]["secs"]["mag"][0] ^= 1          # the value behind the reply: one second off
        evs[2]["obs"]["rfc"][3] = (evs[2]["obs"]["rfc"][3] + 1) % 24
        evs[2]["obs"]["fields"][3] = evs[2]["obs"]["rfc"][3]
        verdicts, _ = judge(evs, units, 1, "c14selfj")
        if not all("REJECT" in verdicts.get(i, set()) for i in range(3)):
            raise vlib.ToolError("self-check: a corrupted observation was not rejected by Trace_Date")
        run.note("selfcheck_corrupted_observation_rejected", True)
        # the clock binding: the reply to a time-only literal is accepted under the clock it was made with and rejected
        # under a clock one day later; without a clock it is rejected when its time of day is changed
        _, cevs = run_queries(["#10:30 +00:00#", "#10:30 +00:00#", "#11:59:59.5 pm -04:00#"], 1, "c14selfc",
                              clocks=[CLOCKS[0], CLOCKS[1], CLOCKS[1]])
        if all(e["obs"].get("t") == "date" for e in cevs):
            good, _ = judge([json.loads(json.dumps(e)) for e in cevs], units, 1, "c14selfcg")
            if not any(good.get(i, set()) & {"REJECT", "CRASH", "SILENT"} for i in range(3)):
                cevs[1]["clock"] = list(CLOCKS[3])
                del cevs[2]["clock"]
                cevs[2]["obs"]["rfc"][4] = cevs[2]["obs"]["fields"][4] = 58
                verdicts, _ = judge(cevs, units, 1, "c14selfcj")
                if "REJECT" in verdicts.get(0, set()) or not all("REJECT" in verdicts.get(i, set()) for i in (1, 2)):
                    raise vlib.ToolError("self-check: the clock binding of Trace_Date did not reject a reply made under another clock")
                run.note("selfcheck_other_clock_rejected", True)
    else:
        # the unchanged observations are themselves not accepted (the code is broken there): the violations above say so
        run.note("selfcheck_corrupted_observation_rejected", "skipped: the uncorrupted replies are already rejected")
        if not run.violations and not run.known_hits:
            raise vlib.ToolError("self-check: the uncorrupted self-check replies were not accepted, yet no violation was reported")
    vlib.write_ndjson(os.path.join(vlib.WORK, "c14-rejects.ndjson"), _rejects)
    return run.finish()


def replay(path, seed):
    body = json.load(open(path))
    q = body["case"]["q"]
    vlib.build_harness()
    units, _ = unit_env()
    if "clock" in body["case"]:
        # the clock leg: the earlier queries of the sequence that share a literal with this one, then the query itself
        hist = body["case"].get("history", [])
        texts = [h["q"] for h in hist] + [q]
        res, evs = run_queries(texts, 1, "c14r", clocks=[h["clock"] for h in hist] + [body["case"]["clock"]])
        res, evs = res[-1:], evs[-1:]
        log("clock: %s after %d earlier queries on the same context" % (body["case"]["clock"], len(hist)))
    else:
        res, evs = run_queries([q], 1, "c14r")
    verdicts, _ = judge(evs, units, 1, "c14rj")
    v = verdicts.get(0, {"ACCEPT"})
    log("query: %r\nobserved: %s\nverdict: %s" % (q, json.dumps(obs_brief(res[0]))[:600], sorted(v)))
    return 1 if v & {"REJECT", "CRASH"} else 0


def random_duration_texts(secs, rng, n):
    """seeded random whole-nanosecond durations (1 ns .. about 10^21 ns), random sign, random unit spelling"""
    out = []
    for _ in range(n):
        ns = rng.getrandbits(rng.randint(1, 70)) + 1
        out.append(rng.choice(["", "-"]) + spell(ns, rng.choice(TIME_SPELLINGS), secs))
    return out


def probe(texts):
    """development helper: run and judge a few texts (`text @ y-m-d-h-mi-s` sets the clock), print everything"""
    vlib.build_harness()
    units, _ = unit_env()
    clocks = None
    if all(" @ " in t for t in texts):
        clocks = [tuple(int(x) for x in t.split(" @ ")[1].split("-")) for t in texts]
        texts = [t.split(" @ ")[0] for t in texts]
    res, evs = run_queries(texts, 2, "c14p", clocks=clocks)
    verdicts, st = judge(evs, units, 4, "c14pj", min_per_shard=20)
    for i, t in enumerate(texts):
        print(t, "=>", sorted(verdicts.get(i, {"ACCEPT"})), json.dumps(obs_brief(res[i]))[:160])


if __name__ == "__main__":
    import sys
    probe([l.rstrip("\n") for l in sys.stdin if l.strip()])
