"""C11 - printed expressions re-parse to the same expression. TLC enumerates fully parenthesised source
texts (every operator, function and affix in every operand position over the leaves a, b, 2); the code
parses each, prints the tree (Display for Expr, also through the serde exchange form of a definition) and
the judge (Printer.tla + Grammar.tla) parses the printed text back and compares with the tree. The
transcribed printer is also checked at design level (SPECRT) and the original printer is shown to fail."""
import json
import random

import evalkit
import vlib
from vlib import log

PROP = "C11"
ALL_BIN = ["+", "-", "*", "/", "|", "", "^", "=", "mod", "<<", ">>", "and", "or", "xor"]
REP_BIN = ["+", "-", "*", "/", "|", "", "^", "=", "mod"]
UN = ["-", "+", "p of "]
POST = [" °C", " %", " degF"]


def rand_src(rng, depth):
    if depth == 0 or rng.random() < 0.2:
        return rng.choice(["a", "b", "2", "c", "'q'", "17", "'caf\u00e9'", "'\u00c5ngstr\u00f6m'", "'5\" pipe'", "'a b'", "\u00b5"])
    r = rng.random()
    if r < 0.12:
        return "(%s%s)" % (rng.choice(UN), rand_src(rng, depth - 1))
    if r < 0.2:
        return "(%s%s)" % (rand_src(rng, depth - 1), rng.choice(POST))
    if r < 0.26:
        return "%s(%s)" % (rng.choice(["sqrt", "ln", "sin"]), rand_src(rng, depth - 1))
    if r < 0.3:
        return "%s(%s, %s)" % (rng.choice(["hypot", "atan2", "log"]), rand_src(rng, depth - 1), rand_src(rng, depth - 1))
    if r < 0.36:
        return "(%s %s %s)" % (rand_src(rng, depth - 1), rand_src(rng, depth - 1), rand_src(rng, depth - 1))
    return "(%s %s %s)" % (rand_src(rng, depth - 1), rng.choice(ALL_BIN), rand_src(rng, depth - 1))


def decide(run, texts, leg, shards):
    import time
    t0 = time.time()
    res = evalkit.run_eval([{"rt": t} for t in texts], ctx="empty", shards=shards, tag="c11" + leg)
    events = []
    for r, t in zip(res, texts):
        if "crash" in r:
            events.append({"q": [ord(c) for c in t], "ast": {"k": "err"}, "printed": [63], "same": False, "serde": "crash"})
        else:
            events.append({"q": r["q"], "ast": r["ast"], "printed": r["printed"], "same": r["same"], "serde": r["serde"],
                           "rprinted": r["rprinted"], "rsame": r["rsame"], "rok": r["rok"]})
    verdicts, st = evalkit.judge(events, "Trace_Print", shards=shards, tag="c11j" + leg)
    run.cov["states"] += st["distinct"]
    run.cov["transitions"] += st["generated"]
    run.traces(len(events))
    n = {"SILENT": 0, "ASTDIFF": 0, "NOTE": 0, "SPECRT": 0, "REJECT": 0}
    for i, ev in enumerate(events):
        run.count()
        v = verdicts.get(i, set())
        for k in n:
            if k in v:
                n[k] += 1
        if "SILENT" in v or "UNSUPPORTED" in v:
            continue
        printed = evalkit.s_of(ev["printed"])
        run.nontrivial(printed)
        if "ASTDIFF" in v and n["ASTDIFF"] <= 3:
            run.drift_note("Grammar", "the code's AST differs from the specification's parse of %r" % texts[i])
        if "NOTE" in v and n["NOTE"] <= 3:
            run.drift_note("Printer", "code printed %r for %r, the transcription prints something else" % (printed, texts[i]))
        if "SPECRT" in v and n["SPECRT"] <= 3:
            run.drift_note("Printer", "design-level: the transcribed printer does not round-trip the tree of %r" % texts[i])
        if "REJECT" in v:
            run.violation({"engine": "print", "leg": leg, "q": texts[i], "printed": printed, "same": ev["same"], "serde": ev["serde"],
                           "structured": evalkit.s_of(ev.get("rprinted", [])), "structured_same": ev.get("rsame")},
                          "the printed text and the structured token form parse back to the tree they were printed from",
                          {"printed": printed, "code_reparse_same": ev["same"], "serde": ev["serde"],
                           "structured": evalkit.s_of(ev.get("rprinted", [])), "structured_reparse_same": ev.get("rsame")}, "print")
    log("[C11] leg %s: %d texts %s %.1fs" % (leg, len(texts), n, time.time() - t0))


KEYWORD_UNITS = ["in", "to", "%"]        # names of shipped units that are also words of the query language


def keyword_units_leg(run, shards):
    """the shipped definitions use units called `in`, `to`, `%` (`usgallon 231 in^3`, `smoot 5 ft + 7 in`, `koku 10 to`); the trees
    are built from JSON (no query text produces them), printed by the code and read back by the specification's parser"""
    def U(n):
        return {"k": "unit", "name": [ord(c) for c in n]}

    def C(n):
        return {"k": "const", "v": {"n": {"neg": False, "mag": [n]}, "d": [1]}}
    trees = []
    for kw in KEYWORD_UNITS + ["ft"]:
        u = U(kw)
        trees += [(kw, u), (kw, {"k": "bin", "op": "pow", "l": u, "r": C(3)}), (kw, {"k": "mul", "es": [C(231), {"k": "bin", "op": "pow", "l": u, "r": C(3)}]}),
                  (kw, {"k": "bin", "op": "add", "l": {"k": "mul", "es": [C(5), U("ft")]}, "r": {"k": "mul", "es": [C(7), u]}}),
                  (kw, {"k": "mul", "es": [C(10), u]}), (kw, {"k": "bin", "op": "frac", "l": U("a"), "r": u}), (kw, {"k": "mul", "es": [u, U("a")]})]
    res = evalkit.run_eval([{"expr": t} for _, t in trees], ctx="empty", shards=1, tag="c11kw")
    events, kept = [], []
    for (kw, t), r in zip(trees, res):
        if "crash" in r or r.get("bad_job"):
            raise vlib.ToolError("keyword-units leg: the harness could not build a tree (%s)" % kw)
        events.append({"q": r["printed"], "fromast": True, "ast": r["orig"], "printed": r["printed"], "same": r["same"]})
        kept.append((kw, r))
    verdicts, st = evalkit.judge(events, "Trace_Print", shards=1, tag="c11jkw")
    run.cov["states"] += st["distinct"]
    run.traces(len(events))
    ok_control = 0
    for i, (kw, r) in enumerate(kept):
        run.count()
        printed = evalkit.s_of(r["printed"])
        run.nontrivial("kw:" + printed)
        if "REJECT" in verdicts.get(i, set()):
            run.violation({"engine": "print", "leg": "keyword-units", "unit": kw, "printed": printed, "keyword_unit": kw in KEYWORD_UNITS},
                          "the printed text parses back to the tree it was printed from",
                          {"printed": printed, "code_reparse_same": r["same"], "reads_back_as": r.get("back")}, "print")
        elif kw == "ft":
            ok_control += 1
    if ok_control < 7:
        raise vlib.ToolError("keyword-units leg: the control trees (unit ft) were not all accepted")
    log("[C11] leg keyword-units: %d trees built from JSON" % len(events))


def run(tier, seed):
    run = vlib.Run(PROP, tier, seed, "model_checking")
    thorough = tier == "thorough"
    run.cov["rule"] = ("TLC enumerates every fully parenthesised source text with <=2 binary operators over all 14 operator spellings and with "
                       "<=2 (3 thorough) over one representative per precedence class plus unary signs, `of`, temperature suffix, percent, 1- and "
                       "2-argument calls in every position, leaves {a, b, 2}; seeded random deeper trees. Each parsed tree is printed by the code "
                       "and re-read by the specification's parser. non-trivial = distinct printed text of a printable tree.")
    run.assumptions += ["leaves are identifiers and integers that print exactly; date literals and error nodes are excluded as the property says"]
    vlib.build_harness()
    rng = random.Random(seed)
    shards = 12 if thorough else 8
    t1, r1 = evalkit.gen_cases("c11a", "tree", lits=["a", "b", "2"], binops=ALL_BIN, maxbin=2, maxun=0)
    run.add_tlc(r1, "MC_ExprGen tree all operators")
    t2, r2 = evalkit.gen_cases("c11b", "tree", lits=["a", "b"], binops=REP_BIN, unops=UN, postops=POST[:2], funcs=["sqrt"], funcs2=["hypot"],
                               maxbin=2, maxun=1)
    run.add_tlc(r2, "MC_ExprGen tree with affixes")
    texts = t1 + t2
    if thorough:
        t3, r3 = evalkit.gen_cases("c11c", "tree", lits=["a", "b"], binops=REP_BIN, maxbin=3, maxun=0)
        run.add_tlc(r3, "MC_ExprGen tree 3 operators")
        t4, r4 = evalkit.gen_cases("c11d", "tree", lits=["a", "2"], binops=["-", "*", "", "/", "^"], unops=UN, postops=POST[:1], maxbin=2, maxun=2)
        run.add_tlc(r4, "MC_ExprGen tree two affixes")
        texts += t3 + t4
    decide(run, texts, "tree", shards)
    run.sample({"leg": "tree", "source": t2[len(t2) // 2]})
    tv = [rand_src(rng, rng.randint(3, 6)) for _ in range(30000 if thorough else 3000)]
    decide(run, tv, "random", shards)
    run.sample({"leg": "random", "source": tv[0]})

    keyword_units_leg(run, shards)

    # design level: the ORIGINAL printer (before the fix) must fail RoundTrip on a right-nested subtraction
    ev = [{"q": [ord(c) for c in "(a - (b - a))"], "ast": {"k": "bin", "op": "sub", "l": {"k": "unit", "name": [97]},
           "r": {"k": "bin", "op": "sub", "l": {"k": "unit", "name": [98]}, "r": {"k": "unit", "name": [97]}}},
           "printed": [ord(c) for c in "a - b - a"], "same": False, "serde": "diff"}]
    verdicts, _ = evalkit.judge(ev, "Trace_Print", shards=1, tag="c11self")
    if "REJECT" not in verdicts.get(0, set()):
        raise vlib.ToolError("self-check: the text the original printer produced for a - (b - a) was not rejected")
    run.note("selfcheck_original_printer_output_rejected", True)
    return run.finish()


def replay(path, seed):
    body = json.load(open(path))
    q = body["case"]["q"]
    vlib.build_harness()
    run = vlib.Run(PROP, "quick", seed, "model_checking")
    decide(run, [q], "replay", 1)
    return 1 if run.violations else 0
