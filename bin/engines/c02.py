"""C02 - dimensional analysis. TLC enumerates expression trees over a unit alphabet and every operator /
function; random trees over names of the whole bundled database; the judge (Trace_Query: Lexer, Grammar,
Eval with Dim.tla) determines the dimensionality or the refusal of each. Leaf values come from the
registry dump of the loaded context, all algebra on top is the specification's."""
import json
import random
from fractions import Fraction

import evalkit
import vlib

PROP = "C02"
UNIT_LITS = ["1", "m", "s", "(m/s)", "m^2", "(1/s)", "kg", "radian", "'widget'", "(-2 m)", "(1|3 s)", "3"]
EXPO_LITS = ["2", "-2", "0", "(1|2)", "(1|3)", "3", "-1"]
FUNCS1 = ["sqrt", "sin", "cos", "tan", "asin", "acos", "atan", "exp", "ln", "sinh"]
FUNCS2 = ["hypot", "atan2", "log"]
# float-valued exponent expressions (whole, 1/n, neither; positive, zero, negative) and the bases they are applied to
FEXPS = ["sqrt(2)", "ln(3)", "sqrt(0.25)", "sqrt(4)", "exp(0)", "sin(0)", "hypot(3, 4)", "(sqrt(9) / 2)", "(0 - sqrt(4))",
         "(0 - sqrt(0.25))", "sqrt(1|9)", "sqrt(1|16)", "log2(8)", "(cos(0) * 3)", "atan2(0, 1)", "(sqrt(4) - 2)", "(0 * sqrt(2))"]
FBASES = ["(3 m)", "(2 kg)", "(4 m^2)", "(9 m^2/s^4)", "5", "(16 m^4 kg^-8)", "(0 m)", "(m/m)", "(sqrt(4) m^2)"]


def limbs(n):
    out = []
    while n:
        out.append(n % 4096)
        n //= 4096
    return out


def float_exponent_leg(run, env, thorough):
    """B ^ E with a float-valued E: the exponent is evaluated on its own first, and the specification judges the power
    GIVEN that observed value (Query.tla PowWithObservedExponent)."""
    bases = FBASES if thorough else FBASES[:7]
    texts, r = evalkit.gen_cases("c02fexp", "tree", lits=bases + FEXPS, binops=["^"], maxbin=1)
    run.add_tlc(r, "MC_ExprGen tree (float exponents)")
    want = {"(%s ^ %s)" % (b, e): e for b in bases for e in FEXPS}
    pairs = [(t, want[t]) for t in texts if t in want]
    if len(pairs) != len(bases) * len(FEXPS):
        raise vlib.ToolError("float-exponent leg: TLC produced %d of %d base^exponent texts" % (len(pairs), len(bases) * len(FEXPS)))
    res_e = evalkit.run_eval([{"qs": e} for e in FEXPS], ctx="bundled", shards=1, tag="c02fe")
    val = {}
    for e, r0 in zip(FEXPS, res_e):
        o = r0.get("obs") or {}
        if o.get("t") == "float" and o.get("f") not in (None, "NaN", "inf", "-inf"):
            fr = Fraction(float(o["f"]))
            val[e] = {"n": {"neg": fr < 0, "mag": limbs(abs(fr.numerator))}, "d": limbs(fr.denominator)}
    if len(val) < len(FEXPS) - 2:
        raise vlib.ToolError("float-exponent leg: only %d of %d exponent expressions evaluated to a float" % (len(val), len(FEXPS)))
    pairs = [(t, e) for t, e in pairs if e in val]
    res = evalkit.run_eval([{"qs": t} for t, _ in pairs], ctx="bundled", shards=2, tag="c02fp")
    events = [evalkit.slim_event(r1, extra={"fexp": val[e]}, keep_parts=True) for r1, (_, e) in zip(res, pairs)]
    verdicts, st = evalkit.judge(events, "Trace_Query", shards=2, tag="c02jfexp", env=env, min_per_shard=20)
    run.cov["states"] += st["distinct"]
    run.cov["transitions"] += st["generated"]
    run.traces(len(events))
    nsil = 0
    for i, (t, e) in enumerate(pairs):
        run.count()
        v = verdicts.get(i, set())
        if "SILENT" in v or "UNSUPPORTED" in v:
            nsil += 1
            continue
        run.nontrivial(t)
        if "REJECT" in v or "CRASH" in v:
            run.violation({"engine": "query", "leg": "float-exponent", "q": t, "exponent": e, "exponent_value": res_e[FEXPS.index(e)]["obs"].get("f")},
                          "given the value the code itself computes for the exponent: the integer power, the exact root, or a refusal "
                          "for a base that carries units", evalkit.strip_nulls(res[i].get("obs", {})), "query")
    vlib.log("[C02] leg float-exponent: %d powers, %d silent" % (len(pairs), nsil))
    if nsil > len(pairs) // 3:
        raise vlib.ToolError("float-exponent leg: the specification was silent on %d of %d cases" % (nsil, len(pairs)))
    run.sample({"leg": "float-exponent", "q": pairs[len(pairs) // 2][0]})


def envs(run):
    dump = evalkit.registry_dump("bundled")
    path = evalkit.env_file(dump, "c02env")
    return dump, {"ENVFILE": path, "CLOSED": "0", "TEXTBOOK": "0"}


def rand_name(rng, dump):
    u = rng.choice(dump["units"])["s"]
    r = rng.random()
    if r < 0.25:
        u = rng.choice(dump["prefixes"])["s"] + u
    if rng.random() < 0.15:
        u = u + "s"
    return u


def rand_tree(rng, dump, depth):
    if depth == 0 or rng.random() < 0.3:
        r = rng.random()
        if r < 0.7:
            return rand_name(rng, dump)
        if r < 0.8:
            return "'q%d'" % rng.randint(1, 3)
        return rng.choice(["2", "1|3", "-5", "0.25"])
    r = rng.random()
    if r < 0.12:
        return "%s(%s)" % (rng.choice(FUNCS1), rand_tree(rng, dump, depth - 1))
    if r < 0.17:
        return "%s(%s, %s)" % (rng.choice(FUNCS2), rand_tree(rng, dump, depth - 1), rand_tree(rng, dump, depth - 1))
    if r < 0.3:
        return "(%s)^%s" % (rand_tree(rng, dump, depth - 1), rng.choice(["2", "-1", "3", "0", "(1|2)", "-2"]))
    op = rng.choice(["*", "/", " ", "+", "-", "mod", "*", "/"])
    return "(%s %s %s)" % (rand_tree(rng, dump, depth - 1), op, rand_tree(rng, dump, depth - 1))


def identish(q):
    return any(c.isalpha() for c in q)


def run(tier, seed):
    run = vlib.Run(PROP, tier, seed, "model_checking")
    thorough = tier == "thorough"
    run.cov["rule"] = ("TLC enumerates fully parenthesised trees (<=2 binary operators quick / 3 thorough, every unary function, every "
                       "two-argument function, powers incl. 0, negative and 1/2, 1/3) over a 12-element unit alphabet; seeded random "
                       "trees over every unit name of the bundled database with random prefixes and plural forms. non-trivial = "
                       "distinct text mentioning a unit whose dimensionality or refusal the specification determines.")
    run.assumptions += ["leaf values/dimensionalities are taken from the registry dump of the loaded context (C08 checks them)",
                        "float-valued results: only dimensionality and error behaviour are specified"]
    vlib.build_harness()
    dump, env = envs(run)
    rng = random.Random(seed)
    shards = 12 if thorough else 8

    lits = UNIT_LITS[:]
    rng.shuffle(lits)
    lits = lits[:12 if thorough else 8]
    for must in ("m", "s", "radian"):
        if must not in lits:
            lits[rng.randrange(len(lits))] = must
    t1, r1 = evalkit.gen_cases("c02bin", "tree", lits=lits, binops=["*", "/", "", "+", "-", "mod"], maxbin=2)
    run.add_tlc(r1, "MC_ExprGen tree (binary)")
    t2, r2 = evalkit.gen_cases("c02pow", "tree", lits=lits[:6] + EXPO_LITS, binops=["^"], maxbin=2 if thorough else 1)
    run.add_tlc(r2, "MC_ExprGen tree (powers)")
    t3, r3 = evalkit.gen_cases("c02fn", "tree", lits=lits[:7], binops=["*", "/", "+"], funcs=FUNCS1, funcs2=FUNCS2,
                               maxbin=1, maxun=1)
    run.add_tlc(r3, "MC_ExprGen tree (functions)")
    texts = t1 + t2 + t3
    if thorough:
        t4, r4 = evalkit.gen_cases("c02bin3", "tree", lits=lits[:5], binops=["*", "/", "+", "mod"], maxbin=3)
        run.add_tlc(r4, "MC_ExprGen tree (3 operators)")
        texts += t4
    evalkit.decide(run, texts, "tree", env=env, shards=shards, nontrivial=identish)
    run.sample({"leg": "tree", "alphabet": lits, "q": t1[len(t1) // 2]})
    run.sample({"leg": "functions", "q": t3[len(t3) // 2]})

    float_exponent_leg(run, env, thorough)

    n = 50000 if thorough else 6000
    tv = [rand_tree(rng, dump, rng.randint(1, 4)) for _ in range(n)]
    evalkit.decide(run, tv, "random", env=env, shards=16 if thorough else 8, nontrivial=identish)
    run.sample({"leg": "random", "q": tv[0]})

    def corrupt(ev):
        ev["obs"]["d"][0]["e"] += 1
    evalkit.selfcheck_corrupt(run, "3 m * 2 s", corrupt, env=env)
    return run.finish()


def replay(path, seed):
    run = vlib.Run(PROP, "quick", seed, "model_checking")
    vlib.build_harness()
    _, env = envs(run)
    return evalkit.replay_query(PROP, path, env=env)
