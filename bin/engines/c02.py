"""C02 - dimensional analysis. TLC enumerates expression trees over a unit alphabet and every operator /
function; random trees over names of the whole bundled database; the judge (Trace_Query: Lexer, Grammar,
Eval with Dim.tla) determines the dimensionality or the refusal of each. Leaf values come from the
registry dump of the loaded context, all algebra on top is the specification's."""
import json
import random

import evalkit
import vlib

PROP = "C02"
UNIT_LITS = ["1", "m", "s", "(m/s)", "m^2", "(1/s)", "kg", "radian", "'widget'", "(-2 m)", "(1|3 s)", "3"]
EXPO_LITS = ["2", "-2", "0", "(1|2)", "(1|3)", "3", "-1"]
FUNCS1 = ["sqrt", "sin", "cos", "tan", "asin", "acos", "atan", "exp", "ln", "sinh"]
FUNCS2 = ["hypot", "atan2", "log"]


def envs(run):
    dump = evalkit.registry_dump("bundled")
    path = evalkit.env_file(dump, "c02env")
    return dump, {"ENVFILE": path, "CLOSED": "0", "TEXTBOOK": "0"}


def rand_name(rng, dump):
    u = rng.choice(dump["units"])["s"]
    r = rng.random()
    if r < 0.25:
        u = rng.choice(dump["prefixes"])["s"] + u
    if rng.random() < 0.15:
        u = u + "s"
    return u


def rand_tree(rng, dump, depth):
    if depth == 0 or rng.random() < 0.3:
        r = rng.random()
        if r < 0.7:
            return rand_name(rng, dump)
        if r < 0.8:
            return "'q%d'" % rng.randint(1, 3)
        return rng.choice(["2", "1|3", "-5", "0.25"])
    r = rng.random()
    if r < 0.12:
        return "%s(%s)" % (rng.choice(FUNCS1), rand_tree(rng, dump, depth - 1))
    if r < 0.17:
        return "%s(%s, %s)" % (rng.choice(FUNCS2), rand_tree(rng, dump, depth - 1), rand_tree(rng, dump, depth - 1))
    if r < 0.3:
        return "(%s)^%s" % (rand_tree(rng, dump, depth - 1), rng.choice(["2", "-1", "3", "0", "(1|2)", "-2"]))
    op = rng.choice(["*", "/", " ", "+", "-", "mod", "*", "/"])
    return "(%s %s %s)" % (rand_tree(rng, dump, depth - 1), op, rand_tree(rng, dump, depth - 1))


def identish(q):
    return any(c.isalpha() for c in q)


def run(tier, seed):
    run = vlib.Run(PROP, tier, seed, "model_checking")
    thorough = tier == "thorough"
    run.cov["rule"] = ("TLC enumerates fully parenthesised trees (<=2 binary operators quick / 3 thorough, every unary function, every "
                       "two-argument function, powers incl. 0, negative and 1/2, 1/3) over a 12-element unit alphabet; seeded random "
                       "trees over every unit name of the bundled database with random prefixes and plural forms. non-trivial = "
                       "distinct text mentioning a unit whose dimensionality or refusal the specification determines.")
    run.assumptions += ["leaf values/dimensionalities are taken from the registry dump of the loaded context (C08 checks them)",
                        "float-valued results: only dimensionality and error behaviour are specified"]
    vlib.build_harness()
    dump, env = envs(run)
    rng = random.Random(seed)
    shards = 12 if thorough else 8

    lits = UNIT_LITS[:]
    rng.shuffle(lits)
    lits = lits[:12 if thorough else 8]
    for must in ("m", "s", "radian"):
        if must not in lits:
            lits[rng.randrange(len(lits))] = must
    t1, r1 = evalkit.gen_cases("c02bin", "tree", lits=lits, binops=["*", "/", "", "+", "-", "mod"], maxbin=2)
    run.add_tlc(r1, "MC_ExprGen tree (binary)")
    t2, r2 = evalkit.gen_cases("c02pow", "tree", lits=lits[:6] + EXPO_LITS, binops=["^"], maxbin=2 if thorough else 1)
    run.add_tlc(r2, "MC_ExprGen tree (powers)")
    t3, r3 = evalkit.gen_cases("c02fn", "tree", lits=lits[:7], binops=["*", "/", "+"], funcs=FUNCS1, funcs2=FUNCS2,
                               maxbin=1, maxun=1)
    run.add_tlc(r3, "MC_ExprGen tree (functions)")
    texts = t1 + t2 + t3
    if thorough:
        t4, r4 = evalkit.gen_cases("c02bin3", "tree", lits=lits[:5], binops=["*", "/", "+", "mod"], maxbin=3)
        run.add_tlc(r4, "MC_ExprGen tree (3 operators)")
        texts += t4
    evalkit.decide(run, texts, "tree", env=env, shards=shards, nontrivial=identish)
    run.sample({"leg": "tree", "alphabet": lits, "q": t1[len(t1) // 2]})
    run.sample({"leg": "functions", "q": t3[len(t3) // 2]})

    n = 50000 if thorough else 6000
    tv = [rand_tree(rng, dump, rng.randint(1, 4)) for _ in range(n)]
    evalkit.decide(run, tv, "random", env=env, shards=16 if thorough else 8, nontrivial=identish)
    run.sample({"leg": "random", "q": tv[0]})

    def corrupt(ev):
        ev["obs"]["d"][0]["e"] += 1
    evalkit.selfcheck_corrupt(run, "3 m * 2 s", corrupt, env=env)
    return run.finish()


def replay(path, seed):
    run = vlib.Run(PROP, "quick", seed, "model_checking")
    vlib.build_harness()
    _, env = envs(run)
    return evalkit.replay_query(PROP, path, env=env)
