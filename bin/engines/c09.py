"""C09 - unit lists and duration breakdowns decompose without loss. For values v and lists of conformable
units, the judge (Query.tla ListLaw) checks sum(part_i * u_i) = v exactly, integrality of all parts but the
last, sign coherence and the remainder bound; non-conformable members / values are refused; the automatic
year/week/day/hour/minute/second breakdown of time values obeys the same law."""
import itertools
import json
import random

import evalkit
import vlib
from engines.c03 import groups, lexable

PROP = "C09"
VALUES = ["0", "1|3", "-1|3", "59", "-59", "3600", "-3600", "90061.5", "-90061.5", "1e-30", "1180591620717411303424",
          "-1180591620717411303425|7", "86399.999999999", "31556925.9747"]


def rand_value(rng):
    r = rng.random()
    if r < 0.1:
        return "0"
    n = rng.getrandbits(rng.randint(1, 90))
    d = rng.getrandbits(rng.randint(1, 40)) + 1
    s = "-" if rng.random() < 0.4 else ""
    if r < 0.4:
        return "%s%d" % (s, n)
    if r < 0.6:
        return "%s%d.%d" % (s, n, d)
    return "%s%d|%d" % (s, n, d)


def run(tier, seed):
    run = vlib.Run(PROP, tier, seed, "model_checking")
    thorough = tier == "thorough"
    run.cov["rule"] = ("every ordered list of 2-3 units (with repeats) of the time family {s, min, hour, day, week} and the length family "
                       "{mm, inch, ft, yard, mile} x 14 boundary values; seeded random lists of 2..6 conformable units from every dimension "
                       "group of the bundled database x random rationals; lists with a non-conformable member; values not conformable with "
                       "the list; plain time values (duration breakdown). non-trivial = distinct query the specification determines.")
    run.assumptions += ["leaf values/dimensionalities from the registry dump (C08)"]
    vlib.build_harness()
    dump = evalkit.registry_dump("bundled")
    env = {"ENVFILE": evalkit.env_file(dump, "c09env"), "CLOSED": "0", "TEXTBOOK": "0"}
    rng = random.Random(seed)
    texts = []
    fams = [("s", ["s", "min", "hour", "day", "week"]), ("m", ["mm", "inch", "ft", "yard", "mile"])]
    for base, fam in fams:
        lists = list(itertools.product(fam, repeat=2)) + (list(itertools.product(fam, repeat=3)) if thorough else
                                                           rng.sample(list(itertools.product(fam, repeat=3)), 40))
        for us in lists:
            for v in (VALUES if thorough else rng.sample(VALUES, 6)):
                sep = rng.choice([";", ",", "; "])
                texts.append("%s %s -> %s" % (v, base, sep.join(us)))
    # duration breakdown: plain time values
    for v in VALUES:
        texts.append("%s s" % v)
        texts.append("%s hour + 1|7 s" % v)
    g = {k: [n for n in v if lexable(n)] for k, v in groups(dump).items()}
    g = {k: v for k, v in g.items() if len(v) >= 2}
    keys = sorted(g)
    allnames = [n for v in g.values() for n in v]
    for _ in range(40000 if thorough else 2500):
        names = g[rng.choice(keys)]
        k = rng.randint(2, 6)
        us = [rng.choice(names) for _ in range(k)]
        r = rng.random()
        src = rng.choice(names)
        if r < 0.08:
            us[rng.randrange(k)] = rng.choice(allnames)       # possibly non-conformable member
        elif r < 0.16:
            src = rng.choice(allnames)                         # possibly non-conformable value
        texts.append("%s %s -> %s" % (rand_value(rng), src, rng.choice([";", ","]).join(us)))
    for _ in range(3000 if thorough else 300):
        texts.append("%s %s" % (rand_value(rng), rng.choice(["s", "min", "hour", "day", "year", "ms", "week", "century"])))
    evalkit.decide(run, texts, "lists", env=env, shards=16 if thorough else 8)
    run.sample({"leg": "lists", "q": texts[0]})
    run.sample({"leg": "random", "q": texts[-400]})

    def corrupt(ev):
        ev["obs"]["list"][1]["raw"]["v"]["n"]["mag"][0] ^= 1
    evalkit.selfcheck_corrupt(run, "90061.5 s -> hour;min;s", corrupt, env=env)

    def corrupt2(ev):
        ev["obs"]["breakdown"][4]["raw"]["v"]["n"]["mag"] = [7]
    evalkit.selfcheck_corrupt(run, "90061.5 s", corrupt2, env=env)
    return run.finish()


def replay(path, seed):
    vlib.build_harness()
    dump = evalkit.registry_dump("bundled")
    env = {"ENVFILE": evalkit.env_file(dump, "c09env"), "CLOSED": "0", "TEXTBOOK": "0"}
    return evalkit.replay_query(PROP, path, env=env)
