"""C09 - unit lists and duration breakdowns decompose without loss. For values v and lists of conformable
units, the judge (Query.tla ListLaw) checks sum(part_i * u_i) = v exactly, integrality of all parts but the
last, sign coherence and the remainder bound; non-conformable members / values are refused; the automatic
year/week/day/hour/minute/second breakdown of time values obeys the same law."""
import itertools
import json
import random

import evalkit
import vlib
from engines.c03 import groups, lexable

PROP = "C09"
VALUES = ["0", "1|3", "-1|3", "59", "-59", "3600", "-3600", "90061.5", "-90061.5", "1e-30", "1180591620717411303424",
          "-1180591620717411303425|7", "86399.999999999", "31556925.9747"]


def rand_value(rng):
    r = rng.random()
    if r < 0.1:
        return "0"
    n = rng.getrandbits(rng.randint(1, 90))
    d = rng.getrandbits(rng.randint(1, 40)) + 1
    s = "-" if rng.random() < 0.4 else ""
    if r < 0.4:
        return "%s%d" % (s, n)
    if r < 0.6:
        return "%s%d.%d" % (s, n, d)
    return "%s%d|%d" % (s, n, d)


def _q_of_obs(o):
    """exact rational {n:{neg,mag},d} of a num / float observation (a float is an exact binary rational)"""
    from fractions import Fraction
    if o.get("t") == "num":
        return o["v"]
    if o.get("t") == "float" and o.get("f") not in (None, "NaN", "inf", "-inf"):
        fr = Fraction(float(o["f"]))

        def limbs(n):
            out = []
            while n:
                out.append(n % 4096)
                n //= 4096
            return out
        return {"n": {"neg": fr < 0, "mag": limbs(abs(fr.numerator))}, "d": limbs(fr.denominator)}
    return None


def float_list_leg(run, env, thorough):
    """unit lists over FLOAT values and float-valued database units (semitone): the source and every list unit are
    evaluated on their own, the list reply is judged on the observed floats by Query.FloatListLaw (whole parts, signs,
    sum and remainders up to a relative 2^-40)"""
    sources = {"time": ["sqrt(6.25) hour", "sqrt(2) hour", "exp(3) s", "(0 - sqrt(10)) day", "hypot(3, 4) min", "ln(2) week", "sqrt(1e12) s"],
               "length": ["sqrt(2) m", "hypot(3, 4) ft", "exp(1) mile", "(0 - sqrt(7)) km"],
               "ratio": ["2", "1000", "1|3", "-7", "sqrt(2)", "exp(2)", "(0 - sqrt(5))", "12 semitone", "3.5 octave"]}
    lists = {"time": [["hour", "min"], ["hour", "min", "s"], ["day", "hour", "min", "s"], ["min", "hour"], ["week", "day", "s"], ["s", "ms"]],
             "length": [["m", "cm", "mm"], ["ft", "inch"], ["mile", "yard", "ft", "inch"], ["km", "m"]],
             "ratio": [["semitone", "percent"], ["percent", "semitone"], ["octave", "semitone", "percent"], ["dozen", "semitone"], ["semitone", "1"]]}
    if not thorough:
        sources = {k: v[:5] for k, v in sources.items()}
    unit_names = sorted({u for ls in lists.values() for l in ls for u in l})
    solo = evalkit.run_eval([{"qs": "1 %s" % u if u != "1" else "1"} for u in unit_names] + [{"qs": s} for k in sources for s in sources[k]],
                            ctx="bundled", shards=1, tag="c09fs")
    val = {}
    for q, r in zip(unit_names + [s for k in sources for s in sources[k]], solo):
        val[q] = _q_of_obs((r.get("obs") or {}).get("raw") or r.get("obs") or {}) if "crash" not in r else None
    cases = [(s, l) for k in sources for s in sources[k] for l in lists[k] if val.get(s) and all(val.get(u) for u in l)]
    if len(cases) < 20:
        raise vlib.ToolError("float-list leg: only %d cases could be prepared" % len(cases))
    res = evalkit.run_eval([{"qs": "%s -> %s" % (s, ";".join(l))} for s, l in cases], ctx="bundled", shards=2, tag="c09fl")
    events, kept = [], []
    for (s, l), r in zip(cases, res):
        o = r.get("obs") or {}
        if "crash" in r or o.get("t") != "unitlist":
            continue
        ps = [_q_of_obs(e.get("raw") or {}) for e in o.get("list", [])]
        if any(p is None for p in ps):
            continue
        # only cases with a float somewhere: exact lists are the main leg's
        if not (any((e.get("raw") or {}).get("t") == "float" for e in o.get("list", []))):
            continue
        events.append({"q": r["q"], "flist": {"v": val[s], "us": [val[u] for u in l], "ps": ps}})
        kept.append((s, l, o))
    if len(events) < 10:
        raise vlib.ToolError("float-list leg: only %d float list replies" % len(events))
    verdicts, st = evalkit.judge(events, "Trace_Query", shards=2, tag="c09jfl", env=env, min_per_shard=10)
    run.cov["states"] += st["distinct"]
    run.traces(len(events))
    for i, (s, l, o) in enumerate(kept):
        run.count()
        run.nontrivial("%s -> %s" % (s, ";".join(l)))
        if "REJECT" in verdicts.get(i, set()):
            run.violation({"engine": "query", "leg": "float-list", "q": "%s -> %s" % (s, ";".join(l))},
                          "whole parts (all but the last), contributions of v's sign, sum = v and remainders below the unit just used, up to 2^-40",
                          {"parts": [(e.get("raw") or {}).get("f") or "exact" for e in o.get("list", [])]}, "query")
    vlib.log("[C09] leg float-list: %d float list replies judged" % len(events))
    run.sample({"leg": "float-list", "q": "%s -> %s" % (kept[0][0], ";".join(kept[0][1]))})
    # the rule is not vacuous: a non-whole leading part must be rejected
    bad = json.loads(json.dumps(events[0]))
    bad["flist"]["ps"][0] = {"n": {"neg": False, "mag": [5]}, "d": [2]}
    v2, _ = evalkit.judge([bad], "Trace_Query", shards=1, tag="c09jfls", env=env)
    if "REJECT" not in v2.get(0, set()):
        raise vlib.ToolError("self-check: a float list with a non-whole leading part was accepted")


def run(tier, seed):
    run = vlib.Run(PROP, tier, seed, "model_checking")
    thorough = tier == "thorough"
    run.cov["rule"] = ("every ordered list of 2-3 units (with repeats) of the time family {s, min, hour, day, week} and the length family "
                       "{mm, inch, ft, yard, mile} x 14 boundary values; seeded random lists of 2..6 conformable units from every dimension "
                       "group of the bundled database x random rationals; lists with a non-conformable member; values not conformable with "
                       "the list; plain time values (duration breakdown). non-trivial = distinct query the specification determines.")
    run.assumptions += ["leaf values/dimensionalities from the registry dump (C08)"]
    vlib.build_harness()
    dump = evalkit.registry_dump("bundled")
    env = {"ENVFILE": evalkit.env_file(dump, "c09env"), "CLOSED": "0", "TEXTBOOK": "0"}
    rng = random.Random(seed)
    texts = []
    fams = [("s", ["s", "min", "hour", "day", "week"]), ("m", ["mm", "inch", "ft", "yard", "mile"])]
    for base, fam in fams:
        lists = list(itertools.product(fam, repeat=2)) + (list(itertools.product(fam, repeat=3)) if thorough else
                                                           rng.sample(list(itertools.product(fam, repeat=3)), 40))
        for us in lists:
            for v in (VALUES if thorough else rng.sample(VALUES, 6)):
                sep = rng.choice([";", ",", "; "])
                texts.append("%s %s -> %s" % (v, base, sep.join(us)))
    # duration breakdown: plain time values
    for v in VALUES:
        texts.append("%s s" % v)
        texts.append("%s hour + 1|7 s" % v)
    g = {k: [n for n in v if lexable(n)] for k, v in groups(dump).items()}
    g = {k: v for k, v in g.items() if len(v) >= 2}
    keys = sorted(g)
    allnames = [n for v in g.values() for n in v]
    for _ in range(40000 if thorough else 2500):
        names = g[rng.choice(keys)]
        k = rng.randint(2, 6)
        us = [rng.choice(names) for _ in range(k)]
        r = rng.random()
        src = rng.choice(names)
        if r < 0.08:
            us[rng.randrange(k)] = rng.choice(allnames)       # possibly non-conformable member
        elif r < 0.16:
            src = rng.choice(allnames)                         # possibly non-conformable value
        texts.append("%s %s -> %s" % (rand_value(rng), src, rng.choice([";", ","]).join(us)))
    for _ in range(3000 if thorough else 300):
        texts.append("%s %s" % (rand_value(rng), rng.choice(["s", "min", "hour", "day", "year", "ms", "week", "century"])))
    evalkit.decide(run, texts, "lists", env=env, shards=16 if thorough else 8)
    run.sample({"leg": "lists", "q": texts[0]})
    run.sample({"leg": "random", "q": texts[-400]})

    def corrupt(ev):
        ev["obs"]["list"][1]["raw"]["v"]["n"]["mag"][0] ^= 1
    float_list_leg(run, env, thorough)
    evalkit.selfcheck_corrupt(run, "90061.5 s -> hour;min;s", corrupt, env=env)

    def corrupt2(ev):
        ev["obs"]["breakdown"][4]["raw"]["v"]["n"]["mag"] = [7]
    evalkit.selfcheck_corrupt(run, "90061.5 s", corrupt2, env=env)
    return run.finish()


def replay(path, seed):
    vlib.build_harness()
    dump = evalkit.registry_dump("bundled")
    env = {"ENVFILE": evalkit.env_file(dump, "c09env"), "CLOSED": "0", "TEXTBOOK": "0"}
    return evalkit.replay_query(PROP, path, env=env)
