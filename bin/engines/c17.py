"""C17 - `units for X` and `factorize X` are dimensionally sound and complete.

(V) for every named quantity and every dimensionality occurring in the registry dump of the bundled database, X is
    written as the quantity name (when there is one) and as two expressions of base units (`kg m^2 / s^3`,
    `kg m^2 s^-3`); the real code answers `units for X` / `factorize X`; the judge specification Trace_UnitsFor parses
    each text itself, computes X's dimensionality (quantity table / Eval over the base units) and decides the reply by
    UnitsFor.tla over the dump: exactly the non-alias units of that dimensionality, each once, each under its own
    category; every product multiplies out (Dim algebra) to X's dimensionality, no product twice; every form gives the
    same answer.
(G) MC_UnitsFor checks the laws of UnitsFor.tla on a small registry and enumerates every exponent vector in
    [-3..3]^3 over kg, m, s in three spellings; all of them go through `units for` (and, in the thorough tier, a
    seeded part through `factorize`)."""
import json
import random
import time

import evalkit
import regkit
import vlib
from regkit import cps_of, s_of
from vlib import log

PROP = "C17"


def source_aliases():
    """which names the SOURCE TEXT defines as a bare other name (`force gravity`): the reference for 'alias'.
    (Registry::definitions can be overwritten after the fact - a quantity sharing the unit's name - and would then hide an alias.)"""
    import loaderkit
    path = vlib.workfile("c17-srcdump.json")
    vlib.run_tool([loaderkit.rv_load(), "dump", "bundled", path], timeout=600)
    with open(path) as f:
        src = json.load(f).get("source_defs", [])
    seen = {}
    for x in src:
        if x["kind"] == "unit":
            seen.setdefault(x["s"], []).append(x["def"].get("k") == "unit")
    return {n: v[0] for n, v in seen.items() if len(v) == 1}


def judge_env(dump, src_alias=None):
    units = []
    for u in dump["units"]:
        alias = bool(u["alias"])
        if src_alias is not None and s_of(u["name"]) in src_alias:
            alias = src_alias[s_of(u["name"])]
        e = {"name": u["name"], "d": u["val"]["d"], "alias": alias}
        if u.get("cat") is not None:
            e["cat"] = u["cat"]
        units.append(e)
    return {"units": units, "base": dump["base"], "long_names": dump["long_names"], "categories": dump["categories"],
            "category_names": dump["category_names"], "quantities": dump["quantities"], "decomposition": dump["decomposition"]}


def dkey(dims_json):
    return tuple(sorted((s_of(x["u"]), x["e"]) for x in dims_json))


def dstr(key):
    return " ".join("%s^%d" % (u, e) for u, e in key) or "1"


def frac_text(key):
    f = lambda u, e: u if e == 1 else "%s^%d" % (u, e)
    num = [f(u, e) for u, e in key if e > 0]
    den = [f(u, -e) for u, e in key if e < 0]
    n = " ".join(num) or "1"
    return n + (" / " + " ".join(den) if den else "")


def pow_text(key):
    return " ".join(u if e == 1 else "%s^%d" % (u, e) for u, e in reversed(key)) or "1"


def dump_groups(dump):
    """every dimensionality of the dump -> the forms X is written in (quantity name first when there is one)"""
    qname = {}
    for q in dump["quantities"]:
        qname[dkey(q["dims"])] = q["s"]
    derived = {dkey(x["dims"]): s_of(x["name"]) for x in dump["decomposition"]}
    keys = set(qname)
    for u in dump["units"]:
        keys.add(dkey(u["val"]["d"]))
    groups = []
    for k in sorted(keys):
        forms = ([qname[k]] if k in qname else []) + [frac_text(k)]
        if pow_text(k) != frac_text(k):
            forms.append(pow_text(k))
        if k in derived:
            forms.append(derived[k])          # an SI derived unit of value 1: `watt`
        groups.append({"dims": dstr(k), "forms": forms, "named": k in qname, "w": sum(abs(e) for _, e in k)})
    return groups


def gen_vectors(run):
    r = vlib.tlc("MC_UnitsFor", "MC_UnitsFor", workers=1, timeout=900, coverage=True, tag="c17g")
    vlib.require_ok(r, "MC_UnitsFor")        # the laws on the small registry are assumptions of this run
    run.add_tlc(r, "MC_UnitsFor")
    if r.coverage.get("Bump", (0, 0))[1] == 0:
        raise vlib.ToolError("vacuity gate: action Bump never taken in MC_UnitsFor")
    cases = vlib.tagged_json(r, "CASE")
    if len(cases) != r.distinct or len(cases) < 343:
        raise vlib.ToolError("MC_UnitsFor printed %d cases for %d states" % (len(cases), r.distinct))
    groups = []
    for c in cases:
        texts = list(dict.fromkeys(s_of(t) for t in c["texts"]))
        groups.append({"dims": "kg^%d m^%d s^%d" % tuple(c["e"]), "forms": texts, "named": False, "w": sum(abs(e) for e in c["e"])})
    return groups


def slim_obs(res):
    if "crash" in res:
        return {"t": "crash", "c": res["crash"]}
    o = res["obs"]
    if o.get("t") == "unitsfor":
        return evalkit.strip_nulls({"t": "unitsfor", "cats": o["cats"]})
    if o.get("t") == "factorize":
        return {"t": "factorize", "list": o["list"]}
    return {"t": o.get("t", "other"), "c": o.get("c", "")}


def ask(groups, kind, shards, timeout_ms, tag):
    word = "units for " if kind == "unitsfor" else "factorize "
    jobs = []
    for g in groups:
        for f in g["forms"]:
            jobs.append({"qs": word + f})
    res = evalkit.run_eval(jobs, ctx="bundled", timeout_ms=timeout_ms, shards=shards, tag=tag)
    events = []
    k = 0
    for g in groups:
        forms = []
        for f in g["forms"]:
            forms.append({"q": cps_of(word + f), "obs": slim_obs(res[k])})
            k += 1
        events.append({"kind": kind, "forms": forms})
    return events, res


_rej_detail = None


def parse_detail(detail):
    """the JSON string TLC printed: [f: form index, what, detail] -> (form index, what, detail)"""
    try:
        v = json.loads(vlib._unquote_tla(detail))
        return int(v["f"]), v["what"], v.get("detail")
    except Exception:
        return int(detail.split(",")[0]), "", detail


def names_in(v):

    def conv(x):
        if isinstance(x, list) and x and all(isinstance(c, int) for c in x):
            return s_of(x) if x != [-1] else None
        if isinstance(x, list):
            return [conv(y) for y in x]
        if isinstance(x, dict):
            return {k: conv(y) for k, y in x.items()}
        return x
    return conv(v)


def decide(run, groups, events, envp, shards, label, count_nontrivial=True):
    t0 = time.time()
    verdicts, st = regkit.judge(events, "Trace_UnitsFor", envp, shards=shards, tag="c17j", min_per_shard=25, xmx="4g")
    run.cov["states"] += st["distinct"]
    run.cov["transitions"] += st["generated"]
    silent = crash = 0
    nrej = {}
    for i, (g, ev) in enumerate(zip(groups, events)):
        run.traces(len(ev["forms"]))
        run.count(len(ev["forms"]))
        kind = ev["kind"]
        for f in ev["forms"]:
            o = f["obs"]
            if kind == "unitsfor" and o["t"] == "unitsfor" and any(c["units"] for c in o["cats"]):
                run.nontrivial("u:" + g["dims"])
            if kind == "factorize" and o["t"] == "factorize" and len(o["list"]) >= 2:
                run.nontrivial("f:" + g["dims"])
        for tag, detail in verdicts.get(i, []):
            if tag == "BADGROUP":
                raise vlib.ToolError("the forms %r do not denote one dimensionality for the specification (%s)" % (g["forms"], detail))
            if tag == "SILENT":
                silent += 1
            elif tag == "CRASH":
                crash += 1
                j = int(detail.split(",")[0])
                run.violation({"engine": "bundled", "kind": kind, "q": s_of(ev["forms"][j - 1]["q"]), "what": "crash",
                               "forms": g["forms"], "dims": g["dims"]},
                              "a reply that lists the units / products", ev["forms"][j - 1]["obs"], "bundled")
            elif tag == "REJECT":
                j, what, rest = parse_detail(detail)
                nrej[what] = nrej.get(what, 0) + 1
                obs = ev["forms"][j - 1]["obs"]
                shown = ([[s_of(c["cat"]) if "cat" in c else None, [s_of(u) for u in c["units"]]] for c in obs.get("cats", [])]
                         if obs["t"] == "unitsfor" else
                         [{s_of(x["u"]): x["e"] for x in p} for p in obs.get("list", [])] if obs["t"] == "factorize" else obs)
                run.violation({"engine": "bundled", "kind": kind, "q": s_of(ev["forms"][j - 1]["q"]), "what": what,
                               "forms": g["forms"], "dims": g["dims"]},
                              {"law": "exactly the non-alias units of X's dimensionality, each once, under its own category"
                               if kind == "unitsfor" else "every product multiplies out to X's dimensionality, no product twice",
                               what: names_in(rest)}, shown, "bundled")
    log("[C17] %s: %d groups, %d replies; judge %.1fs (%d states); no reply in time: %d; crashes: %d; rejected: %s" % (
        label, len(groups), sum(len(e["forms"]) for e in events), time.time() - t0, st["distinct"], silent, crash, nrej))
    return {"groups": len(groups), "replies": sum(len(e["forms"]) for e in events), "no_reply_in_time": silent, "rejected": nrej}


def selfcheck(run, envp):
    """corrupted replies must be rejected with the matching diagnostic"""
    g = [{"dims": "m^1 s^-1", "forms": ["velocity", "m / s"], "named": True}]
    evu, _ = ask(g, "unitsfor", 1, 20000, "c17su")
    evf, _ = ask(g, "factorize", 1, 60000, "c17sf")
    good_u, good_f = evu[0], evf[0]
    verdicts, _ = regkit.judge([good_u, good_f], "Trace_UnitsFor", envp, shards=1, tag="c17selfj0", min_per_shard=25)
    cats = good_u["forms"][0]["obs"].get("cats", [])
    prods = good_f["forms"][0]["obs"].get("list", [])
    if any(t in ("REJECT", "CRASH", "BADGROUP") for v in verdicts.values() for t, _ in v) or len(cats) < 2 or len(prods) < 2:
        # the code under test answers `units for velocity` / `factorize velocity` wrongly: a finding, not a tool failure
        # (both queries are part of the main legs, which report it)
        decide(run, g + g, [good_u, good_f], envp, 1, "self-check (genuine replies)")
        run.note("selfcheck_corrupted_replies_rejected", "skipped: the genuine replies are already rejected")
        return

    def variant(ev, fn):
        e = json.loads(json.dumps(ev))
        e["forms"] = e["forms"][:1]
        fn(e["forms"][0]["obs"])
        return e
    big = max(range(len(cats)), key=lambda i: len(cats[i]["units"]))
    other = (big + 1) % len(cats)

    def move(o):
        u = o["cats"][big]["units"].pop()
        o["cats"][other]["units"].append(u)

    def bump(o):
        p = [x for x in o["list"] if x][0]
        p[0]["e"] += 1
    bad = [
        ("missing", variant(good_u, lambda o: o["cats"][big]["units"].pop())),
        ("foreign", variant(good_u, lambda o: o["cats"][big]["units"].append(cps_of("meter")))),
        ("category", variant(good_u, move)),
        ("duplicate", variant(good_u, lambda o: o["cats"][other]["units"].append(o["cats"][other]["units"][0]))),
        ("dupproduct", variant(good_f, lambda o: o["list"].append(list(reversed(o["list"][1]))))),
        ("unsound", variant(good_f, bump)),
    ]
    differs = json.loads(json.dumps(good_u))
    differs["forms"][1]["obs"]["cats"][big]["units"].pop()
    events = [e for _, e in bad] + [differs]
    verdicts, _ = regkit.judge(events, "Trace_UnitsFor", envp, shards=1, tag="c17selfj", min_per_shard=25)
    got = {i: [parse_detail(d)[1] for t, d in v if t == "REJECT"] for i, v in verdicts.items()}
    for k, (what, _) in enumerate(bad):
        if what not in got.get(k, []):
            raise vlib.ToolError("self-check: corrupted reply (%s) was not rejected by Trace_UnitsFor: %s" % (what, got))
    if "differs" not in got.get(len(bad), []):
        raise vlib.ToolError("self-check: two forms with different answers were not rejected: %s" % got)
    run.note("selfcheck_corrupted_replies_rejected", len(bad) + 1)


def run(tier, seed):
    run = vlib.Run(PROP, tier, seed, "model_checking")
    thorough = tier == "thorough"
    run.cov["rule"] = ("every dimensionality of the bundled registry dump (units and quantities), written as the quantity name and as two "
                       "expressions of base units, plus every exponent vector in [-3..3]^3 over kg, m, s (TLC) in three spellings: `units for` "
                       "on all of them, `factorize` on all dump dimensionalities (thorough) or a seeded sample of 40 (quick); each reply judged "
                       "by Trace_UnitsFor over the dump. non-trivial = distinct dimensionality whose listing is non-empty / that has >= 2 "
                       "factorizations.")
    run.assumptions += ["harness trusted for: string <-> code points, JSON of the registry (dump.rs: alias = the definition is a bare unit name)",
                        "a `factorize` that does not answer within the time limit is counted, not judged (totality is C04's subject)"]
    vlib.build_harness()
    rng = random.Random(seed)
    dump = regkit.get_dump("bundled")
    envp = regkit.write_env("c17-env.json", judge_env(dump, source_aliases()))
    selfcheck(run, envp)

    dgroups = dump_groups(dump)
    ggroups = gen_vectors(run)
    shards = 16 if thorough else 10

    # units for: everything
    t0 = time.time()
    ev, _ = ask(dgroups + ggroups, "unitsfor", shards, 30000, "c17u")
    log("[C17] units for: %d queries in %.1fs" % (sum(len(e["forms"]) for e in ev), time.time() - t0))
    info = {"unitsfor": decide(run, dgroups + ggroups, ev, envp, shards, "units for")}
    run.sample({"kind": "unitsfor", "forms": dgroups[len(dgroups) // 2]["forms"]})
    run.sample({"kind": "unitsfor", "forms": ggroups[len(ggroups) // 3]["forms"]})

    # factorize: the code's search is exponential in the total exponent weight w of X (measured: w <= 6 below 5 s,
    # w = 9 above 90 s); the quick tier samples among w <= 6
    if thorough:
        fgroups = dgroups + rng.sample([g for g in ggroups if g["w"] <= 7], 60)
        limit = 300000
    else:
        cheap = [g for g in dgroups if g["w"] <= 6]
        fgroups = (rng.sample([g for g in cheap if g["named"]], 30) + rng.sample([g for g in cheap if not g["named"]], 6)
                   + rng.sample([g for g in ggroups if 2 <= g["w"] <= 6], 4))
        fgroups = [dict(g, forms=g["forms"][:2]) for g in fgroups]
        limit = 60000
    t0 = time.time()
    ev, _ = ask(fgroups, "factorize", 16, limit, "c17f")
    log("[C17] factorize: %d queries in %.1fs" % (sum(len(e["forms"]) for e in ev), time.time() - t0))
    info["factorize"] = decide(run, fgroups, ev, envp, shards, "factorize")
    run.sample({"kind": "factorize", "forms": fgroups[0]["forms"]})
    run.note("bundled", info)
    return run.finish()


def replay(path, seed):
    body = json.load(open(path))
    case = body["case"]
    vlib.build_harness()
    dump = regkit.get_dump("bundled")
    envp = regkit.write_env("c17r-env.json", judge_env(dump, source_aliases()))
    g = [{"dims": case.get("dims", ""), "forms": case["forms"], "named": False}]
    ev, res = ask(g, case["kind"], 1, 300000, "c17r")
    verdicts, _ = regkit.judge(ev, "Trace_UnitsFor", envp, shards=1, tag="c17rj", min_per_shard=25)
    bad = [(t, d[:400]) for t, d in verdicts.get(0, []) if t in ("REJECT", "CRASH")]
    for f, r in zip(ev[0]["forms"], res):
        log("query %r: %s" % (s_of(f["q"]), json.dumps(r.get("obs", r))[:300]))
    log("verdict: %s" % (bad or "accepted"))
    return 1 if bad else 0
