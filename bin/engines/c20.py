"""C20 - currency cache: atomic refresh, fail-safe start, stale fallback, success visible.

Legs (DESIGN.md section 4, C20):
  D  design: TLC on Cache.tla (temp file + validate + rename protocol shaped like cli/src/config.rs), every
     (prior cache, server behaviour, entry point), Crash in every state, a following start with the
     server down, then a run against a healthy server; invariants Atomic / FailKeeps / ChangeOnlyOnSuccess /
     SuccessVisible / SuccessIsComplete / Recovers / StartsAnyway / FallsBack.  The protocols the code must
     not implement (write in place, rename before the status check, truncated transfer taken as success,
     no validation of a close-delimited body, fixed temp file name, no fallback, abort on error) must each
     violate them.
  G  fault enumeration: for every combination TLC prints, the real `rink` binary (built from /repo's
     working tree into /verif/target-cli) runs against the fault-injecting server rv-httpd with scratch
     XDG directories; bytes of rink/currency.json before/after, exit status, reply to `1+1` and to a
     currency query, then the same for the next start with the server down.
  K  kill -9 sweep: the run is traced once (strace), then repeated once per file-system call that touched
     the cache directory with `strace -e inject=<call>:signal=KILL:when=N` (kill on syscall entry).
  V  every strace log (paths classified cache / temp / other) is validated by Trace_Cache.tla.
  R  recovery: after every run of G / K / T and its next start, one more run against a healthy server with
     the cache aged past cache_duration must install the new contents (nothing a failed or killed refresh
     left in the cache directory may decide a later refresh).
  T  tiny unreadable prior caches (0, 1, 2, 3 bytes; not UTF-8; an empty document) at both entry points.
"""
import concurrent.futures
import http.client
import itertools
import json
import os
import re
import shutil
import signal
import socket
import subprocess
import time

import vlib
from vlib import log

PROP = "C20"
LEVEL = "fault_enumeration"
CLI_TARGET = os.environ.get("VERIF_CLI_TARGET") or os.path.join(vlib.VERIF, "target-cli")   # override: private mutant builds
RINK = os.path.join(CLI_TARGET, "debug", "rink")
SNAPSHOT = os.path.join(vlib.REPO, "core", "tests", "currency.snapshot.json")
OLD_RATE, NEW_RATE = "1.0852", "1.2345"
QUERIES = ["1+1", "1 EUR -> USD"]
RUN_LIMIT = 90           # seconds before a rink run is called a hang (a start takes about 1 s)
TRACESET = ",".join("?" + s for s in (
    "open openat creat write pwrite64 writev pwritev sendfile copy_file_range truncate ftruncate "
    "fsync fdatasync rename renameat renameat2 link linkat unlink unlinkat dup dup2 dup3 fcntl").split())
ERR_BODY = '{"error": "rv-httpd answers with status %d"}\n'
FAILING = ("cut", "cutclose", "stall", "status", "refused")
SUCCEEDS = ("ok", "okclose")     # the server behaviours that deliver the complete new body (Cache.tla: Succeeds)
# the shortest previous caches (hex): empty, one byte, one byte that is not UTF-8, an empty document, a lone byte
# order mark, three bytes of an unterminated document
TINY = ("", "5b", "ff", "5b5d", "efbbbf", "5b7b22")


# ----------------------------------------------------------------------------
# building and the fault server

def _patched_core_root():
    """bin/mut_iso.py with a patch that does not touch cli/ leaves vlib.REPO at /repo and only points the copied harness
    at a patched copy of core/ and sandbox/.  The rink binary has to be built from that very core, otherwise a change
    seeded in rink-core never reaches the program under test.  -> root of the patched copy, or None."""
    try:
        toml = open(os.path.join(vlib.HARNESS, "Cargo.toml")).read()
    except OSError:
        return None
    m = re.search(r'rink-core\s*=\s*\{\s*path\s*=\s*"([^"]+)/core"', toml)
    if not m:
        return None
    root = os.path.realpath(m.group(1))
    # only ever a scratch copy under /verif/work (members are copied INTO it): never /repo or anybody's checkout
    if root != os.path.realpath(vlib.REPO) and root.startswith(os.path.realpath(vlib.WORK) + os.sep) and \
            os.path.isdir(os.path.join(root, "core")):
        return root
    return None


def build_cli():
    """cargo build of the rink binary; sets RINK.  Normally from vlib.REPO into CLI_TARGET; under bin/mut_iso.py with a
    core-only patch from a private workspace: the patched core/ and sandbox/ plus copies of the other members."""
    global RINK
    t0 = time.time()
    src, target = vlib.REPO, CLI_TARGET
    root = _patched_core_root()
    if root:
        for sub in ("cli", "irc", "rink-js", "web", "docs"):
            shutil.rmtree(os.path.join(root, sub), ignore_errors=True)
            if os.path.isdir(os.path.join(vlib.REPO, sub)):
                shutil.copytree(os.path.join(vlib.REPO, sub), os.path.join(root, sub),
                                ignore=shutil.ignore_patterns("target", "node_modules"), copy_function=shutil.copy, symlinks=True)
        for f in ("Cargo.toml", "Cargo.lock"):
            shutil.copy(os.path.join(vlib.REPO, f), os.path.join(root, f))
        src, target = root, os.path.join(os.path.dirname(os.path.abspath(root)), "target-cli")
        log("[build] rink cli is built from the patched core in %s" % root)
    RINK = os.path.join(target, "debug", "rink")
    p = subprocess.run(["cargo", "build", "-p", "rink", "--offline", "--target-dir", target],
                       cwd=src, env=vlib.child_env(), stdout=subprocess.PIPE, stderr=subprocess.STDOUT, text=True)
    if p.returncode != 0 or not os.path.exists(RINK):
        log(p.stdout[-6000:])
        raise vlib.ToolError("cargo build -p rink (into %s) failed" % target)
    log("[build] rink cli built in %.1fs" % (time.time() - t0))


class Ctx:
    """Everything one check run shares: bodies, the fault server, the dead port, the scratch root."""

    def __init__(self, pieces):
        self.pieces = pieces
        self.root = os.path.realpath(vlib.workfile("c20-%d" % os.getpid()))
        shutil.rmtree(self.root, ignore_errors=True)
        os.makedirs(self.root)
        snap = open(SNAPSHOT, "rb").read()
        if snap.count(OLD_RATE.encode()) != 1:
            raise vlib.ToolError("currency.snapshot.json no longer contains the rate %s exactly once" % OLD_RATE)
        self.old = snap
        self.new = snap.replace(OLD_RATE.encode(), NEW_RATE.encode())
        self.garbage = snap[:1000] + b"\x00\xff{{{ this is not json"
        self.newfile = os.path.join(self.root, "new-body.json")
        with open(self.newfile, "wb") as f:
            f.write(self.new)
        self.reqlog = os.path.join(self.root, "requests.log")
        self.httpd = subprocess.Popen([vlib.rv("rv-httpd"), self.newfile, "--log", self.reqlog, "--hold", "4000"],
                                      stdin=subprocess.PIPE, stdout=subprocess.PIPE, env=vlib.child_env())
        line = self.httpd.stdout.readline().decode()
        if not line.startswith("PORT "):
            raise vlib.ToolError("rv-httpd did not announce a port")
        self.port = int(line.split()[1])
        # "connection refused": a bound socket that never listens answers every SYN with RST
        self.dead = socket.socket(socket.AF_INET, socket.SOCK_STREAM)
        self.dead.bind(("127.0.0.1", 0))
        self.deadport = self.dead.getsockname()[1]
        self.errlen = len(ERR_BODY % 404)
        self._n = itertools.count(1)
        self.control = None      # set by run(): {entry: a healthy refresh from an untouched cache directory succeeded}

    def close(self):
        try:
            self.httpd.stdin.close()
            self.httpd.wait(timeout=5)
        except Exception:
            self.httpd.kill()
        self.dead.close()
        shutil.rmtree(self.root, ignore_errors=True)

    def piece(self):
        return (len(self.new) + self.pieces - 1) // self.pieces

    def complete_deliveries(self):
        """how many times the server sent the complete body with status 200 (its own log: `<path> <body bytes sent>`)"""
        n = 0
        try:
            for ln in open(self.reqlog, errors="replace"):
                f = ln.split()
                if len(f) == 2 and f[0].split("/")[1:2] in (["ok"], ["okclose"]) and f[0].endswith("/currency.json") \
                        and f[1] == str(len(self.new)):
                    n += 1
        except FileNotFoundError:
            pass
        return n

    def cut_bytes(self, server):
        """model position (chunks) -> bytes; an explicit byte position wins (thorough extras)"""
        if "bytes" in server:
            return server["bytes"]
        if server["k"] < 0:
            return -1
        return min(server["k"] * self.piece(), len(self.new))

    def url(self, server):
        m = server["mode"]
        base = "http://127.0.0.1:%d" % self.port
        if m == "ok":
            return "%s/ok/%d/currency.json" % (base, self.pieces)
        if m == "cut":
            return "%s/cut/%d/%d/currency.json" % (base, self.cut_bytes(server), self.pieces)
        if m == "okclose":
            return "%s/okclose/%d/currency.json" % (base, self.pieces)
        if m == "cutclose":
            return "%s/cutclose/%d/%d/currency.json" % (base, self.cut_bytes(server), self.pieces)
        if m == "stall":
            if server["k"] < 0:
                return "%s/stall/none/currency.json" % base
            return "%s/stall/%d/%d/currency.json" % (base, self.cut_bytes(server), self.pieces)
        if m == "status":
            return "%s/status/%d/currency.json" % (base, server["code"])
        if m == "refused":
            return "http://127.0.0.1:%d/currency.json" % self.deadport
        raise vlib.ToolError("unknown server mode %r" % m)

    def selftest(self):
        """the fault server does what its modes are called (otherwise every verdict would be void)"""
        framing = {}

        def get(path, limit=10):
            c = http.client.HTTPConnection("127.0.0.1", self.port, timeout=limit)
            try:
                c.request("GET", path)
                r = c.getresponse()
                framing[path] = (r.getheader("Content-Length"), r.getheader("Transfer-Encoding"))
                try:
                    body = r.read()
                    short = False
                except http.client.IncompleteRead as e:
                    body, short = e.partial, True
                return r.status, body, short
            finally:
                c.close()
        st, body, short = get("/ok/3/selftest.json")
        if (st, body, short) != (200, self.new, False):
            raise vlib.ToolError("rv-httpd self-test: /ok does not deliver the body")
        k = self.piece()
        st, body, short = get("/cut/%d/3/selftest.json" % k)
        if st != 200 or body != self.new[:k] or not short:
            raise vlib.ToolError("rv-httpd self-test: /cut does not cut after %d bytes" % k)
        # close-delimited: no Content-Length, no chunks, the body ends with an orderly close - complete or cut,
        # the client sees no framing error
        for path, want in (("/okclose/3/selftest.json", self.new), ("/cutclose/%d/3/selftest.json" % k, self.new[:k]),
                           ("/cutclose/0/3/selftest.json", b"")):
            st, body, short = get(path)
            if (st, body, short) != (200, want, False) or framing[path] != (None, None):
                raise vlib.ToolError("rv-httpd self-test: %s does not deliver %d bytes delimited by the close (framing %s)"
                                     % (path, len(want), framing[path]))
        for code in (301, 404, 500):
            st, body, short = get("/status/%d/selftest.json" % code)
            if st != code or len(body) != self.errlen or short:
                raise vlib.ToolError("rv-httpd self-test: /status/%d answered %s with %d bytes" % (code, st, len(body)))
        try:
            get("/stall/none/selftest.json", 1.5)
            raise vlib.ToolError("rv-httpd self-test: /stall answered")
        except (socket.timeout, TimeoutError):
            pass
        s = socket.socket()
        s.settimeout(2)
        try:
            s.connect(("127.0.0.1", self.deadport))
            raise vlib.ToolError("self-test: the dead port accepted a connection")
        except ConnectionRefusedError:
            pass
        finally:
            s.close()


# ----------------------------------------------------------------------------
# one run of rink in a scratch environment

class Scratch:
    def __init__(self, ctx, label):
        self.ctx = ctx
        self.dir = os.path.join(ctx.root, "%s-%d" % (label, next(ctx._n)))
        self.cfgdir = os.path.join(self.dir, "cfg", "rink")
        self.cachedir = os.path.join(self.dir, "cache", "rink")
        self.cachefile = os.path.join(self.cachedir, "currency.json")
        os.makedirs(self.cfgdir)
        os.makedirs(os.path.join(self.dir, "cache"))
        os.makedirs(os.path.join(self.dir, "cwd"))

    def env(self):
        e = {"XDG_CONFIG_HOME": os.path.join(self.dir, "cfg"), "XDG_CACHE_HOME": os.path.join(self.dir, "cache"),
             "XDG_DATA_HOME": os.path.join(self.dir, "data"), "HOME": self.dir, "NO_PROXY": "*", "no_proxy": "*"}
        env = vlib.child_env(e)
        for k in list(env):
            if k.lower() in ("http_proxy", "https_proxy", "all_proxy"):
                del env[k]
        return env

    def set_prior(self, prior, prior_hex=None):
        now = time.time()
        if prior == "absent":
            self.prior_bytes = None
            return
        os.makedirs(self.cachedir, exist_ok=True)
        data = self.ctx.garbage if prior.startswith("garbage") else self.ctx.old
        if prior_hex is not None:
            data = bytes.fromhex(prior_hex)
        with open(self.cachefile, "wb") as f:
            f.write(data)
        t = now if prior in ("fresh", "garbage_fresh") else now - self.stale_age()
        os.utime(self.cachefile, (t, t))
        self.prior_bytes = data

    def configure(self, url, timeout_ms):
        with open(os.path.join(self.cfgdir, "config.toml"), "w") as f:
            f.write('[currency]\nenabled = true\nfetch_on_startup = true\nendpoint = "%s"\n'
                    'cache_duration = "1h"\ntimeout = "%dms"\n' % (url, timeout_ms))

    def cache_state(self):
        """(class, length): prior / new / mixed, judged on the bytes"""
        try:
            data = open(self.cachefile, "rb").read()
        except FileNotFoundError:
            data = None
        if data == self.prior_bytes:
            cls = "prior"
        elif data == self.ctx.new:
            cls = "new"
        else:
            cls = "mixed"
        return cls, (None if data is None else len(data))

    def litter(self):
        try:
            return sorted(x for x in os.listdir(self.cachedir) if x != "currency.json")
        except FileNotFoundError:
            return []

    def stale_age(self):
        """'stale' stands for every age beyond cache_duration: two hours, a day and a half, more than a year,
        chosen per scratch directory (deterministic for a given case order)"""
        import zlib
        return (2 * 3600, 36 * 3600, 400 * 86400)[zlib.crc32(os.path.basename(self.dir).encode()) % 3]

    def age_cache(self):
        if os.path.exists(self.cachefile):
            t = time.time() - self.stale_age()
            os.utime(self.cachefile, (t, t))

    def read_cache(self):
        try:
            return open(self.cachefile, "rb").read()
        except FileNotFoundError:
            return None

    def run(self, args, tracefile=None, inject=None):
        cmd = [RINK] + args
        if tracefile:
            pre = ["strace", "-f", "-y", "-s", "0", "-e", "trace=" + TRACESET, "-o", tracefile]
            if inject:
                pre += ["-e", "inject=%s:signal=KILL:when=%d" % (inject["syscall"], inject["when"])]
            cmd = pre + cmd
        t0 = time.time()
        p = subprocess.Popen(cmd, cwd=os.path.join(self.dir, "cwd"), env=self.env(), stdin=subprocess.DEVNULL,
                             stdout=subprocess.PIPE, stderr=subprocess.PIPE, start_new_session=True)
        try:
            out, err = p.communicate(timeout=RUN_LIMIT)
            hung = False
        except subprocess.TimeoutExpired:
            try:
                os.killpg(p.pid, signal.SIGKILL)
            except ProcessLookupError:
                pass
            out, err = p.communicate()
            hung = True
        out = out.decode("utf-8", "replace")
        err = err.decode("utf-8", "replace")
        res = {"rc": p.returncode, "hung": hung, "wall": round(time.time() - t0, 2),
               "stdout_tail": out[-600:], "stderr_tail": err[-300:]}
        lines = out.splitlines()

        def reply(q):
            for i, ln in enumerate(lines):
                if ln == "> " + q and i + 1 < len(lines):
                    return lines[i + 1]
            return None
        r = reply(QUERIES[0])
        res["sum_ok"] = r is not None and r.startswith("2 (dimensionless)")
        r = reply(QUERIES[1])
        res["rate"] = "old" if r and OLD_RATE in r else "new" if r and NEW_RATE in r else "none"
        res["rate_reply"] = r
        return res

    def remove(self):
        shutil.rmtree(self.dir, ignore_errors=True)


def timeout_ms(server):
    # the client timeout only has to expire for a stalling server; everywhere else it is generous so that
    # a busy machine cannot turn a good answer into a failure
    return 400 if server["mode"] == "stall" else 20000


def server_key(s):
    return (s["mode"], s["k"], s["code"], s.get("bytes"))


def case_key(case):
    return (case["prior"], case["entry"]) + server_key(case["server"]) + \
           ((case["kill"]["syscall"], case["kill"]["when"]) if case.get("kill") else ()) + \
           (("tiny", case["prior_hex"]) if case.get("prior_hex") is not None else ())


def execute(ctx, case, ageds, keep_trace=True, recover=True):
    """Run one case: prior cache -> run under test (traced, optionally with an injected kill) ->
    next start(s) with the server down -> a run against a healthy server (same entry point, cache aged).
    Returns the observation."""
    sc = Scratch(ctx, "case")
    try:
        sc.set_prior(case["prior"], case.get("prior_hex"))
        sc.configure(ctx.url(case["server"]), timeout_ms(case["server"]))
        trace = os.path.join(sc.dir, "strace.txt")
        args = ["--fetch-currency"] if case["entry"] == "fetch" else list(QUERIES)
        r1 = sc.run(args, tracefile=trace, inject=case.get("kill"))
        r1["killed"] = r1["rc"] == -signal.SIGKILL and not r1["hung"]
        after, alen = sc.cache_state()
        obs = {"run1": r1, "after": after, "after_len": alen, "litter": sc.litter(), "next": []}
        try:
            parsed = parse_strace(open(trace, errors="replace").read(), sc)
        except FileNotFoundError:
            raise vlib.ToolError("strace wrote no log (ptrace not permitted?)")
        obs["kill_points"] = parsed["kill_points"]
        obs["kill_hit"] = parsed["interrupted"]
        if keep_trace:
            obs["events"] = [meta_event(ctx, case)] + parsed["events"]
        # the next start: server down
        sc.configure(ctx.url({"mode": "refused", "k": 0, "code": 0}), 20000)
        for aged in ageds:
            if aged:
                sc.age_cache()
            rn = sc.run(list(QUERIES))
            cls, ln = sc.cache_state()
            rn.update({"aged": aged, "after": cls, "after_len": ln})
            obs["next"].append(rn)
        if recover:
            # later: the server is in good health and the cache (whatever it holds) is past cache_duration
            sc.configure(ctx.url({"mode": "ok", "k": ctx.pieces, "code": 200}), 20000)
            sc.age_cache()
            before = sc.litter()
            rr = sc.run(["--fetch-currency"] if case["entry"] == "fetch" else list(QUERIES))
            data = sc.read_cache()
            rr.update({"cache_is_new": data == ctx.new, "cache_len": None if data is None else len(data),
                       "litter_before": before, "litter_after": sc.litter()})
            obs["recovery"] = rr
        return obs
    finally:
        sc.remove()


# ----------------------------------------------------------------------------
# strace log -> events of Trace_Cache, and the kill points of the sweep

_re_line = re.compile(r"^(\d+)\s+(.*)$")
_re_call = re.compile(r"^(\w+)\((.*)$", re.S)
_re_fd = re.compile(r"(?:\d+|AT_FDCWD)<([^>]*)>")
_re_str = re.compile(r'"((?:[^"\\]|\\.)*)"')
WRITE_CALLS = {"write", "pwrite64", "writev", "pwritev", "sendfile", "copy_file_range"}


def parse_strace(text, sc):
    """-> {"events": [...], "kill_points": [{"syscall", "when", "what"}], "interrupted": {...}|None}
    Events carry a uniform set of fields (TLC reads them as records)."""
    cachefile, cachedir, root = sc.cachefile, sc.cachedir, sc.dir
    pending = {}
    main = None
    counts = {}
    events, kill_points = [], []
    interrupted = None

    def cls(path):
        if path == cachefile:
            return "cache"
        if os.path.dirname(path) == cachedir:
            return "temp"
        return "other"

    def ev(name, pc, src="none", flags=(), n=0, ok=True):
        return {"ev": name, "path_class": pc, "src": src, "flags": list(flags), "n": n, "ok": ok}

    for raw in text.splitlines():
        m = _re_line.match(raw)
        if not m:
            continue
        pid, rest = m.group(1), m.group(2)
        if main is None:
            main = pid
        if rest.startswith("+++"):
            if pid == main:
                if "killed by" in rest:
                    events.append(ev("killed", "other"))
                else:
                    mm = re.search(r"exited with (\d+)", rest)
                    events.append(ev("exit", "other", n=int(mm.group(1)) if mm else 0))
            continue
        if rest.startswith("---"):
            continue
        if rest.endswith("<unfinished ...>"):
            pending[pid] = rest[:-len("<unfinished ...>")]
            # count it now: strace's when=N counts entries
            mc = _re_call.match(pending[pid])
            if mc and pid == main:
                counts[mc.group(1)] = counts.get(mc.group(1), 0) + 1
                pending[pid + ":counted"] = True
            continue
        resumed = False
        mr = re.match(r"^<\.\.\. (\w+) resumed>(.*)$", rest, re.S)
        if mr:
            rest = pending.pop(pid, mr.group(1) + "(") + mr.group(2)
            resumed = True
        mc = _re_call.match(rest)
        if not mc:
            continue
        name, tail = mc.group(1), mc.group(2)
        i = tail.rfind(" = ")
        if i < 0:
            continue
        args, ret = tail[:i], tail[i + 3:].strip()
        if args.endswith(")"):
            args = args[:-1]
        counted = pending.pop(pid + ":counted", False) if resumed else False
        if pid == main and not counted:
            counts[name] = counts.get(name, 0) + 1
        touches = cachedir in args or cachedir in ret
        if ret.startswith("?"):
            # the call was entered and never returned: the injected kill arrived here
            if pid == main:
                interrupted = {"syscall": name, "when": counts.get(name), "touches_cache_dir": touches}
            continue
        mret = re.match(r"-?(0x[0-9a-f]+|\d+)", ret)
        if not mret:
            continue
        retv = int(mret.group(0), 0)
        ok = retv >= 0
        if pid == main and touches:
            kill_points.append({"syscall": name, "when": counts[name]})
        fds = _re_fd.findall(args)
        strs = [s for s in _re_str.findall(args)]

        def abspath(s, dirfd=None):
            if os.path.isabs(s):
                return os.path.normpath(s)
            return os.path.normpath(os.path.join(dirfd or os.path.join(root, "cwd"), s))

        e = None
        if name in ("open", "openat", "creat"):
            if not strs:
                continue
            path = abspath(strs[0], fds[0] if (name == "openat" and fds) else None)
            flags = ["O_CREAT", "O_WRONLY", "O_TRUNC"] if name == "creat" else \
                re.findall(r"O_[A-Z_]+", args.split('"')[-1])
            e = ev("open", cls(path), flags=flags, ok=ok)
        elif name in WRITE_CALLS:
            if not ok or retv == 0 or not fds:
                continue
            path = fds[1] if name == "copy_file_range" and len(fds) > 1 else fds[0]
            e = ev("write", cls(path), n=retv)
        elif name in ("truncate", "ftruncate"):
            if not ok:
                continue
            path = abspath(strs[0]) if name == "truncate" and strs else (fds[0] if fds else "")
            e = ev("open", cls(path), flags=["O_WRONLY", "O_TRUNC"], ok=True)
        elif name in ("fsync", "fdatasync"):
            if ok and fds:
                e = ev("fsync", cls(fds[0]))
        elif name in ("rename", "renameat", "renameat2", "link", "linkat"):
            if not ok or len(strs) < 2:
                continue
            e = ev("rename", cls(abspath(strs[1])), src=cls(abspath(strs[0])))
        elif name in ("unlink", "unlinkat"):
            if not ok or not strs:
                continue
            e = ev("unlink", cls(abspath(strs[0])))
        if e is None:
            continue
        # keep what concerns the cache directory, plus the calls on the scratch tree (as "other")
        if e["path_class"] != "other" or e.get("src") in ("cache", "temp") or \
                (e["ev"] == "open" and strs and abspath(strs[0]).startswith(root + os.sep)):
            events.append(e)
    return {"events": events, "kill_points": kill_points, "interrupted": interrupted}


def meta_event(ctx, case):
    s = case["server"]
    m = s["mode"]
    k = {"ok": len(ctx.new), "okclose": len(ctx.new), "status": ctx.errlen, "refused": 0}.get(m)
    if k is None:
        k = ctx.cut_bytes(s)
    return {"ev": "meta", "path_class": "other", "src": "none", "flags": [], "n": 0, "ok": True,
            "prior": case["prior"], "entry": case["entry"], "mode": m, "k": k,
            "code": 200 if m in ("ok", "cut", "stall", "okclose", "cutclose") else s["code"],
            "newlen": len(ctx.new), "errlen": ctx.errlen,
            "kill": ("%s#%d" % (case["kill"]["syscall"], case["kill"]["when"])) if case.get("kill") else "none"}


# ----------------------------------------------------------------------------
# judging an observation against what the property admits

def judge(case, expect, obs, control=None):
    """-> (violations, drifts); a violation is (kind, spec_allows, observed).
    control: {entry: a refresh against the healthy server from an untouched cache directory succeeded in this check
    run}; the recovery verdict is differential (see below)."""
    v, d = [], []
    r1 = obs["run1"]
    prior, entry, mode = case["prior"], case["entry"], case["server"]["mode"]
    allowed = ["prior", "new"] if mode in SUCCEEDS else ["prior"]
    killed = bool(case.get("kill")) and r1.get("killed")
    if r1["hung"]:
        v.append(("hang", "the run ends (limit %ds)" % RUN_LIMIT, {"run1": r1}))
    # Atomic / FailKeeps: bytes of the cache file
    if obs["after"] not in allowed:
        v.append(("cache-file", {"cache_after": allowed,
                                 "why": "complete previous or complete new contents (byte for byte); unchanged when the "
                                        "server never delivered the complete body with status 200, however the answer "
                                        "was framed"},
                  {"cache_after": obs["after"], "length": obs["after_len"], "killed": killed}))
    if not killed and not r1["hung"]:
        if entry == "startup":
            # StartsAnyway
            if r1["rc"] != 0 or not r1["sum_ok"]:
                v.append(("start", "rink starts and answers 1+1 whatever happened to the refresh",
                          {"rc": r1["rc"], "stdout": r1["stdout_tail"], "stderr": r1["stderr_tail"]}))
            # stale fallback / no refresh needed: a readable previous cache that is still there is used
            elif obs["after"] == "prior" and prior in ("fresh", "stale") and r1["rate"] != "old":
                v.append(("fallback", "the currency query is answered from the previous cache file (rate %s)" % OLD_RATE,
                          {"reply": r1["rate_reply"], "stdout": r1["stdout_tail"]}))
            elif obs["after"] == "new" and r1["rate"] != "new":
                d.append("start after a successful refresh answered %r, not the new rate" % r1["rate_reply"])
        else:
            if r1["rc"] == 0 and obs["after"] != "new":
                v.append(("fetch-claims-success", "--fetch-currency exits 0 only with the new contents in place",
                          {"cache_after": obs["after"], "stdout": r1["stdout_tail"]}))
        if expect is not None:
            if obs["after"] != expect["after"] and obs["after"] in allowed:
                d.append("cache afterwards is %s, the model says %s (both admitted)" % (obs["after"], expect["after"]))
            if entry == "fetch" and (r1["rc"] == 0) != expect["exit_ok"]:
                d.append("--fetch-currency exit status %s, the model says ok=%s" % (r1["rc"], expect["exit_ok"]))
    # the next start, server down: starts, leaves the file alone, shows what the file holds
    for rn in obs["next"]:
        o = {"aged": rn["aged"], "rc": rn["rc"], "reply": rn["rate_reply"], "stdout": rn["stdout_tail"],
             "cache_after_run1": obs["after"], "cache_after_next": rn["after"]}
        if rn["hung"]:
            v.append(("next-start-hang", "the next start ends (limit %ds) and answers 1+1" % RUN_LIMIT, o))
            continue
        if rn["rc"] != 0 or not rn["sum_ok"]:
            v.append(("next-start", "the next start succeeds and answers 1+1", o))
            continue
        if rn["after"] != obs["after"] and not (obs["after"] == "mixed"):
            v.append(("next-start-cache", "a start with the server down leaves the cache file unchanged", o))
        if obs["after"] == "new" and rn["rate"] != "new":
            v.append(("success-not-visible", "the next start answers with the new rate %s" % NEW_RATE, o))
        if obs["after"] == "prior" and prior in ("fresh", "stale") and rn["rate"] != "old":
            v.append(("next-start-fallback", "the next start answers from the previous cache (rate %s)" % OLD_RATE, o))
    # later, against a healthy server: the refresh goes through, whatever the earlier runs left behind
    rr = obs.get("recovery")
    if rr is not None:
        o = {"entry": entry, "rc": rr["rc"], "cache_is_new": rr["cache_is_new"], "cache_length": rr["cache_len"],
             "temp_files_before": rr["litter_before"], "stdout": rr["stdout_tail"], "stderr": rr["stderr_tail"],
             "run_under_test_was_killed": killed, "cache_after_run1": obs["after"]}
        if rr["hung"]:
            v.append(("recovery-hang", "a run against a healthy server ends (limit %ds)" % RUN_LIMIT, o))
        elif not rr["cache_is_new"] and control is not None and not control.get(entry):
            # the property is conditional on success: code that cannot refresh even from an untouched cache directory is
            # not this family's business (run() raises a tool error when no refresh ever succeeds)
            d.append("the refresh against the healthy server did not install the new contents - nor did it from an "
                     "untouched cache directory")
        elif not rr["cache_is_new"]:
            # differential: the same refresh (same server, same entry point) succeeds from an untouched cache directory
            # in this very check run; here it fails only because of what the earlier run left behind.  "Either the
            # previous or the new contents" = a failed refresh counts as not attempted: its effect ends with it
            v.append(("recovery", "a failed or killed refresh leaves the cache as if it had not been attempted: a later "
                                  "refresh against a healthy server (complete 200 answer, cache older than cache_duration) "
                                  "installs the complete new contents exactly as it does from an untouched cache directory", o))
        elif rr["rc"] != 0 or (entry == "startup" and not rr["sum_ok"]):
            v.append(("recovery-start", "the run that refreshed successfully ends with status 0" +
                      (" and answers 1+1" if entry == "startup" else ""), o))
        elif entry == "startup" and rr["rate"] != "new":
            d.append("start after a successful refresh (recovery run) answered %r, not the new rate" % rr["rate_reply"])
    return v, d


# ----------------------------------------------------------------------------
# trace validation (batched: many recorded runs per TLC run)

def validate_traces(run, traces, label):
    """traces: list of (case, events). Each rejection is a violation. Returns (#validated, #rejected)."""
    done = rejected = 0
    start = 0
    while start < len(traces) and rejected < 5:
        chunk = traces[start:]
        lines, owner = [], []
        for i, (case, evs) in enumerate(chunk):
            for e in evs:
                lines.append(e)
                owner.append(i)
        path = vlib.workfile("c20-%s-%d-%d.ndjson" % (label, os.getpid(), start))
        vlib.write_ndjson(path, lines)
        try:
            ok, info = vlib.validate_trace("Trace_Cache", "Trace_Cache", path, timeout=900, tag="c20v")
        finally:
            os.remove(path)
        run.cov["states"] += info["distinct"]
        run.cov["transitions"] += info["generated"]
        if ok:
            done += len(chunk)
            break
        idx = int(info["reject"].split(",")[0])
        who = owner[idx - 1]
        case, evs = chunk[who]
        done += who
        rejected += 1
        bad = lines[idx - 1]
        run.violation(dict(case, engine="cache-trace", kind="trace-rejected", event=bad, events=evs),
                      "every call that can change the cache file is an enabled action of Cache.tla: no write / truncating "
                      "open / unlink on the cache path, rename onto it only from the temp file after the complete body "
                      "and status 200",
                      {"rejected_event": bad, "position_in_run": sum(1 for o in owner[:idx] if o == who)}, "cache-trace")
        start += who + 1
    run.traces(done)
    return done, rejected


def synthetic_good(ctx):
    def ev(name, pc, src="none", flags=(), n=0, ok=True):
        return {"ev": name, "path_class": pc, "src": src, "flags": list(flags), "n": n, "ok": ok}
    case = {"prior": "stale", "entry": "startup", "server": {"mode": "ok", "k": 0, "code": 200}, "kill": None}
    half = len(ctx.new) // 2
    return [meta_event(ctx, case), ev("open", "cache", flags=["O_RDONLY", "O_CLOEXEC"]),
            ev("open", "temp", flags=["O_RDWR", "O_CREAT", "O_EXCL", "O_CLOEXEC"]),
            ev("write", "temp", n=half), ev("write", "temp", n=len(ctx.new) - half), ev("fsync", "temp"),
            ev("rename", "cache", src="temp"), ev("exit", "other")]


def corrupted_selfcheck(run, ctx, good):
    """a recorded successful refresh, corrupted in two ways, must be rejected by Trace_Cache"""
    evs = good[1] if good else []
    writes = [i for i, e in enumerate(evs) if e["ev"] == "write" and e["path_class"] == "temp"]
    ren = [i for i, e in enumerate(evs) if e["ev"] == "rename" and e["path_class"] == "cache"]
    if not writes or not ren or ren[0] < writes[-1]:
        # the code under test produced no usable recording (it does not follow the protocol): use a
        # hand-written run of the protocol instead, which must itself be accepted
        evs = synthetic_good(ctx)
        writes = [i for i, e in enumerate(evs) if e["ev"] == "write"]
        ren = [i for i, e in enumerate(evs) if e["ev"] == "rename"]
        path = vlib.workfile("c20-synth-%d.ndjson" % os.getpid())
        vlib.write_ndjson(path, evs)
        try:
            ok, info = vlib.validate_trace("Trace_Cache", "Trace_Cache", path, tag="c20c")
        finally:
            os.remove(path)
        if not ok:
            raise vlib.ToolError("self-check: the hand-written protocol run was rejected by Trace_Cache")
        run.note("selfcheck_trace_source", "hand-written (no protocol-conforming recording available)")
    a = [dict(e) for e in evs]
    a[writes[-1]]["path_class"] = "cache"                   # a write that lands in the cache file itself
    b = [dict(e) for e in evs]
    b.insert(writes[-1], b.pop(ren[0]))                     # rename before the last piece was written
    for name, t in (("write-to-cache", a), ("early-rename", b)):
        path = vlib.workfile("c20-corrupt-%d.ndjson" % os.getpid())
        vlib.write_ndjson(path, t)
        try:
            ok, info = vlib.validate_trace("Trace_Cache", "Trace_Cache", path, tag="c20c")
        finally:
            os.remove(path)
        if ok:
            raise vlib.ToolError("self-check: corrupted trace (%s) was accepted by Trace_Cache" % name)
    run.note("selfcheck_corrupted_traces_rejected", ["write-to-cache", "early-rename"])


# ----------------------------------------------------------------------------
# TLC

VARIANTS = [("v_inplace", "Atomic"), ("v_inplace2", "FailKeeps"), ("v_persist1", "Atomic"), ("v_persist2", "FailKeeps"),
            ("v_trunc", "Atomic"), ("v_noval", "Atomic"), ("v_noval2", "SuccessIsComplete"), ("v_fixedtmp", "Recovers"),
            ("v_nofall", "FallsBack"), ("v_abort", "StartsAnyway")]


def design_runs(run, thorough):
    full, gen = ("MC_Cache_full5", "MC_Cache_gen5") if thorough else ("MC_Cache_full", "MC_Cache_gen")
    with concurrent.futures.ThreadPoolExecutor(max_workers=6) as ex:
        def one(name):
            return vlib.tlc("MC_Cache", name, workers=2, timeout=300, xmx="2g", coverage=name in (full, gen),
                            tag="c20-" + name)
        fut = {name: ex.submit(one, name) for name in [full, gen] + ["MC_Cache_" + v for v, _ in VARIANTS]}
        res = {k: f.result() for k, f in fut.items()}
    for name in (full, gen):
        r = res[name]
        if r.invariant_violated:
            log(r.stdout[-3000:])
            raise vlib.ToolError("the model of the code's own protocol violates %s in %s" % (r.invariant_violated, name))
        vlib.require_ok(r, name)
        run.add_tlc(r, name)
        never = [a for a, (dd, t) in r.coverage.items() if t == 0 and not (name == gen and a == "AbandonTemp")]
        if never or not r.coverage:
            raise vlib.ToolError("vacuity gate: actions never taken in %s: %s" % (name, never))
    caught = {}
    for v, inv in VARIANTS:
        r = res["MC_Cache_" + v]
        if getattr(r, "timed_out", False):
            raise vlib.ToolError("TLC timed out on MC_Cache_%s" % v)
        if r.invariant_violated != inv:
            log(r.stdout[-2000:])
            raise vlib.ToolError("sanity: protocol variant %s should violate %s (got %s)" % (v, inv, r.invariant_violated))
        caught[v] = "%s violated (%d states)" % (inv, r.distinct)
    run.note("sanity_broken_protocols_caught_by_tlc", caught)
    cases = vlib.tagged_json(res[gen], "REPLAY")
    if not cases:
        raise vlib.ToolError("generator printed no cases")
    return cases


def group_cases(cases):
    """REPLAY lines -> {combo key: (case, {aged: expect})}"""
    groups = {}
    for c in cases:
        case = {"engine": "cache-fault", "prior": c["prior"], "server": c["server"], "entry": c["entry"], "kill": None}
        g = groups.setdefault(case_key(case), (case, {}))
        g[1][bool(c["aged"])] = c["expect"]
    return groups


# ----------------------------------------------------------------------------

def report(run, case, obs, viols, drifts):
    slim = {k: v for k, v in obs.items() if k not in ("events",)}
    for kind, allows, seen in viols:
        run.violation(dict(case, kind=kind), allows, dict(seen, observation=slim), case["engine"])
    for t in drifts:
        run.drift_note("Cache", "%s/%s/%s: %s" % (case["prior"], case["server"]["mode"], case["entry"], t))


TINY_SERVERS = (("ok", None, 200), ("cutclose", 1, 200), ("status", 1, 500), ("refused", 0, 0))


def tiny_servers(pieces, thorough):
    """the server behaviours the tiny previous caches are combined with: (mode, k, code) as TLC prints them"""
    t = [(m, pieces if k is None else k, c) for m, k, c in TINY_SERVERS]
    if thorough:
        t += [("okclose", pieces, 200), ("cut", 1, 200), ("stall", 1, 200), ("status", 1, 404)]
    return t


def run_many(ctx, jobs, workers):
    """jobs: list of (case, ageds) -> list of observations (same order)"""
    with concurrent.futures.ThreadPoolExecutor(max_workers=workers) as ex:
        futs = [ex.submit(execute, ctx, case, ageds) for case, ageds in jobs]
        return [f.result() for f in futs]


TIMING_KINDS = ("hang", "next-start-hang", "recovery-hang")


def settle(run, ctx, case, ageds, expect, obs):
    """judge; what is on disk and what rink printed is believed as it is - only a verdict that rests on a
    time limit (a run called a hang) must show again when the case runs alone before it is believed"""
    viols, drifts = judge(case, expect, obs, ctx.control)
    timing = [x for x in viols if x[0] in TIMING_KINDS]
    if timing:
        log("[C20] suspected %s on %s - running the case again, alone" % ([k for k, _, _ in timing], case_key(case)))
        obs2 = execute(ctx, case, ageds)
        viols2, drifts2 = judge(case, expect, obs2, ctx.control)
        if not [x for x in viols2 if x[0] in TIMING_KINDS]:
            run.drift_note("harness", "a run of %s exceeded %ds once but not when run alone (not counted)"
                           % (case_key(case), RUN_LIMIT))
            viols = [x for x in viols if x[0] not in TIMING_KINDS]
            if not viols:
                return obs2, viols2, drifts2
    return obs, viols, drifts


def run(tier, seed):
    run = vlib.Run(PROP, tier, seed, LEVEL)
    thorough = tier == "thorough"
    pieces = 5 if thorough else 3
    run.cov["rule"] = (
        "G: every (prior cache in absent/fresh/stale/unreadable-old/unreadable-recent) x (server: complete 200 with "
        "Content-Length | the same cut after each of the %d piece boundaries | complete 200 delimited by the close of the "
        "connection (no Content-Length, no chunks) | the same cut after each piece boundary | stall with nothing/headers/each "
        "boundary sent | 301/404/500 with a body | connection refused) x "
        "(startup | --fetch-currency) printed by TLC from Cache.tla, run on the real rink binary against rv-httpd; then the "
        "next start with the server down (also with the cache aged past cache_duration). K: the same run repeated with "
        "SIGKILL injected at the entry of each file-system call that touched the cache directory (calls after the rename "
        "included; the file is compared byte for byte). T: previous caches of 0, 1, 2 and 3 bytes (%d contents) x old/recent "
        "x both entry points x %d server behaviours. R: every run of G, K and T is followed (after the start with the server "
        "down) by a run against a healthy server with the cache aged, which must install the new contents. V: every strace "
        "log validated by Trace_Cache.tla. evaluations = rink runs; non-trivial = a fault was injected (server "
        "does not deliver the complete body with status 200, or a kill that actually hit, or a tiny unreadable cache); "
        "distinct by (prior, server, entry, kill point, tiny contents)." % (pieces, len(TINY), len(tiny_servers(pieces, thorough))))
    run.assumptions += [
        "crash = the process is killed (page cache survives); power loss / fsync ordering is not covered",
        "a close-delimited 200 answer (no Content-Length, no chunked encoding) cut short looks complete to every HTTP "
        "client; it is told from a complete one by its content: no proper prefix of the currency document that ends "
        "before the document's last token parses. Cuts are enumerated at the piece boundaries (thorough: also after 1, 100 and "
        "length-1 bytes); a cut inside trailing white space after the closing bracket (the test body has none) yields a "
        "complete document and is not enumerated",
        "recovery (R): the healthy server answers with Content-Length; 'healthy' = complete body, status 200, no delay",
        "strace delivers the injected SIGKILL on syscall entry: kill point N means the process died before file-system call N "
        "(the state after the last call is the normal end of the run)",
        "harness trusted for: rv-httpd doing what its modes say (self-tested at every run), classifying strace paths as "
        "cache / temp / other, reading rink's stdout",
        "one rink process at a time per cache directory (concurrent refreshes are not in the property)",
    ]
    vlib.build_harness(bins=["rv-httpd"])
    build_cli()
    cases = design_runs(run, thorough)
    groups = group_cases(cases)
    log("[C20] TLC printed %d cases = %d combinations" % (len(cases), len(groups)))
    run.note("tlc_cases", len(cases))

    ctx = Ctx(pieces)
    try:
        ctx.selftest()
        workers = 8
        # ---- G: every combination, traced
        jobs = []
        for key, (case, exp) in sorted(groups.items(), key=lambda kv: str(kv[0])):
            jobs.append((case, sorted(exp.keys()), exp))
        if thorough:
            # cuts that are not on a piece boundary (same expectations as any other cut)
            for prior in ("absent", "stale"):
                for entry in ("startup", "fetch"):
                    base = next(e for c, a, e in jobs if c["prior"] == prior and c["entry"] == entry and c["server"]["mode"] == "cut")
                    for b in (1, 100, len(ctx.new) - 1):
                        jobs.append(({"engine": "cache-fault", "prior": prior, "entry": entry, "kill": None,
                                      "server": {"mode": "cut", "k": 0, "code": 200, "bytes": b}}, [False], base))
                    base = next(e for c, a, e in jobs if c["prior"] == prior and c["entry"] == entry and c["server"]["mode"] == "cutclose")
                    # (the last byte only when it belongs to the document: a body cut inside trailing white space is complete)
                    for b in (1, 100) + ((len(ctx.new) - 1,) if not ctx.new[-1:].isspace() else ()):
                        jobs.append(({"engine": "cache-fault", "prior": prior, "entry": entry, "kill": None,
                                      "server": {"mode": "cutclose", "k": 0, "code": 200, "bytes": b}}, [False], base))
        # ---- T: the shortest previous caches: the model's "unreadable" previous cache stands for every file that is
        # not the currency document; the combinations and expectations are those TLC printed for garbage / garbage_fresh
        ntiny = 0
        for case, ageds, exp in list(jobs):
            sv = case["server"]
            if case["prior"] in ("garbage", "garbage_fresh") and "bytes" not in sv and \
                    (sv["mode"], sv["k"], sv["code"]) in tiny_servers(pieces, thorough):
                for hx in TINY:
                    jobs.append((dict(case, engine="cache-tiny", prior_hex=hx), [False], exp))
                    ntiny += 1
        if ntiny != len(TINY) * 2 * 2 * len(tiny_servers(pieces, thorough)):
            raise vlib.ToolError("tiny previous caches: %d combinations selected" % ntiny)
        t0 = time.time()
        obs_list = run_many(ctx, [(c, a) for c, a, _ in jobs], workers)
        log("[C20] G: %d combinations run in %.0fs" % (len(jobs), time.time() - t0))
        traces = []
        successes = 0
        good = None
        results = {}
        # control for the recovery family: the plain refresh against the healthy server, per entry point
        ctx.control = {e: any(c["entry"] == e and c["server"]["mode"] == "ok" and c["prior"] in ("absent", "stale") and
                              o["after"] == "new" for (c, a, x), o in zip(jobs, obs_list)) for e in ("startup", "fetch")}
        run.note("control_healthy_refresh_succeeds", ctx.control)
        for (case, ageds, exp), obs in zip(jobs, obs_list):
            obs, viols, drifts = settle(run, ctx, case, ageds, exp.get(False), obs)
            run.count(1 + len(obs["next"]) + (1 if "recovery" in obs else 0))
            if case["server"]["mode"] not in SUCCEEDS or case.get("prior_hex") is not None:
                run.nontrivial(case_key(case))
            report(run, case, obs, viols, drifts)
            traces.append((case, obs["events"]))
            results[case_key(case)] = obs
            if obs["after"] == "new":
                successes += 1
                if good is None and case["prior"] == "stale" and case["entry"] == "startup":
                    good = (case, obs["events"])
        if successes == 0:
            # not one refresh went through.  Either the environment keeps rink from reaching the server (no verdict), or
            # the server did deliver complete bodies (its own log says so) and the client turned every one of them down:
            # then the property's third clause ("a successful refresh makes the new rates visible") can never apply
            delivered = ctx.complete_deliveries()
            attempts = [(c, o) for (c, a, x), o in zip(jobs, obs_list)
                        if c["server"]["mode"] in SUCCEEDS and not (c["entry"] == "startup" and c["prior"] in ("fresh", "garbage_fresh"))]
            if delivered == 0 or not attempts:
                if not run.violations:
                    raise vlib.ToolError("no refresh succeeded against a well-behaved server and the server never got to "
                                         "deliver a complete body: the success clause was not exercised")
            else:
                c, o = next(((c, o) for c, o in attempts if c["prior"] == "stale" and c["entry"] == "fetch"), attempts[0])
                run.violation(dict(c, kind="never-refreshes"),
                              "a refresh whose server delivers the complete body with status 200 at once (the client is neither "
                              "killed nor timed out) is a successful refresh: the new contents are installed and visible to "
                              "the next start.  At least one of the %d such attempts of this run succeeds" % len(attempts),
                              {"attempts": len(attempts), "succeeded": 0, "complete_bodies_delivered_by_the_server": delivered,
                               "observation": {k: v for k, v in o.items() if k != "events"}}, c["engine"])
        run.note("combinations", len(jobs))
        run.note("tiny_prior_cache_combinations", ntiny)
        run.note("successful_refreshes_observed", successes)
        smp = next((c, o) for (c, a, e), o in zip(jobs, obs_list) if c["server"]["mode"] == "cut" and c["prior"] == "stale")
        run.sample({"leg": "G", "case": smp[0], "expect": groups[case_key(smp[0])][1].get(False),
                    "observed": {k: v for k, v in smp[1].items() if k != "events"}})
        for want in (lambda c: c["server"]["mode"] == "cutclose" and c["prior"] == "stale" and c["server"]["k"] == 2,
                     lambda c: c.get("prior_hex") == "5b5d" and c["entry"] == "startup" and c["server"]["mode"] == "refused"):
            smp = next(((c, o) for (c, a, e), o in zip(jobs, obs_list) if want(c)), None)
            if smp:
                run.sample({"leg": "T" if smp[0].get("prior_hex") is not None else "G", "case": smp[0],
                            "observed": {k: v for k, v in smp[1].items() if k != "events"}})

        # ---- K: kill sweep
        if thorough:
            sweep = [c for c, a, e in jobs if "bytes" not in c["server"] and c.get("prior_hex") is None]
        else:
            def pick(c):
                sv = c["server"]
                if c.get("prior_hex") is not None:
                    return False
                if c["prior"] == "stale":
                    return (sv["mode"], sv["k"], sv["code"]) in (("ok", pieces, 200), ("cut", 1, 200), ("stall", 1, 200),
                                                                ("stall", -1, 200), ("status", 1, 500), ("refused", 0, 0),
                                                                ("okclose", pieces, 200), ("cutclose", 1, 200))
                return sv["mode"] == "ok" and (c["prior"], c["entry"]) in (("absent", "fetch"), ("garbage", "startup"))
            sweep = [c for c, a, e in jobs if pick(c)]
            if len(sweep) != 18:
                raise vlib.ToolError("quick kill sweep: expected 18 combinations, selected %d" % len(sweep))
        kjobs = []
        for case in sweep:
            pts = results[case_key(case)]["kill_points"]
            seen = set()
            for pt in pts:
                if (pt["syscall"], pt["when"]) in seen:
                    continue
                seen.add((pt["syscall"], pt["when"]))
                kjobs.append((dict(case, engine="cache-kill", kill={"syscall": pt["syscall"], "when": pt["when"]}), [False]))
        t0 = time.time()
        kobs = run_many(ctx, kjobs, workers)
        log("[C20] K: %d kill runs over %d combinations in %.0fs" % (len(kjobs), len(sweep), time.time() - t0))
        hits = {}
        for (case, ageds), obs in zip(kjobs, kobs):
            obs, viols, drifts = settle(run, ctx, case, ageds, None, obs)
            run.count(1 + len(obs["next"]) + (1 if "recovery" in obs else 0))
            if obs["run1"].get("killed"):
                run.nontrivial(case_key(case))
                h = obs["kill_hit"] or {"syscall": "?"}
                hits[h["syscall"]] = hits.get(h["syscall"], 0) + 1
            report(run, case, obs, viols, drifts)
            traces.append((case, obs["events"]))
        if kjobs and not hits and not run.violations:
            raise vlib.ToolError("kill sweep: no injected SIGKILL ever hit (strace inject not working?)")
        run.note("kill_runs", len(kjobs))
        if thorough:
            run.cov["exhaustive"] = True     # every combination of the model's finite space x every kill point found
        run.note("kills_delivered_by_syscall", hits)
        if kjobs:
            i = next((i for i, o in enumerate(kobs) if o["kill_hit"] and o["kill_hit"]["syscall"].startswith("rename")), 0)
            run.sample({"leg": "K", "case": kjobs[i][0], "observed": {k: v for k, v in kobs[i].items() if k != "events"}})

        # ---- V: trace validation
        t0 = time.time()
        nok, nrej = validate_traces(run, traces, "tr")
        log("[C20] V: %d traces validated, %d rejected in %.0fs" % (nok, nrej, time.time() - t0))
        if good is not None:
            run.sample({"leg": "V", "trace": [e for e in good[1] if e["path_class"] != "other" or e["ev"] != "open"]})
        corrupted_selfcheck(run, ctx, good)
    finally:
        ctx.close()
    return run.finish()


def replay(path, seed):
    body = json.load(open(path))
    case = body["case"]
    run = vlib.Run(PROP, "quick", seed, LEVEL)
    vlib.build_harness(bins=["rv-httpd"])
    build_cli()
    if case.get("engine") == "cache-trace":
        p = vlib.workfile("c20-replay-%d.ndjson" % os.getpid())
        vlib.write_ndjson(p, case["events"])
        ok, info = vlib.validate_trace("Trace_Cache", "Trace_Cache", p)
        os.remove(p)
        log("recorded trace %s by Trace_Cache: %s" % ("accepted" if ok else "rejected", info))
        rec_rejected = not ok
    else:
        rec_rejected = False
    pieces = 5 if case["server"].get("k", 0) > 3 or body.get("tier") == "thorough" else 3
    ctx = Ctx(pieces)
    try:
        ctx.selftest()
        c = {"engine": case.get("engine"), "prior": case["prior"], "server": case["server"], "entry": case["entry"],
             "kill": case.get("kill")}
        if case.get("prior_hex") is not None:
            c["prior_hex"] = case["prior_hex"]
        obs = execute(ctx, c, [False, True])
        viols, drifts = judge(c, None, obs)
        if case.get("kind") == "never-refreshes" and obs["after"] != "new":
            viols.append(("never-refreshes", "the refresh against the healthy server installs the new contents", {}))
        log("observed now: " + json.dumps({k: v for k, v in obs.items() if k != "events"})[:3000])
        for kind, allows, seen in viols:
            log("STILL VIOLATED: %s - allowed: %s" % (kind, json.dumps(allows)))
        p = vlib.workfile("c20-replay-%d.ndjson" % os.getpid())
        vlib.write_ndjson(p, obs["events"])
        ok, info = vlib.validate_trace("Trace_Cache", "Trace_Cache", p)
        os.remove(p)
        log("trace of this run %s by Trace_Cache %s" % ("accepted" if ok else "REJECTED", info.get("reject", "")))
        return 1 if (viols or not ok or rec_rejected) else 0
    finally:
        ctx.close()
