"""C08 - the loaded database is a fixed point of its own definitions.

Legs (DESIGN.md section 4, C08):
  L  the bundled definitions and the currency overlay load with Ok(()) - no errors, no warnings (rv-load loadcheck)
  N  loading is a function of the text: two independent loads (two processes) give byte-identical dumps
  J  the judge specification Trace_Registry.tla (RegistryInv) over the dump of the real Registry:
       1. for every unit with a stored definition, Ev(definition, finished database) agrees with the stored value
          (exact rational QEq, dimensionality DEq; Eval.tla over BigNum/Dim, the evaluator of C01/C02).  Definitions
          whose value the specification does not determine exactly (float constants, functions, `of`, substances)
          are counted and skipped.  Sharded: each TLC run gets some definitions and the part of the database their
          identifiers can reach (exact / prefix + name / plural candidates computed from the ASTs).
       2. every dimensionality uses declared base units only, no zero exponent
       3. quantities <-> dimensionalities is one-to-one
       4. alias chains end at a real definition
       5. doc / category keys are known names, every category id has a display name
       6. prefix names are unique
  D  design: Loader.tla's FixedPoint / TopoOrder on small definition sets (checked by the C12 configuration
     MC_Loader_q, run here as well)
  Self-check: a corrupted stored value and a broken structural clause must be rejected by the judge.
"""
import concurrent.futures as cf
import copy
import hashlib
import json
import os
import random
import re

import loaderkit as lk
import vlib
from vlib import log

PROP = "C08"


def dump_ctx(ctx, tag):
    path = vlib.workfile("c08-%s-%s.json" % (ctx, tag))
    vlib.run_tool([lk.rv_load(), "dump", ctx, path], timeout=300)
    return path


def ast_idents(ast, out):
    k = ast.get("k")
    if k == "unit":
        out.add(tuple(ast["name"]))
    elif k == "bin":
        ast_idents(ast["l"], out)
        ast_idents(ast["r"], out)
    elif k in ("un", "of"):
        ast_idents(ast["e"], out)
    elif k == "mul":
        for e in ast["es"]:
            ast_idents(e, out)
    elif k == "call":
        for e in ast["args"]:
            ast_idents(e, out)


def ast_kinds(ast, out):
    out.add(ast.get("k"))
    for key in ("l", "r", "e"):
        if isinstance(ast.get(key), dict):
            ast_kinds(ast[key], out)
    for key in ("es", "args"):
        for e in ast.get(key, []):
            ast_kinds(e, out)


DEGREE_NAMES = ["kelvin", "zerocelsius", "degrankine", "zerofahrenheit", "reaumur_absolute", "romer_absolute", "zeroromer",
                "delisle_absolute", "zerodelisle", "newton_absolute"]


class Dump:
    def __init__(self, d):
        self.d = d
        self.units = {tuple(u["name"]): u for u in d["units"]}
        self.base = {tuple(b) for b in d["base"]}
        self.prefixes = [tuple(p["name"]) for p in d["prefixes"]]
        self.subst = {tuple(sb["name"]) for sb in d["substances"]}

    def candidates(self, name):
        """every exact name Registry::lookup may touch while reading `name`"""
        out = set()
        stems = [name]
        if name and name[-1] == 115:
            stems.append(name[:-1])
        for st in stems:
            out.add(st)
            for p in self.prefixes:
                if st[:len(p)] == p:
                    out.add(st[len(p):])
        return out

    def env_for(self, defs):
        names = set()
        for d in defs:
            ids = set()
            ast_idents(d["def"], ids)
            for n in ids:
                names |= self.candidates(n)
        for w in DEGREE_NAMES:
            names.add(tuple(ord(c) for c in w))
        return {
            "base": [list(b) for b in sorted(self.base)],
            "units": [{"name": list(n), "val": self.units[n]["val"]} for n in sorted(names) if n in self.units],
            "prefixes": [{"name": p["name"], "v": p["v"]} for p in self.d["prefixes"]],
            "subst": [list(n) for n in sorted(names) if n in self.subst],
        }

    def struct(self):
        d = self.d
        defs = {tuple(x["name"]): x for x in d["defs"]}
        aliases = []
        real = set(self.base)
        for n, x in defs.items():
            if x["def"]["k"] == "unit":
                aliases.append({"name": list(n), "to": x["def"]["name"]})
            else:
                real.add(n)
        # a long prefix is a unit without a definition: real
        for n in self.units:
            if n not in defs:
                real.add(n)
        known = set(self.units) | self.base | set(self.prefixes) | self.subst | {tuple(q["name"]) for q in d["quantities"]} \
            | {tuple(c["id"]) for c in d["category_names"]} | {tuple(x["short"]) for x in d["long_names"]}
        dims = [{"name": u["name"], "d": u["val"]["d"]} for u in d["units"]]
        dims += [{"name": q["name"], "d": q["dims"]} for q in d["quantities"]]
        return {
            "base": [list(b) for b in sorted(self.base)],
            "unitnames": [list(n) for n in sorted(self.units)],
            "known": [list(n) for n in sorted(known)],
            "catids": [c["id"] for c in d["category_names"]],
            "real": [list(n) for n in sorted(real)],
            "aliases": aliases,
            "dims": dims,
            "quantities": [{"name": q["name"], "dims": q["dims"]} for q in d["quantities"]],
            "dockeys": d["docs"],
            "cats": d["categories"],
            "prefixes": [p["name"] for p in d["prefixes"]],
        }


_rej = re.compile(r'^<<"REJECT", (\d+), (.*)>>$')
_sil = re.compile(r'^<<"SILENT", (\d+), "(\w+)">>$')
_str = re.compile(r'^<<"STRUCT", "([\w-]+)", (.*)>>$')


def judge_shard(path, ndefs, has_struct, tag):
    r = vlib.tlc("Trace_Registry", "Trace_Registry", workers=1, timeout=3000, env={"SHARD": path}, deque=True, tag=tag, xmx="6g")
    if getattr(r, "timed_out", False):
        raise vlib.ToolError("Trace_Registry timed out on %s" % path)
    if not r.ok or r.distinct != ndefs + 2:
        log(r.stdout[-3000:])
        raise vlib.ToolError("Trace_Registry did not consume every definition (%d of %d)" % (r.distinct - 2, ndefs))
    rejects, silents, structs = {}, {}, []
    done = None
    for ln in r.stdout.splitlines():
        m = _rej.match(ln)
        if m:
            rejects[int(m.group(1)) - 1] = m.group(2)
            continue
        m = _sil.match(ln)
        if m:
            silents[int(m.group(1)) - 1] = m.group(2)
            continue
        m = _str.match(ln)
        if m:
            structs.append((m.group(1), vlib._unquote_tla(m.group(2))))
            continue
        if ln.startswith('<<"STRUCT_DONE"'):
            done = ln
    if has_struct and done is None:
        raise vlib.ToolError("Trace_Registry did not evaluate the structural clauses")
    return rejects, silents, structs, r, done


def judge_dump(run, ctxname, dump, defs, per_shard, workers, with_struct=True):
    """defs: list of [name, def, val] records to re-evaluate. Returns (rejects, silents, structs) with global indices."""
    D = Dump(dump)
    shards = [defs[i:i + per_shard] for i in range(0, len(defs), per_shard)] or [[]]
    paths = []
    for i, sh in enumerate(shards):
        body = {"env": D.env_for(sh), "defs": sh, "has_struct": bool(with_struct and i == 0)}
        body["struct"] = D.struct() if body["has_struct"] else {}
        p = vlib.workfile("c08-%s-shard-%d.json" % (ctxname, i))
        with open(p, "w") as f:
            json.dump(body, f, separators=(",", ":"))
        paths.append((p, len(sh), body["has_struct"]))
    rejects, silents, structs = {}, {}, []
    done = None
    with cf.ThreadPoolExecutor(max_workers=workers) as ex:
        futs = [ex.submit(judge_shard, p, n, hs, "c08j") for p, n, hs in paths]
        for i, f in enumerate(futs):
            rj, sl, st, r, dn = f.result()
            run.cov["states"] += r.distinct
            run.cov["transitions"] += r.generated
            for k, v in rj.items():
                rejects[i * per_shard + k] = v
            for k, v in sl.items():
                silents[i * per_shard + k] = v
            structs += st
            done = done or dn
    return rejects, silents, structs, done


def reevaluable(dump):
    """units with a stored definition -> records for the judge; the ones outside the exact evaluator are counted"""
    defs = {tuple(x["name"]): x for x in dump["defs"]}
    recs, skipped = [], {"float-constant": 0, "float-value": 0, "no-definition": 0}
    for u in dump["units"]:
        d = defs.get(tuple(u["name"]))
        if d is None or not d.get("is_unit"):
            skipped["no-definition"] += 1
            continue
        kinds = set()
        ast_kinds(d["def"], kinds)
        if kinds & {"constf", "date", "err"}:
            skipped["float-constant"] += 1
            continue
        if u["val"]["t"] != "num":
            skipped["float-value"] += 1
            continue
        recs.append({"name": u["name"], "s": u["s"], "def": d["def"], "val": u["val"]})
    # the definitions as WRITTEN in the shipped source texts (rv-load dump: source_defs) are the reference:
    #  * a unit is re-evaluated from its source definition when the registry recorded a different expression
    #    (the difference itself is reported by the caller), and
    #  * prefix definitions, which never reach Registry::definitions, are re-evaluated against Registry::prefixes.
    src = {}
    for x in dump.get("source_defs", []):
        src.setdefault((x["kind"], x["s"]), []).append(x)
    for r in recs:
        w = src.get(("unit", r["s"]))
        if w and len(w) == 1 and w[0]["def"] != r["def"]:
            r["recorded_def"] = r["def"]
            r["def"] = w[0]["def"]
    pre = {p["s"]: p for p in dump["prefixes"]}
    for (kind, name), w in sorted(src.items()):
        if kind != "prefix" or len(w) != 1 or name not in pre:
            continue
        kinds = set()
        ast_kinds(w[0]["def"], kinds)
        if kinds & {"constf", "date", "err"} or "float" in pre[name]["v"]:
            skipped["float-constant"] += 1
            continue
        recs.append({"name": w[0]["name"], "s": "prefix " + name + "-", "def": w[0]["def"],
                     "val": {"t": "num", "v": pre[name]["v"], "d": []}, "is_prefix": True})
    return recs, skipped


def run(tier, seed):
    run = vlib.Run(PROP, tier, seed, "model_checking")
    thorough = tier == "thorough"
    run.cov["rule"] = ("every unit of the bundled database and of the currency overlay that has a stored definition (all of them in both tiers; "
                       "quick would sample 2500 by the seed if there were more) is re-evaluated by the specification's evaluator in the "
                       "finished database; all structural clauses on the whole dump. non-trivial = distinct definition that is not a bare "
                       "constant and whose value the specification determines exactly.")
    run.assumptions += [
        "harness trusted for: field-by-field JSON dump of the public Registry maps (numbers as limbs, names as code points)",
        "Context.temporaries is private: its emptiness after loading is checked in the model (Loader.TemporariesEmpty), not on the dump",
        "float-valued definitions, functions, `of` and substance values are counted and skipped (Eval.tla does not determine floats)",
    ]
    vlib.build_harness()

    # ---- D: the design-level fixed point on small sets
    r = vlib.tlc("MC_Loader", "MC_Loader_q", workers=4, timeout=900, tag="c08d")
    if r.invariant_violated or not r.ok:
        log(r.stdout[-3000:])
        raise vlib.ToolError("design model MC_Loader_q does not satisfy its properties (%s)" % r.invariant_violated)
    run.add_tlc(r, "MC_Loader_q (FixedPointScoped, TopoOrder, TemporariesEmpty, <>Done)")
    if thorough:
        r = vlib.tlc("MC_Loader", "MC_Loader_d4", workers=8, timeout=1800, tag="c08d4", xmx="12g")
        if r.invariant_violated or not r.ok:
            log(r.stdout[-3000:])
            raise vlib.ToolError("design model MC_Loader_d4 does not satisfy its properties (%s)" % r.invariant_violated)
        run.add_tlc(r, "MC_Loader_d4 (every set <= 4 of 17 items: FixedPointScoped, TopoOrder, OrderIndependent)")

    # ---- L: loads with no errors or warnings
    p = vlib.run_tool([lk.rv_load(), "loadcheck"], timeout=300)
    lc = json.loads(p.stdout.strip().splitlines()[-1])
    for ctx in ("bundled", "currency"):
        run.count()
        res = lc[ctx]["load"]
        if not res["ok"]:
            run.violation({"engine": "loadcheck", "ctx": ctx, "messages": res.get("msgs", [])[:10]},
                          "Ok(()): no errors or warnings", res, "loadcheck")
    run.note("loadcheck", {k: lc[k] for k in ("bundled", "currency", "datepatterns")})

    # ---- N: two independent loads, identical dumps
    dumps = {}
    for ctx in ("bundled", "currency"):
        a = dump_ctx(ctx, "a")
        b = dump_ctx(ctx, "b")
        ba, bb = open(a, "rb").read(), open(b, "rb").read()
        run.count()
        if ba != bb:
            run.violation({"engine": "determinism", "ctx": ctx}, "two loads of the same text give identical databases",
                          {"sha_a": hashlib.sha256(ba).hexdigest(), "sha_b": hashlib.sha256(bb).hexdigest()}, "determinism")
        dumps[ctx] = json.loads(ba)
        run.note("dump_sha256_%s" % ctx, hashlib.sha256(ba).hexdigest()[:16])

    # ---- J: RegistryInv
    rng = random.Random(seed)
    nsil_total = {}
    for ctx in ("bundled", "currency"):
        dump = dumps[ctx]
        recs, skipped = reevaluable(dump)
        if ctx == "currency":
            # the overlay's own definitions (the bundled part is judged in its own right)
            bundled_names = {u["s"] for u in dumps["bundled"]["units"]}
            recs = [r for r in recs if r["s"] not in bundled_names]
        elif not thorough and len(recs) > 2500:
            # (the judge takes seconds: the quick tier judges every definition of the shipped database as well;
            # sampling only starts should the database grow beyond 2500 re-evaluable definitions)
            recs = rng.sample(recs, 2500)
        per = 150 if thorough else 125
        rejects, silents, structs, done = judge_dump(run, ctx, dump, recs, per, workers=12 if thorough else 8)
        run.traces(len(recs) + 1)
        for i, rec in enumerate(recs):
            run.count()
            if i in silents:
                nsil_total[silents[i]] = nsil_total.get(silents[i], 0) + 1
                continue
            if rec["def"]["k"] != "const":
                run.nontrivial("%s:%s" % (ctx, rec["s"]))
            if "recorded_def" in rec:
                # the registry shows this expression as the unit's definition, but the source text defines it otherwise
                run.violation({"engine": "recorded-definition", "ctx": ctx, "unit": rec["s"], "recorded": rec["recorded_def"]},
                              {"definition_in_source_text": rec["def"]}, {"recorded_definition": rec["recorded_def"]}, "recorded-definition")
            if i in rejects:
                run.violation({"engine": "fixed-point", "ctx": ctx, "unit": rec["s"], "def": rec["def"]},
                              {"value_of_definition_in_finished_database": vlib._unquote_tla(rejects[i])[:1500]},
                              {"stored": rec["val"]}, "fixed-point")
        for clause, what in structs:
            run.count()
            run.violation({"engine": "structure", "ctx": ctx, "clause": clause, "witness": what[:600]},
                          "RegistryInv clause %s" % clause, what[:600], "structure")
        run.note("judged_%s" % ctx, {"definitions": len(recs), "silent": len(silents), "skipped_before_judging": skipped,
                                    "structural": done})
        log("[C08] %s: %d definitions judged (%d silent, %d rejected), skipped %s, structural %s" % (
            ctx, len(recs), len(silents), len(rejects), skipped, done))
        if recs:
            run.sample({"ctx": ctx, "unit": recs[len(recs) // 2]["s"], "def": recs[len(recs) // 2]["def"]})
    run.note("silent_by_kind", nsil_total)

    # ---- self-check: corrupted dump must be rejected (value and structure)
    bad = copy.deepcopy(dumps["bundled"])
    recs, _ = reevaluable(bad)
    victim = next(r for r in recs if r["s"] == "foot") if any(r["s"] == "foot" for r in recs) else recs[0]
    v2 = copy.deepcopy(victim)
    mag = v2["val"]["v"]["n"]["mag"]
    mag[0] = (mag[0] + 1) % 4096 if mag else 1
    bad["quantities"].append(dict(bad["quantities"][0]))                       # a dimensionality with two quantities
    bad["docs"].append([122, 122, 122, 113, 113])                              # a doc for a name that does not exist
    rejects, silents, structs, done = judge_dump(run, "selfcheck", bad, [victim, v2], 10, workers=1)
    clauses = {c for c, _ in structs}
    if 0 in rejects or 1 not in rejects or not {"quantities", "doc-key"} <= clauses:
        raise vlib.ToolError("self-check: Trace_Registry did not reject the corrupted dump (rejects %s, clauses %s)" % (sorted(rejects), clauses))
    run.note("selfcheck_corrupted_dump_rejected", True)
    return run.finish()


def replay(path, seed):
    body = json.load(open(path))
    case = body["case"]
    vlib.build_harness()
    run = vlib.Run(PROP, "quick", seed, "model_checking")
    if case.get("engine") == "loadcheck":
        p = vlib.run_tool([lk.rv_load(), "loadcheck"], timeout=300)
        lc = json.loads(p.stdout.strip().splitlines()[-1])
        log(json.dumps(lc[case["ctx"]])[:1500])
        return 0 if lc[case["ctx"]]["load"]["ok"] else 1
    ctx = case.get("ctx", "bundled")
    dump = json.load(open(dump_ctx(ctx, "r")))
    if case.get("engine") == "fixed-point":
        recs, _ = reevaluable(dump)
        recs = [r for r in recs if r["s"] == case["unit"]]
        rejects, silents, structs, _ = judge_dump(run, "replay", dump, recs, 10, workers=1, with_struct=False)
        log("unit %s: %s" % (case["unit"], "rejected " + rejects[0][:800] if rejects else "accepted"))
        return 1 if rejects else 0
    if case.get("engine") == "structure":
        rejects, silents, structs, _ = judge_dump(run, "replay", dump, [], 10, workers=1)
        for c, w in structs[:5]:
            log("clause %s: %s" % (c, w[:300]))
        return 1 if any(c == case["clause"] for c, _ in structs) else 0
    return 2
