"""C04 - totality: no input can crash, abort or hang evaluation. TLC enumerates token soup (every sequence
of <= 2..4 lexemes over one representative lexeme per token kind and per lexer error path); the driver adds
mutations of valid queries and random Unicode. Every input runs through lex, parse, evaluate and the three
renderers in an isolated worker on a long-lived bundled context (per-input watchdog, address-space limit);
Trace_Pipeline.tla accepts a line only as a completed request, or - for inputs whose exact result may exceed
2^Theta by the static bound CostBits - as a request stopped by the watchdog or the memory limit."""
import json
import random

import evalkit
import vlib
from vlib import log

PROP = "C04"
CORE = ["1", "1.5", "1e3", "1e", "0x", "0x1F", "m", "kg", "foo", "of", "per", "to", "mod", "degC", "(", ")", "+", "-", "*", "/",
        "|", "^", "=", ",", ";", "->", "<<", "%", "'a'", "'a", "\\u", "#2000-01-01#", "now", "ans", "sqrt", "hypot",
        "units", "for", "factorize", "search", "digits", "base", "hex", "16", "water", "+05:30"]
EXPENSIVE = ["1e999999999", "1e-2147483648", "2^2^2^2^2^2", "1 << 2000000000"]
EXTRA = [".5", "1.", "0o7", "0b1", "2", "s", "in", "and", "or", "xor", "°F", "**", ":", ">>",
         "\"b c\"", "\\u41", "\\uD800", "\\uFFFFFFFFF", "\\x", "//c", "/*", "/**/", "#", "#2000-01-01 00:00:00.1234567890#", "int",
         "frac", "sci", "eng", "99", "0", "-99:00", "UTC", "H2O", "H99999999999", "speed", "light", "€", "ln", "asin", "exp",
         "1000", "1|0", "99999999999999999999", "mass", "molar_mass", "gold", "of (", "#1 jan 2000#", "°", "\\",
         "\"\"", "\"", "''", "1e17", "1e-30", "years", "ns", "1/3"]
VALID = ["1 + 2 * 3", "3 ft + 2 m -> cm", "12 degC -> degF", "90061.5 s -> hour;min;s", "#2016-07-04# + 3 days", "now - #2000-01-01#",
         "speed of light -> km/s", "molar_mass of water", "1 kg water -> liter", "sqrt(4 m^2)", "hypot(3 m, 4 m)", "2^64 -> hex",
         "1|3 -> digits 40", "1e-9 -> eng", "355|113 -> frac", "units for energy", "factorize velocity", "search foot", "foot",
         "0xFF and 0b1010 xor 3", "-5 mod 3", "1 << 10", "1 -> 1 << 2", "5 m -> 3 ft >> 1", "7 -> 2 mod 3", "7 -> 3 and 1", "x = 3 m", "10 km -> mile;yard;ft", "65 mph -> km/hour", "pi ** 2",
         "ln 2", "exp 1", "asin 1", "#2016-07-04 12:00# -> \"US/Pacific\"", "#2016-07-04# -> +05:30", "ans + 1", "7 -> base 2",
         "1 H2O -> g", "100 percent", "3 m * -2", "a / (b / c)", "1 USD", "grain", "3 hours + 5 min",
         "2^ln 2", "1 << exp 1", "now + ln 2 s", "asin 0.5 -> deg", "m^(1|2)", "8^(1|3)", "2^0.5", "sqrt(2) mod 3", "hypot(3, 4) -> digits 5",
         "#2016-07-04# - 5 years", "#2016-07-04# + 3 s -> \"UTC\"", "now + 1 hour -> +01:00", "1 kg -> digits 3", "7 mod 2.5", "3 << 2.0",
         "12 -> base 7", "1|7 -> digits 30 base 3", "water * 2", "density of water * 2 liter"]
MAGS = (["1e%d" % k for k in range(-30, 31)] + ["-1", "-1e30", "-1e-30", "0", "2147483647", "2147483648", "4294967295", "4294967296",
        "9223372036854775807", "9223372036854775808", "18446744073709551615", "18446744073709551616", "1|2147483648",
        "1|4294967296", "1|99999999999999999999", "0.1", "1.5", "2|3", "1e-5000", "1e400"])


def mutate(rng, q):
    r = rng.random()
    i = rng.randrange(len(q))
    if r < 0.25:
        return q[:i] + q[i + 1:]
    if r < 0.5:
        return q[:i] + q[i] + q[i:]
    if r < 0.7 and len(q) > 1:
        j = rng.randrange(len(q))
        l = list(q)
        l[i], l[j] = l[j], l[i]
        return "".join(l)
    return q[:i] + rng.choice(list("()+-*/|^=,;:#'\"\\%<>._ e0x9°→−∕") + [" ", "é", "\U0001F600", "\u0000", "\n", "\t"]) + q[i:]


def rand_unicode(rng):
    n = rng.randint(1, 40)
    pools = [(32, 126), (160, 255), (0x370, 0x3ff), (0x2000, 0x206f), (0x2190, 0x21ff), (0x4e00, 0x4e80), (0x1F600, 0x1F640), (1, 31)]
    out = []
    for _ in range(n):
        lo, hi = rng.choice(pools)
        c = rng.randint(lo, hi)
        if 0xD800 <= c <= 0xDFFF:
            c = 65
        out.append(chr(c))
    return "".join(out)


INTS = ["0", "1", "12", "99", "999999", "2147483647", "2147483648", "-2147483647", "-2147483648", "4294967296", "9223372036854775807",
        "9223372036854775808", "99999999999999999999"]


def boundary_cases(rng, thorough):
    """Inputs aimed at the arithmetic on machine integers and at the search loops: every numeric field of every date pattern at
    the i32/i64 boundaries, durations at the limits of the date arithmetic (exact and float-valued), powers of powers of units,
    non-integer / negative / zero powers in conversion targets, factorize on moderately complex dimensionalities, and nesting
    chains up to the 500 characters of the property."""
    out = []
    for v in INTS:
        a = v.lstrip("-")
        out += ["#%s-01-01#" % v, "#2020-%s-01#" % a, "#2020-01-%s#" % a, "#2020-01-01 %s:00#" % a, "#2020-01-01 00:%s#" % a,
                "#2020-01-01 00:00:%s#" % a, "#2020-01-01 00:00 +%s:00#" % a, "#2020-01-01 00:00 -%s:00#" % a, "#2020-01-01 00:00 +%s#" % a,
                "#2020-01-01 00:00 +00:%s#" % a, "#2020-01-01T00:00:00 -%s:%s#" % (a, a), "#%s jan 1 bc#" % v, "#%s jan 1 ad#" % v,
                "#jan %s, 2020#" % a, "#jan 1, %s bce#" % v, "#%s-W%s#" % (a, a), "#2020-%s#" % a, "#--%s-%s#" % (a, a), "#%s:%s:%s am#" % (a, a, a),
                "#%s:00 pm +%s:00#" % (a, a), "#00:00 +%s:%s#" % (a, a), "#2020-01-01 00:00:00.%s#" % a, "#mon jan %s 00:00 %s#" % (a, a),
                "#%s january %s 1:00 am bc#" % (v, a), "#2020-01-01# + %s s" % v, "#2020-01-01# - %s days" % a, "now + %s years" % v,
                "#%s-01-01# -> \"UTC\"" % v, "#2020-01-01 00:00 +%s:00# -> +%s:00" % (a, a), "now -> +%s:00" % a, "now -> -%s:%s" % (a, a)]
    for x in ["9223372036854775", "9223372036854776", "9223372036854775.807", "9223372036854775.808", "9223372036854775807", "1e15", "1e16",
              "1e18", "1e19", "1e300", "292277026596", "0.000000001", "1e-30"]:
        for sign in "+-":
            out += ["now %s %s s" % (sign, x), "now %s hypot(%s, 0) s" % (sign, x), "#2020-01-01# %s %s s" % (sign, x),
                    "#2020-01-01# %s hypot(%s, 0) ms" % (sign, x), "#2020-01-01# %s sqrt(%s^2) s" % (sign, x), "now %s %s years" % (sign, x),
                    "now %s exp(%s) s" % (sign, x[:4]), "#2020-01-01# %s (0 - hypot(%s, 0)) s" % (sign, x)]
        out += ["%s s -> year;day;hour;min;s" % x, "hypot(%s, 0) s" % x, "hypot(%s, 0) s -> hour;s" % x]
    bases = ["0", "(-8)", "4", "(1|4)", "2", "(-1)", "m", "(m^2)", "(2 m)", "(0 m)", "(m/s)"]
    exps = ["0.5", "-0.5", "1.5", "-1.5", "0.3", "(2|3)", "0", "-1", "(1|2)", "(-1|2)", "2", "(1|3)", "1e9", "-2147483647", "sqrt(4)", "ln(2)"]
    for b in bases:
        for e in exps:
            t = "%s^%s" % (b, e)
            out += ["1 -> %s" % t, "1 m -> %s m" % t, "1 -> 1/(%s - 2)" % t, "1 -> 1/(%s - 1)" % t, "9 m^2 -> %s" % t, "1 kg -> %s g" % t,
                    "1 -> %s %s" % (t, t), "3 m -> 2 ft + %s m" % t, "1 -> (%s)^%s" % (t, e)]
    units = ["m", "s", "kg", "'q'", "(m/s)", "A"]
    for u in units:
        for k in ["1000000", "2147483647", "65536", "46341", "-2147483647", "3037000500"]:
            out += ["((%s^%s)^%s)^%s" % (u, k, k, k), "(((%s^%s)^%s)^%s)^%s" % (u, k, k, k, k), "%s^%s * %s^%s" % (u, k, u, k), "(%s^%s %s)^2" % (u, k, u),
                    "1/(%s^%s %s)" % (u, k, u), "sqrt(%s^%s)" % (u, k), "(%s^%s)^(1|2)" % (u, k), "%s^%s + 1" % (u, k), "%s^%s -> %s" % (u, k, u),
                    "%s^%s %s^%s / %s^%s" % (u, k, u, k, u, k), "(%s^%s)^-1 %s^%s" % (u, k, u, k), "factorize %s^%s" % (u, k), "units for %s^%s" % (u, k),
                    "1 -> %s^%s" % (u, k), "hypot(%s^%s, %s^%s)" % (u, k, u, k), "(%s^%s) mod (%s^%s)" % (u, k, u, k)]
    # exact results of tens of thousands of digits (class expensive: they may be stopped, but must not abort)
    out += ["mile^10000", "1/mile^10000", "(355|113)^20000", "furlong^8000", "mile^10000 -> m^10000", "inch^30000", "(1|3937)^9000 -> digits 20"]
    # factorize: moderately complex dimensionalities (complexity score 8..16); exponential search shows from about 12
    named = ["J^2", "J^3", "(m/s)^5", "ohm", "ohm^2", "kg m^2 / s^3 A^2", "W N", "farad henry", "tesla^2", "m^6 / s^6", "kg^2 m^2 / s^5 K", "gray sievert / s"]
    out += ["factorize " + n for n in named]
    for _ in range(60 if thorough else 25):
        dims = rng.sample(["kg", "m", "s", "A", "K"], rng.randint(2, 4))
        budget = rng.randint(8, 14) - len(dims)
        ex = {d: 1 for d in dims}
        for _ in range(max(0, budget - len(dims))):
            ex[rng.choice(dims)] += 1
        out.append("factorize " + " ".join("%s^%d" % (d, ex[d] * rng.choice([1, -1])) for d in dims))
    # nesting chains up to the 500 characters of the property
    for n in (120, 240, 499):
        out += ["-" * (n - 1) + "1", "(" * (n // 2) + "1" + ")" * (n // 2), "sqrt(" * (n // 5) + "4" + ")" * (n // 5), "1" + "^2" * (n // 2),
                "2^" * (n // 2) + "1", "1" + "/(1+1" * (n // 6) + ")" * (n // 6), "+-" * (n // 2) + "m", "1" + " per 1" * (n // 6), "1" + "|2" * (n // 2),
                "a" + " of a" * (n // 5), "1" + " -> m" * (n // 5), "degC " * (n // 5) + "1", "1" + " mod 2" * (n // 6), "m" + " m" * (n // 2),
                "1" + ";1" * (n // 2), "1 -> " + "m;" * (n // 3) + "m", "x = " * (n // 4) + "1", "'" * n, "#" * n, "\\" * n, "1e" * (n // 2),
                "0x" + "F" * (n - 2), "1" * n, "1." + "1" * (n - 2), "1e-" + "9" * 20, "." * n, "H" + "2O" * (n // 2), "C" * n, "[" * n, "{" * n]
    # conversion targets whose constant is a float that is infinite, undefined or zero
    for fl in ["2^0.5", "4^0.3", "(-8)^(1|3)"]:
        for tail in ["* 1e400", "/ 1e-400", "* 0", "* 1e400 * 0", "- %s" % fl, "* 1e400 - %s * 1e400" % fl]:
            t = "%s %s" % (fl, tail)
            out += ["1 -> %s" % t, "1 m -> %s m" % t, "1 -> 5 mod (%s)" % t, "1 kg water -> %s liter" % t, "1 -> 1/(%s)" % t, "1 -> (%s) ft/ft" % t,
                    "3 -> 2 + %s" % t, "1 -> (%s)^2" % t]
    # arithmetic between substances (amounts of equal, different and no dimensionality; formulas)
    subs = ["water", "sodium", "(1 m sodium)", "(1 s potassium)", "(2 kg gold)", "(2 sodium)", "H2O", "NaCl", "(3 mol water)", "(0 water)"]
    for a in subs:
        for b in subs:
            for op in ["+", "-", "*", "/", "mod", "^", "and", "<<", ""]:
                out.append("%s %s %s" % (a, op, b))
        out += ["-%s" % a, "sqrt(%s)" % a, "%s -> %s" % (a, subs[(subs.index(a) + 3) % len(subs)]), "mass of (%s + %s)" % (a, a), "%s + 1" % a, "1 m + %s" % a,
                "%s ^ 2" % a, "2 ^ %s" % a, "hypot(%s, %s)" % (a, a), "%s -> kg;g" % a, "now + %s" % a]
    # display suffixes of a conversion with every boundary argument, in the long and the fused spelling
    for n in ["0", "1", "2", "36", "37", "40", "64", "99", "200", "255", "256", "65536", "-1", "99999999999", "4294967298"]:
        out += ["255 -> base%s" % n, "255 -> base %s" % n, "1|3 -> digits %s" % n, "1|3 -> digits base%s" % n, "1|3 -> digits %s base %s" % (n, n),
                "1e100 -> sci base%s" % n, "1e100 -> sci base %s" % n, "1 -> eng base%s" % n, "1|7 -> frac base %s" % n, "1|7 -> fraction base%s" % n,
                "255 -> hex%s" % n, "255 -> oct%s" % n, "255 -> bin%s" % n, "1 -> digits%s" % n, "255 to base%s" % n, "255 in base %s" % n,
                "1|3 -> digits %s m" % n, "1|3 m -> digits %s base %s ft" % (n, n), "now -> base%s" % n, "water -> base %s" % n]
    # Unicode characters that are "numeric" or "digits" for some of the standard predicates, in every numeric position
    for x in ["\u00b2", "\u00bd", "\uff11", "\u0663", "\u09e9", "\u2167", "\u2460", "\U0001d7d9", "\u2075", "\u2085", "\u0e53", "\u3007", "\u00b9\u00b2"]:
        out += ["#2020-01-01 10:00 +1%s1#" % x, "#2020-01-01 10:00 +%s1:00#" % x, "#2020-01-01 10:00 +0%s0#" % x, "#20%s0-01-01#" % x, "#2020-%s1-01#" % x,
                "#1%s:00#" % x, "#jan %s, 2020#" % x, "#10:00 +%s%s%s%s#" % (x, x, x, x), "#2020-01-01 10:00:0%s.%s#" % (x, x), "1%s" % x, x, "1.%s" % x, "1e%s" % x,
                "0x%s" % x, "1|%s" % x, "m^%s" % x, "%s m" % x, "1 -> digits %s" % x, "1 -> base %s" % x, "1 -> base%s" % x, "now -> +0%s:30" % x,
                "H%sO" % x, "C%sH%s" % (x, x), "%s%s" % (x, x), "1 << %s" % x, "\\u%s" % x, "'%s'" % x, "%sm" % x, "1_%s" % x]
    return list(dict.fromkeys(q for q in out if len(q) <= 500))



def decide(run, texts, leg, shards, timeout_ms, ctx="bundled", extra=None, ans=False):
    """extra: per-input job fields (a clock setting, clear_ans); ans: the context remembers the previous answer (histories)"""
    import time
    t0 = time.time()
    jobs = [dict({"qs": t, "render": True}, **(extra[i] if extra else {})) for i, t in enumerate(texts)]
    res = evalkit.run_eval(jobs, ctx=ctx, timeout_ms=timeout_ms, shards=shards, tag="c04" + leg, ans=ans)
    events = []
    for r, t in zip(res, texts):
        if "crash" in r:
            why = "oom" if "memory allocation" in (r.get("stderr") or "") else ("stack" if "overflow" in (r.get("stderr") or "") else "other")
            events.append({"q": r["q"], "obs": {"t": "crash", "c": r["crash"], "why": why}, "rendered": False})
        else:
            rd = r.get("render") or {}
            events.append({"q": r["q"], "obs": {"t": r["obs"]["t"]}, "rendered": bool(rd.get("json_ok")) and "spans" in rd})
    t1 = time.time()
    verdicts, st = evalkit.judge(events, "Trace_Pipeline", shards=shards, tag="c04j" + leg, min_per_shard=2000)
    run.cov["states"] += st["distinct"]
    run.cov["transitions"] += st["generated"]
    run.traces(len(events))
    nrej = nstop = 0
    retry = []
    for i, ev in enumerate(events):
        run.count()
        v = verdicts.get(i, set())
        kind = ev["obs"]["t"]
        run.nontrivial((kind, texts[i]) if kind in ("crash", "err") or len(texts[i]) > 3 else kind + texts[i])
        if "NOTE" in v:
            nstop += 1
        if "REJECT" in v:
            if ev["obs"].get("c") == "timeout":
                retry.append(i)     # a time limit is only believed after a run alone
            else:
                nrej += 1
                run.violation({"engine": "pipeline", "leg": leg, "q": texts[i], "crash": ev["obs"].get("c"), "why": ev["obs"].get("why"),
                               "msg": res[i].get("msg")},
                              "a reply or an error value, rendered as text, spans and JSON", {k: res[i].get(k) for k in ("crash", "msg", "signal", "stderr", "render")}, "pipeline")
    for i in retry:
        r2 = evalkit.run_eval([{"qs": texts[i], "render": True}], ctx=ctx, timeout_ms=3 * timeout_ms, shards=1, tag="c04retry")[0]
        if "crash" in r2:
            nrej += 1
            run.violation({"engine": "pipeline", "leg": leg, "q": texts[i], "crash": r2.get("crash"), "why": "alone", "msg": r2.get("msg")},
                          "a cheap input finishes (it did not within %d ms alone on the machine)" % (3 * timeout_ms), r2, "pipeline")
        else:
            run.note("slow_but_finished_alone", {"q": texts[i], "ms": r2.get("ms")})
    log("[C04] leg %s: %d inputs, %d expensive stopped, %d rejected, %d retried alone, eval %.1fs judge %.1fs" % (
        leg, len(texts), nstop, nrej, len(retry), t1 - t0, time.time() - t1))


def run(tier, seed):
    run = vlib.Run(PROP, tier, seed, "exploration")
    thorough = tier == "thorough"
    run.cov["rule"] = ("token soup enumerated by TLC (every sequence of <= 2 lexemes over ~100 lexemes, <= 3 over a 46-lexeme core; thorough: "
                       "<= 3 over all, <= 4 over a 22-lexeme core), seeded mutations of 40 valid queries (delete / duplicate / swap / insert a "
                       "character incl. non-ASCII), random Unicode strings, and a boundary family (every numeric field of every date pattern at the i32/i64 limits, "
                       "durations at the limits of date arithmetic incl. float-valued ones, powers of powers of units, non-integer / negative / zero "
                       "powers in conversion targets, factorize of dimensionalities of complexity 8..16, nesting chains up to 500 characters); each input lexed, parsed, evaluated and rendered three ways in an "
                       "isolated worker on a long-lived bundled context. non-trivial = distinct input (all are distinct); an input is expensive "
                       "iff Pipeline.tla's CostBits exceeds Theta = 60000 bits.")
    run.assumptions += ["per-input watchdog 30 s (quick 10 s) in a release-profile build with overflow checks; a timeout of a cheap input is re-run alone with 3x the limit before it is believed",
                        "address-space limit 4 GiB: allocation failure of an expensive input counts as 'stopped'",
                        "inputs outside the specification's alphabet cannot be classed cheap/expensive: a timeout there is counted UNSUPPORTED, a panic or abort is still a violation"]
    vlib.build_harness()
    r = vlib.tlc("MC_Pipeline", "MC_Pipeline", workers=2, timeout=300, tag="c04d")
    vlib.require_ok(r, "MC_Pipeline")
    run.add_tlc(r, "MC_Pipeline")
    rng = random.Random(seed)
    shards = 14 if thorough else 10
    tmo = 30000 if thorough else 10000
    allx = CORE + EXTRA
    t1, r1 = evalkit.gen_cases("c04s2", "soup", lits=allx, maxbin=3 if thorough else 2)
    run.add_tlc(r1, "MC_ExprGen soup all")
    core = CORE[:]
    rng.shuffle(core)
    t2, r2 = evalkit.gen_cases("c04s3", "soup", lits=(core[:22] if thorough else core[:30]), maxbin=4 if thorough else 3)
    run.add_tlc(r2, "MC_ExprGen soup core")
    exp = [e for e in EXPENSIVE] + [a + " " + e for e in EXPENSIVE for a in core[:8]] + [e + " " + a for e in EXPENSIVE for a in core[:8]]
    soup = list(dict.fromkeys(t1 + t2 + exp))
    decide(run, soup, "soup", shards, tmo)
    run.sample({"leg": "soup", "input": soup[len(soup) // 3]})
    muts = []
    for _ in range(40000 if thorough else 4000):
        q = rng.choice(VALID)
        for _ in range(rng.randint(1, 3)):
            q = mutate(rng, q) or "1"
        muts.append(q)
    muts += VALID
    decide(run, muts, "mutation", shards, tmo)
    run.sample({"leg": "mutation", "input": muts[0]})
    # magnitude sweep: every numeric literal of every valid query replaced by every boundary magnitude
    import re
    sweep = []
    for q in VALID:
        for m in re.finditer(r"(?<![#\w:.\-+|])\d+(\.\d+)?(?![\w:#|.])", q):
            if "#" in q[:m.start()] and q[:m.start()].count("#") % 2 == 1:
                continue        # inside a date literal
            for mag in MAGS:
                sweep.append(q[:m.start()] + "(" + mag + ")" + q[m.end():] if mag.startswith("-") or "|" in mag else q[:m.start()] + mag + q[m.end():])
    sweep = list(dict.fromkeys(sweep))
    if not thorough:
        rng.shuffle(sweep)
        sweep = sweep[:2500]
    decide(run, sweep, "magnitude", shards, tmo)
    run.sample({"leg": "magnitude", "input": sweep[0]})
    bnd = boundary_cases(rng, thorough)
    decide(run, bnd, "boundary", shards, tmo)
    run.sample({"leg": "boundary", "input": bnd[len(bnd) // 2]})
    # the same library serves databases other than the bundled one: every template, every scale spelling and the display
    # suffixes on a context with NO definitions at all (every name unknown, no kelvin, no zero points) must still answer
    scales = ["degC", "°C", "celsius", "degF", "°F", "degRe", "degRo", "degDe", "degN", "K", "kelvin", "℃", "℉"]
    foreign = VALID + ["25 -> %s" % sc for sc in scales] + ["25 %s" % sc for sc in scales] + ["25 %s -> %s" % (a, b) for a in scales[:4] for b in scales[:4]] + \
        ["1 -> hex", "1|3 -> digits 5", "now", "units for m", "factorize m", "search m", "ans", "1 m", "m", "'a' 'b' -> 'a'", "3 'a' -> 'b';'a'"]
    decide(run, list(dict.fromkeys(foreign)), "foreign-context", 2, tmo, ctx="empty")
    run.sample({"leg": "foreign-context", "input": "25 -> degC"})
    # histories: what an earlier answer (zero, NaN, infinite, a unit to an enormous power) does in every position of the next query
    hist, hextra = [], []

    def seq(*qs):
        for k, q in enumerate(qs):
            hist.append(q)
            hextra.append({"clear_ans": True} if k == 0 else {})
    for first in ["0", "0 m", "0 s", "ln(-1)", "exp(1000)", "0 - exp(1000)", "-1 m", "1e-400", "1|3"]:
        seq(first, "5 m -> ft, ans", "1 -> ans", "1 m -> ans", "1 m -> ans;ft", "1 hour -> hour;ans", "5 -> 1;ans", "1 mod ans", "1 / ans", "2 ^ (1/ans)",
            "1 << ans", "ans ^ ans", "now + ans s", "#2020-01-01# - ans", "ans -> digits 5", "units for ans", "factorize ans", "1 -> ans ft", "hypot(ans, ans)",
            "3 m -> 2 ans", "ans mod ans", "sqrt(ans)", "ans degC", "1 -> ans^0.5")
    for u in ["m", "'q'", "(m/s)", "kg"]:
        for k in ["2147483647", "-2147483647", "1000000000"]:
            seq(*(["%s^%s" % (u, k)] + ["ans ans"] * 36 + ["1/ans", "ans^2", "sqrt(ans)", "ans -> m", "ans / ans", "ans + 1", "units for ans", "factorize ans", "ans"]))
    decide(run, hist, "history", 1, tmo, extra=hextra, ans=True)
    run.sample({"leg": "history", "input": ["0 m", "5 m -> ft, ans"]})
    # time-of-day literals in named zones on the days those zones change their offset (the context clock set to that day)
    dst, dextra = [], []
    for zone, days in [("Pacific/Auckland", [(2026, 9, 26), (2026, 4, 4)]), ("America/New_York", [(2026, 3, 8), (2026, 11, 1)]),
                       ("Europe/London", [(2026, 3, 29), (2026, 10, 25)]), ("Australia/Lord_Howe", [(2026, 10, 3), (2026, 4, 4)])]:
        for (y, mo, d) in days:
            for hh in range(0, 4):
                for mm in (0, 30):
                    for form in ("#%02d:%02d %s#", "#%02d:%02d:30 %s#", "now - #%02d:%02d %s#"):
                        dst.append(form % (hh, mm, zone))
                        dextra.append({"clock": [y, mo, d, 14, 0, 0]})
    decide(run, dst, "dst-days", 2, tmo, extra=dextra)
    run.sample({"leg": "dst-days", "input": dst[5], "clock": dextra[5]["clock"]})
    uni = [rand_unicode(rng) for _ in range(20000 if thorough else 2000)]
    decide(run, uni, "unicode", shards, tmo)
    run.sample({"leg": "unicode", "input": uni[0]})
    # the binding is not vacuous: a recorded panic must be rejected
    ev = [{"q": [49], "obs": {"t": "crash", "c": "panic", "why": "other"}, "rendered": False}]
    verdicts, _ = evalkit.judge(ev, "Trace_Pipeline", shards=1, tag="c04self")
    if "REJECT" not in verdicts.get(0, set()):
        raise vlib.ToolError("self-check: a recorded panic was accepted by Trace_Pipeline")
    run.note("selfcheck_panic_rejected", True)
    return run.finish()


def replay(path, seed):
    body = json.load(open(path))
    q = body["case"]["q"]
    vlib.build_harness()
    run = vlib.Run(PROP, "quick", seed, "exploration")
    decide(run, [q], "replay", 1, 30000)
    return 1 if run.violations else 0
