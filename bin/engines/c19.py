"""C19 - sandbox allocator: accounting, limit, clean refusal, peak.

Legs (DESIGN.md section 4, C19):
  D  design: TLC on Alloc.tla (per-atomic-step model, 2 and 3 threads), invariants
     Accounting / WithinLimit / PeakOK, action property RefusalClean, refinement of AllocAbs
  G  TLC enumerates every single-thread operation sequence (MC_Alloc_gen*), the real
     Alloc is driven through each, results / usage / peak compared with the model
  S  TLC-generated interleavings of 2-3 threads replayed step by step through the
     guarded schedule points of alloc.rs (feature verif-hooks)
  V  free-running multi-thread stress, every epoch validated by Trace_AllocAbs.tla
     (TLC searches for a linearization admissible in the abstract object)
"""
import json
import os
import subprocess

import vlib
from vlib import log

PROP = "C19"


def compare_cases(run, cases, obs, scale, divergent):
    for case, o in zip(cases, obs):
        run.count()
        model_ok = [op["ok"] for op in case["ops"]]
        kinds = tuple(op["op"] for op in case["ops"])
        if any(not x for x in model_ok) or "realloc" in kinds:
            run.nontrivial((kinds, tuple(model_ok), tuple(op["size"] for op in case["ops"])))
        c = {"engine": "alloc-replay", "scale": scale, "limit": case["limit"], "ops": case["ops"],
             "observed": o}
        if "panic" in o:
            run.violation(dict(c, kind="panic"), "no panic inside the allocator (its counters wrapped)", o, "alloc-replay")
            continue
        if not o["intact"]:
            run.violation(dict(c, kind="block-corrupted"), "blocks keep their contents across refused/successful realloc",
                          o, "alloc-replay")
            continue
        if o["obs"] != model_ok:
            divergent.append((case, o, scale))
            continue
        if o["usage"] != case["usage"] * scale:
            run.violation(dict(c, kind="usage"), {"usage": case["usage"] * scale}, o, "alloc-replay")
        elif o["peak"] < case["peak_min"] * scale:
            run.violation(dict(c, kind="peak"), {"peak_min": case["peak_min"] * scale}, o, "alloc-replay")
        elif o["after_free"] != 0:
            run.violation(dict(c, kind="usage-after-free"), {"usage": 0}, o, "alloc-replay")
        elif o["peak"] != case["max"] * scale:
            run.drift_note("Alloc", "peak %d differs from the transcription's max %d (still >= peak_min)" % (o["peak"], case["max"] * scale))


def divergent_to_trace(divergent):
    ev = []
    for case, o, scale in divergent:
        ops = []
        for op, ok in zip(case["ops"], o["obs"]):
            ops.append({"thr": 0, "op": op["op"], "blk": op["blk"], "size": op["size"] * scale, "ok": ok})
        ev.append({"ev": "epoch", "n": len(ev), "threads": 1, "limit": case["limit"] * scale, "ops": ops,
                   "peak": o["peak"], "usage": o["usage"]})
        ev.append({"ev": "end", "usage": o["after_free"], "limit": case["limit"] * scale})
    return ev


_NOT_JUDGED = []


def validate_events(run, events, label, engine):
    """Validate an event list with Trace_AllocAbs; every rejection is a violation. Returns #rejections."""
    rej = 0
    start = 0
    while start < len(events) and rej < 5:
        chunk = events[start:]
        # all events of one trace must share the limit of the first line
        lim = chunk[0]["limit"]
        n = 0
        while n < len(chunk) and chunk[n]["limit"] == lim:
            n += 1
        chunk = chunk[:n]
        path = vlib.workfile("c19-%s-%d.ndjson" % (label, start))
        vlib.write_ndjson(path, chunk)
        try:
            ok, info = vlib.validate_trace("Trace_AllocAbs", "Trace_AllocAbs", path, timeout=1200, tag="c19v")
        except vlib.ToolError as e:
            if "timed out" not in str(e) or engine != "alloc-stress":
                raise
            # the linearization search of a free-running trace can take long on a loaded machine: such a trace is not judged
            # (and said so in the evidence), the other stress traces and the two replay legs still are
            run.note("stress_trace_not_judged_timeout_%s" % label, len(chunk))
            _NOT_JUDGED.append(label)
            log("[C19] stress trace %s: validation timed out, not judged" % label)
            return rej
        run.cov["states"] += info["distinct"]
        run.cov["transitions"] += info["generated"]
        if ok:
            run.traces(sum(1 for e in chunk if e["ev"] == "epoch"))
            start += n
            continue
        idx = int(info["reject"].split(",")[0])
        bad = chunk[idx - 1]
        run.traces(sum(1 for e in chunk[:idx - 1] if e["ev"] == "epoch"))
        run.violation({"engine": engine, "event": bad, "kind": "trace-rejected"},
                      "a linearization of the epoch admissible in AllocAbs (usage = live total, peak >= largest usage)",
                      {"usage": bad.get("usage"), "peak": bad.get("peak")}, engine)
        rej += 1
        # skip to the event after the next 'end' (fresh state) if any, else stop
        nxt = None
        for j in range(idx, len(chunk)):
            if chunk[j]["ev"] == "end":
                nxt = j + 1
                break
        if nxt is None:
            break
        start += nxt
    return rej


def apalache_inductive(run):
    """Unbounded number of operations (3 threads, 3 blocks, sizes {1,2,3,6}, limit 5): AllocInd.IndInv (which contains the
    accounting and limit clauses of C19) is an inductive invariant of the allocator's atomic steps - checked with Apalache:
    initiation, consecution from an arbitrary state satisfying it, and the refutation of a mutated model (RUndo gives back
    the old size) as the non-vacuity gate."""
    import shutil
    import subprocess
    import time
    out = vlib.workfile("apalache")
    shutil.rmtree(out, ignore_errors=True)
    os.makedirs(out)

    def apa(module_path, init, length, expect_ok):
        t0 = time.time()
        cmd = ["apalache-mc", "check", "--cinit=ConstInit", "--init=" + init, "--inv=IndInv", "--length=%d" % length,
               "--out-dir=" + os.path.join(out, "out"), module_path]
        try:
            p = subprocess.run(cmd, cwd=os.path.dirname(module_path), stdout=subprocess.PIPE, stderr=subprocess.STDOUT, text=True,
                               timeout=1800, env=vlib.child_env())
        except subprocess.TimeoutExpired:
            raise vlib.ToolError("apalache-mc timed out on %s" % os.path.basename(module_path))
        ok = "The outcome is: NoError" in p.stdout
        bad = "The outcome is: Error" in p.stdout and "violated" in p.stdout
        if not ok and not bad:
            log(p.stdout[-3000:])
            raise vlib.ToolError("apalache-mc failed on %s (%s)" % (os.path.basename(module_path), init))
        if ok != expect_ok:
            log(p.stdout[-3000:])
            raise vlib.ToolError(("design: AllocInd.IndInv is not inductive (%s, length %d)" % (init, length)) if expect_ok else
                                 "sanity: the mutated allocator model was NOT refuted by the inductive check")
        return time.time() - t0

    spec = os.path.join(vlib.SPEC, "AllocInd.tla")
    t1 = apa(spec, "Init", 0, True)
    t2 = apa(spec, "IndInit", 1, True)
    text = open(spec).read().replace("MODULE AllocInd ", "MODULE AllocIndMut ")
    head, tail = text.split("RUndo(t) ==", 1)
    tail = tail.replace("used' = used - loc[t].size", "used' = used - loc[t].old", 1)
    mut = os.path.join(out, "AllocIndMut.tla")
    open(mut, "w").write(head + "RUndo(t) ==" + tail)
    t3 = apa(mut, "IndInit", 1, False)
    run.note("apalache_inductive_invariant", {"module": "AllocInd.tla", "constants": "Threads={1,2,3} Blocks={1,2,3} Sizes={1,2,3,6} Limit=5",
             "initiation_s": round(t1, 1), "consecution_s": round(t2, 1), "mutant_refuted_s": round(t3, 1),
             "meaning": "Accounting and WithinLimit hold after any number of operations (TLC bounds MaxOps)"})
    shutil.rmtree(out, ignore_errors=True)


def run(tier, seed):
    run = vlib.Run(PROP, tier, seed, "model_checking")
    run.cov["rule"] = ("G: every single-thread operation sequence of the TLC model up to MaxOps over "
                       "{alloc, alloc_zeroed, realloc, dealloc, reset_max} x sizes {1, L/2, L, L+1} (L=8, scaled x1 and x512 bytes); "
                       "non-trivial = contains a refusal or a realloc, distinct by (ops, sizes, results). "
                       "S: TLC-simulated 2-3 thread interleavings replayed through schedule points. "
                       "V: free-running stress epochs linearized by TLC against AllocAbs.")
    run.assumptions += [
        "sequentially consistent interleaving of the atomic RMW steps (DESIGN.md section 5)",
        "the system allocator does not fail for the sizes used (parent failure is explored in the model only)",
        "harness trusted for: calling the GlobalAlloc methods, remembering pointers, filling/verifying block contents",
    ]
    vlib.build_harness()
    thorough = tier == "thorough"

    # ---- D: design check
    for cfg, to in ([("MC_Alloc_mtq", 300)] if not thorough else [("MC_Alloc_mt", 900), ("MC_Alloc_mt3", 2400)]):
        r = vlib.tlc("MC_Alloc", cfg, workers=8 if thorough else 6, timeout=to, coverage=False, tag="c19d", xmx="12g")
        if r.invariant_violated or (not r.ok and not getattr(r, "timed_out", False) and "violated" in (r.error_text or "")):
            # a design-level counterexample in the transcription of the *repaired* code: tool problem, not a verdict on the code
            log(r.stdout[-3000:])
            raise vlib.ToolError("design model %s violates %s" % (cfg, r.invariant_violated))
        vlib.require_ok(r, cfg)
        run.add_tlc(r, cfg)
    # the pre-fix transcription must violate PeakOK (the model can see the defect: non-vacuity)
    r = vlib.tlc("MC_Alloc", "MC_Alloc_unfixed", workers=2, timeout=120, tag="c19u")
    if r.invariant_violated != "PeakOK":
        raise vlib.ToolError("sanity: the unrepaired realloc model should violate PeakOK")
    run.note("sanity_unfixed_model", "PeakOK violated as expected (%d states)" % r.distinct)

    if thorough:
        apalache_inductive(run)

    # ---- G: every sequential sequence
    cfg = "MC_Alloc_gen5" if thorough else "MC_Alloc_gen"
    r = vlib.tlc("MC_Alloc", cfg, workers=1, timeout=3000, tag="c19g", xmx="12g")  # 1 worker: printed lines must not interleave
    vlib.require_ok(r, cfg)
    run.add_tlc(r, cfg)
    # vacuity gate on a smaller instance of the same generator (coverage mode is slow)
    rc = vlib.tlc("MC_Alloc", "MC_Alloc_gen3", workers=1, timeout=600, coverage=True, tag="c19gc")
    vlib.require_ok(rc, "MC_Alloc_gen3")
    never = [a for a, (d, t) in rc.coverage.items() if t == 0 and a not in ("AParentFail", "RParentFail")]
    if never or not rc.coverage:
        raise vlib.ToolError("vacuity gate: actions never taken in MC_Alloc_gen3: %s" % never)
    cases = vlib.tagged_json(r, "REPLAY")
    if not cases:
        raise vlib.ToolError("generator printed no cases")
    path = vlib.workfile("c19-cases.ndjson")
    vlib.write_ndjson(path, cases)
    divergent = []
    for scale in (1, 512):
        p = vlib.run_tool([vlib.rv("rv-alloc"), "replay", path, str(scale)], timeout=1800)
        obs = [json.loads(x) for x in p.stdout.splitlines() if x.strip()]
        if len(obs) != len(cases):
            raise vlib.ToolError("rv-alloc replay returned %d observations for %d cases" % (len(obs), len(cases)))
        compare_cases(run, cases, obs, scale, divergent)
    run.sample({"leg": "G", "case": cases[len(cases) // 2]})
    run.note("sequences_replayed", len(cases) * 2)
    if divergent:
        log("[C19] %d sequences diverged from the algorithm transcription; deciding them at property level" % len(divergent))
        run.drift_note("Alloc", "%d sequences: results differ from the per-step transcription" % len(divergent))
        ev = divergent_to_trace(divergent[:400])
        validate_events(run, ev, "div", "alloc-replay")

    # ---- S: scheduled interleavings (needs the verif-hooks feature)
    try:
        from engines import c19_sched
        c19_sched.run_sched(run, thorough, seed)
    except ImportError:
        pass

    # ---- V: free-running stress validated by TLC
    plans = [(1, 40, 6), (2, 30, 4), (4, 20, 3), (8, 10, 2)]
    if thorough:
        plans = [(1, 200, 8), (2, 150, 5), (3, 100, 4), (4, 60, 3), (8, 16, 2), (16, 8, 1)]
    nstress = 0
    traces = []
    for limit in (4096, 24):
        for i, (thr, epochs, ops) in enumerate(plans):
            p = vlib.run_tool([vlib.rv("rv-alloc"), "stress", str(thr), str(epochs), str(ops), str(limit)],
                              timeout=600, env={"VERIF_SEED": str(seed * 1000 + i)})
            ev = [json.loads(x) for x in p.stdout.splitlines() if x.strip()]
            run.count(len(ev))
            for e in ev:
                if e["ev"] == "epoch" and any(not o["ok"] for o in e["ops"]) and any(o["ok"] for o in e["ops"]):
                    run.nontrivial(("stress", thr, limit, e["n"], e["usage"], e["peak"]))
            if nstress == 0:
                run.sample({"leg": "V", "event": ev[1] if len(ev) > 1 else ev[0]})
            nstress += 1
            traces.append((ev, "st%d-%d" % (thr, limit)))
    # one TLC run per stress run (a joint trace makes every state carry every block of every run), in parallel
    import concurrent.futures as cf
    with cf.ThreadPoolExecutor(max_workers=8) as ex:
        list(ex.map(lambda t: validate_events(run, t[0], t[1], "alloc-stress"), traces))
    if len(_NOT_JUDGED) > len(traces) // 3:
        raise vlib.ToolError("stress leg: %d of %d traces could not be validated in time (machine too loaded?)" % (len(_NOT_JUDGED), len(traces)))

    # ---- binding is not vacuous: a corrupted trace must be rejected
    p = vlib.run_tool([vlib.rv("rv-alloc"), "stress", "2", "6", "3", "4096"], timeout=120, env={"VERIF_SEED": "7"})
    ev = [json.loads(x) for x in p.stdout.splitlines() if x.strip()]
    ev[3]["usage"] += 1
    path = vlib.workfile("c19-corrupt.ndjson")
    vlib.write_ndjson(path, ev)
    ok, info = vlib.validate_trace("Trace_AllocAbs", "Trace_AllocAbs", path, tag="c19c")
    if ok:
        raise vlib.ToolError("self-check: a corrupted allocator trace was accepted by Trace_AllocAbs")
    run.note("selfcheck_corrupted_trace_rejected", True)
    return run.finish()


def replay(path, seed):
    body = json.load(open(path))
    case = body["case"]
    run = vlib.Run(PROP, "quick", seed, "model_checking")
    vlib.build_harness()
    if case.get("engine") == "alloc-replay" and "ops" in case:
        c = {"limit": case["limit"], "ops": case["ops"]}
        p = vlib.workfile("c19-replay.ndjson")
        vlib.write_ndjson(p, [c])
        out = vlib.run_tool([vlib.rv("rv-alloc"), "replay", p, str(case.get("scale", 1))])
        log("observed now: " + out.stdout.strip())
        log("recorded    : " + json.dumps(case.get("observed")))
        return 0
    if "event" in case:
        p = vlib.workfile("c19-replay.ndjson")
        vlib.write_ndjson(p, [case["event"]])
        ok, info = vlib.validate_trace("Trace_AllocAbs", "Trace_AllocAbs", p)
        log("trace %s: %s" % ("accepted" if ok else "rejected", info))
        return 0 if ok else 1
    return 2
