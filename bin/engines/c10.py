"""C10 - temperature scales are exact, mutually inverse affine maps. The expected values come from the
textbook constants written in spec/Eval.tla (TextbookScale / TextbookZero), independent of
definitions.units; the code runs on the bundled database."""
import itertools
import json
import random

import evalkit
import vlib

PROP = "C10"
SPELL = {
    "celsius": ["degC", "°C", "celsius", "℃"],
    "fahrenheit": ["degF", "°F", "fahrenheit", "℉"],
    "reaumur": ["degRé", "°Ré", "degRe", "°Re", "réaumur", "reaumur"],
    "romer": ["degRø", "°Rø", "degRo", "°Ro", "rømer", "romer"],
    "delisle": ["degDe", "°De", "delisle"],
    "newton": ["degN", "°N", "degnewton"],
}
XS = ["0", "1", "-1", "-273.15", "-300", "1|3", "1e20", "12345.678901234567890123", "-40", "100", "37.5", "-459.67", "7.5", "33"]


def rand_x(rng):
    n = rng.getrandbits(rng.randint(1, 70))
    d = rng.getrandbits(rng.randint(1, 30)) + 1
    s = "-" if rng.random() < 0.4 else ""
    return rng.choice(["%s%d" % (s, n), "%s%d.%d" % (s, n, d), "%s%d|%d" % (s, n, d), "%s%de-%d" % (s, n, rng.randint(1, 25))])


def run(tier, seed):
    run = vlib.Run(PROP, tier, seed, "model_checking")
    thorough = tier == "thorough"
    run.cov["rule"] = ("x in 14 boundary values + seeded random rationals x 6 scales x every spelling (28) for `x <scale>`; all 36 ordered "
                       "scale pairs for `x <s1> -> <s2>` incl. the round trip `(x s) -> s`; chains of 3 conversions (intermediate values taken "
                       "from the observed replies as exact fractions); refusals (`3 m degC`, `-> degC m`, `-> m degC`, `-> 2 degC`, scale "
                       "operator on a dimensioned operand). non-trivial = distinct query the specification determines.")
    run.assumptions += ["the kelvin is the base unit named K of the bundled database"]
    vlib.build_harness()
    dump = evalkit.registry_dump("bundled")
    env = {"ENVFILE": evalkit.env_file(dump, "c10env"), "CLOSED": "0", "TEXTBOOK": "1"}
    rng = random.Random(seed)
    scales = sorted(SPELL)
    xs = XS + [rand_x(rng) for _ in range(60 if thorough else 10)]
    texts = []
    for x in xs:
        for sc in scales:
            for sp in (SPELL[sc] if thorough else rng.sample(SPELL[sc], 2)):
                texts.append("%s %s" % (x, sp))
                texts.append("(%s) %s" % (x, sp))
    for x in xs:
        for a, b in itertools.product(scales, repeat=2):
            sa, sb = rng.choice(SPELL[a]), rng.choice(SPELL[b])
            texts.append("%s %s -> %s" % (x, sa, sb))
    # from absolute temperatures
    for x in xs[:8]:
        for b in scales:
            texts.append("%s K -> %s" % (x, rng.choice(SPELL[b])))
            texts.append("%s degR -> %s" % (x, rng.choice(SPELL[b])))
    # refusals
    for sc in scales:
        sp = SPELL[sc][0]
        texts += ["3 m %s" % sp, "3 s %s" % sp, "12 degC -> %s m" % sp, "12 degC -> m %s" % sp, "12 degC -> 2 %s" % sp,
                  "1 m -> %s" % sp, "1 kg %s -> K" % sp, "(2 K) %s" % sp, "300 K -> %s meter" % sp, "5 %s -> %s hex" % (sp, sp)]
    # an operand that already carries a dimension is refused for EVERY ordered pair of scales (36 pairs x 4 operand shapes)
    for a in scales:
        for b in scales:
            sa, sb = rng.choice(SPELL[a]), rng.choice(SPELL[b])
            texts += ["5 m %s -> %s" % (sa, sb), "(2 K) %s -> %s" % (sa, sb), "1|3 kg/s %s -> %s" % (sa, sb), "-7 radian %s -> %s" % (sa, sb)]
    # a scale operator ANYWHERE inside a compound target (the specification refuses all of them: Query.HasDegree)
    for sc in scales:
        sp = rng.choice(SPELL[sc])
        texts += ["300 K -> x = 2 %s" % sp, "300 K -> x = %s" % sp, "300 K -> 3 (2 %s)" % sp, "300 K -> (2 %s)" % sp, "300 K -> -(2 %s)" % sp,
                  "300 K -> K / (1 %s)" % sp, "300 K -> (5 %s)^2" % sp, "300 K -> y = x = 1 %s" % sp, "300 K -> x = 3 K + 2 %s" % sp,
                  "300 K -> 2 K %s" % sp, "300 K -> x = -(7 %s)" % sp, "300 K^2 -> (1 %s) (1 %s)" % (sp, sp), "1 -> (2 %s) / (3 %s)" % (sp, sp)]
    # compound targets that START with a scale: TLC enumerates every tail of <= 2 lexemes; all must be refused
    tails = ["/ s", "* meter", "^2", "(meter)", "degC", "+ 1 K", "%", "m", "2", "- 3", "| 2", ", m", "; m", "= 3", "mod 2", "<< 1",
             "->", "hex", "'a'", ")", "(", "°F", "K", "per s", "1e3", "of", "//c", "/*c*/", "+05:30"]
    tt, rt = evalkit.gen_cases("c10tail", "soup", lits=tails, maxbin=2 if thorough else 1)
    run.add_tlc(rt, "MC_ExprGen soup (tails after a scale target)")
    if not thorough:
        tt = tt + [a + " " + b for a in rng.sample(tails, 8) for b in rng.sample(tails, 8)]
    for tail in tt:
        for sc in (scales if thorough else rng.sample(scales, 2)):
            texts.append("12 degC -> %s %s" % (rng.choice(SPELL[sc]), tail))
            texts.append("300 K -> %s%s" % (SPELL[sc][0], tail if tail[0] in "^(" else " " + tail))
    res, events, verdicts = evalkit.decide(run, texts, "scales", env=env, shards=8)
    run.sample({"leg": "scales", "q": texts[3]})
    # chains: x s1 -> s2 (observed y) ; y s2 -> s3 ; must compose: judged independently, exact fractions
    from engines.rt_util import limbs_to_int
    chain = []
    for q, r in zip(texts, res):
        o = r.get("obs", {})
        if o.get("t") != "conversion" or " -> " not in q or len(chain) >= (4000 if thorough else 600):
            continue
        raw = (o.get("parts") or {}).get("raw") or {}
        if raw.get("t") != "num":
            continue
        tgt = q.split(" -> ", 1)[1]
        if tgt.split(" ")[0] not in sum(SPELL.values(), []) or " " in tgt:
            continue
        n = limbs_to_int(raw["v"]["n"]["mag"]) * (-1 if raw["v"]["n"]["neg"] else 1)
        d = limbs_to_int(raw["v"]["d"])
        if len(str(n)) > 60:
            continue
        third = rng.choice(SPELL[rng.choice(scales)])
        chain.append("(%d|%d) %s -> %s" % (n, d, tgt, third))
    evalkit.decide(run, chain, "chains", env=env, shards=8)
    if chain:
        run.sample({"leg": "chains", "q": chain[0]})

    def corrupt(ev):
        ev["obs"]["parts"]["raw"]["v"]["n"]["mag"][0] ^= 1
    evalkit.selfcheck_corrupt(run, "12 degC -> degF", corrupt, env=env)
    return run.finish()


def replay(path, seed):
    vlib.build_harness()
    dump = evalkit.registry_dump("bundled")
    env = {"ENVFILE": evalkit.env_file(dump, "c10env"), "CLOSED": "0", "TEXTBOOK": "1"}
    return evalkit.replay_query(PROP, path, env=env)
