"""C15 - queries are pure; only `ans` carries state between them.

Legs (DESIGN.md section 4, C15):
  D  design: TLC on Session.tla (MC_Session): every history up to MaxLen over 16 queries in 13 classes,
     flag on and off; DbConst / AnsRule / OffNeverSet / Purity; a deliberately faulty step function must
     violate AnsRule (the model can see the defect class)
  G  every maximal history TLC printed is replayed through the real stateful entry point (rv-eval run
     --ctx bundled [--ans]) on long-lived contexts; the previous answer after every step is compared with
     the step the model says it comes from
  V  the recorded executions are validated by Trace_Session.tla (AnsRule, DbConst, Purity inside the run);
     every distinct (query, previous answer) pair is evaluated again on a FRESH context with
     previous_result preset and must give the same reply digest (lines `fresh` of the same trace)
"""
import concurrent.futures as cf
import json
import os
import random
import time

import evalkit
import vlib
from vlib import log

PROP = "C15"

# query texts per model query id; the first entry is the default, the seed rotates through the others.
# n1 / n3 must be dimensionless, n2 must carry a unit, tm must be a time (shown as a duration breakdown).
POOL = {
    "n1": ["7", "12", "0.5", "2^70"],
    "n2": ["5 m", "3 kg", "2 m/s", "1|3 A"],
    "n3": ["9|4", "1e-3", "-8", "3 * 11"],
    "tm": ["3 hours", "90 minutes", "2 days + 1 s", "1|2 year"],
    "dt": ["#2000-01-01#", "#1999-12-31 23:59:59#", "#2020-02-29#"],
    "su": ["electron", "ammonia", "2 neutron", "egg"],
    "cv": ["2 km -> m", "1 hour -> s", "3 ft -> inch", "10 -> hex"],
    "ul": ["1000 s -> minute, s", "2.5 hour -> hour, minute", "100 inch -> ft, inch"],
    "df": ["foot", "kilogram", "speed", "parsec"],
    "uf": ["units for bit", "units for kat", "units for A"],
    "fz": ["factorize velocity", "factorize m", "factorize acceleration"],
    "se": ["search watr", "search zz", "search fot"],
    "er": ["5 m + 2 s", "1/0", "nosuchunitatall", "(("],
    "a1": ["ans + 1"],
    "a2": ["ANS"],
    "a3": ["_"],
}
MODEL_KIND = {"num:number": "number", "num:duration": "duration", "date": "date", "subst": "subst",
              "conversion": "conversion", "unitlist": "unitlist", "def": "def", "unitsfor": "unitsfor",
              "factorize": "factorize", "search": "search", "err": "error"}


def texts_for(seed):
    rng = random.Random(seed)
    if seed == 1:
        return {k: v[0] for k, v in POOL.items()}
    return {k: rng.choice(v) for k, v in POOL.items()}


def obs_kind(res):
    """kind of reply in the model's vocabulary"""
    if "crash" in res:
        return "crash"
    t = res.get("t")
    if t == "num" or t == "float":
        return MODEL_KIND.get("num:%s" % res.get("kind"), "number")
    return MODEL_KIND.get(t, str(t))


def job_for(text, first, real_reset, st):
    j = {"qs": text, "slim": True}
    if first:
        j["reset" if real_reset else "clear_ans"] = True
    if st:
        j["st"] = True
    return j


def run_shard(idx, save, hists, texts, reset_every, sample_every, tag):
    """hists: list of (global index, case). Returns list of (h, case, [results])"""
    jobs = []
    # warm-up job: digest of the fresh context (not part of any history)
    jobs.append({"qs": "1", "slim": True, "reset": True, "st": True})
    for n, (h, case) in enumerate(hists):
        real = n % reset_every == 0
        last_before_reset = (n + 1) % reset_every == 0 or n == len(hists) - 1
        sampled = n % sample_every == 0
        steps = case["steps"]
        for i, s in enumerate(steps):
            st = sampled or (last_before_reset and i == len(steps) - 1)
            jobs.append(job_for(texts[s["q"]], i == 0, real, st))
    res = evalkit.run_eval(jobs, ctx="bundled", timeout_ms=20000, shards=1, tag="%s-%d" % (tag, idx), ans=save)
    out = []
    k = 1
    for h, case in hists:
        n = len(case["steps"])
        out.append((h, case, res[k:k + n]))
        k += n
    return res[0], out


def step_line(h, i, qid, r):
    e = {"ev": "step", "h": h, "i": i, "q": qid, "plain": bool(r.get("plain", True)), "kind": obs_kind(r),
         "raw": r.get("raw_d") or "none", "rd": r.get("rd") or "crash",
         "ans": (r.get("ans_d") or "none") if "crash" not in r else "lost",
         "db": "", "tmp": "", "settings": [False, False]}
    st = r.get("st")
    if st:
        e["db"] = st.get("db") or "unreadable"
        e["tmp"] = st.get("tmp") if st.get("tmp") is not None else "unreadable"
        e["settings"] = st["settings"]
    return e


def shard_trace(save, warm, recs):
    """trace lines of one shard + per line the history it belongs to"""
    lines = []
    for h, case, res in recs:
        lines.append({"ev": "reset", "h": h, "save": save, "db": ""})
        for i, (s, r) in enumerate(zip(case["steps"], res)):
            lines.append(step_line(h, i + 1, s["q"], r))
    st = warm.get("st") or {}
    lines[0]["db"] = st.get("db") or "unreadable"
    return lines


def run_parallel(jobs, shards, tag, save):
    """contiguous chunks of jobs, one rv-eval process each"""
    shards = max(1, min(shards, len(jobs)))
    bounds = [(len(jobs) * i // shards, len(jobs) * (i + 1) // shards) for i in range(shards)]
    with cf.ThreadPoolExecutor(max_workers=shards) as ex:
        parts = list(ex.map(lambda i: evalkit.run_eval(jobs[bounds[i][0]:bounds[i][1]], ctx="bundled", timeout_ms=20000,
                                                       shards=1, tag="%s-%d" % (tag, i), ans=save), range(shards)))
    return [r for p in parts for r in p]


def fresh_jobs(pairs, texts, ansval):
    """pairs: list of (qid, a0 digest). One job per pair on a fresh context with previous_result preset."""
    jobs = []
    for qid, a0 in pairs:
        j = {"qs": texts[qid], "slim": True, "reset": True, "st": True}
        if a0 != "none":
            j["preset"] = ansval[a0]
        jobs.append(j)
    return jobs


def why_of(r, idx):
    for ln in r.stdout.splitlines():
        if ln.startswith('<<"WHY", %d, ' % idx):
            return ln.split(",")[2].strip().strip('">')
    return "unknown"


def validate_lines(run, lines, label, describe, max_rej=3):
    """Validate with Trace_Session; each rejection is a violation, validation resumes with the history
    after the rejected one. Returns the number of rejections."""
    rej = 0
    head = dict(lines[0], h=-1)          # a reset line carrying the context's digest
    rest = lines
    n = 0
    while rest and rej < max_rej:
        chunk = rest if (rest[0]["ev"] == "reset" and rest[0].get("db")) else [head] + rest
        n += 1
        path = vlib.workfile("c15-%s-%d.ndjson" % (label, n))
        vlib.write_ndjson(path, chunk)
        r = vlib.tlc("Trace_Session", "Trace_Session", workers=1, timeout=3000, env={"TRACE": path}, xmx="6g",
                     deque=True, tag="c15v")
        if getattr(r, "timed_out", False):
            raise vlib.ToolError("trace validation timed out (%s)" % label)
        run.cov["states"] += r.distinct
        run.cov["transitions"] += r.generated
        oks = vlib.tagged_raw(r, "TRACE_OK")
        rj = vlib.tagged_raw(r, "TRACE_REJECT")
        os.unlink(path)
        if oks and r.ok:
            return rej
        if not rj:
            log(r.stdout[-3000:])
            raise vlib.ToolError("trace validation produced no verdict (%s)" % label)
        idx = int(rj[0].split(",")[0])          # 1-based index of the refused line
        describe(chunk[idx - 1], why_of(r, idx))
        rej += 1
        if chunk[idx - 1]["ev"] == "fresh":
            rest = chunk[idx:]                   # fresh lines are independent of each other
            continue
        nxt = next((j for j in range(idx, len(chunk)) if chunk[j]["ev"] in ("reset", "fresh")), None)
        rest = chunk[nxt:] if nxt is not None else []
    return rej


def design(run, thorough):
    cfg = "MC_Session5" if thorough else "MC_Session4"
    r = vlib.tlc("MC_Session", cfg, workers=1, timeout=3000, coverage=True, tag="c15g", xmx="10g")   # 1 worker: printed lines must not interleave
    if r.invariant_violated or (not r.ok and "violated" in (r.error_text or "")):
        log(r.stdout[-3000:])
        raise vlib.ToolError("the Session model violates its own property (%s)" % r.invariant_violated)
    vlib.require_ok(r, cfg)
    run.add_tlc(r, cfg)
    if r.coverage.get("Do", (0, 0))[1] == 0:
        raise vlib.ToolError("vacuity gate: action Do never taken in %s" % cfg)
    cases = vlib.tagged_json(r, "REPLAY")
    if not cases:
        raise vlib.ToolError("generator printed no histories")
    qs = set(s["q"] for c in cases for s in c["steps"])
    kinds = set(s["kind"] for c in cases for s in c["steps"])
    if qs != set(POOL) or not {"number", "duration", "error", "conversion", "def"} <= kinds:
        raise vlib.ToolError("vacuity gate: generated histories miss query classes: %s %s" % (sorted(qs), sorted(kinds)))
    if not any(s["ans"] not in (0, i + 1) for c in cases for i, s in enumerate(c["steps"])):
        raise vlib.ToolError("vacuity gate: no history keeps an older answer")
    # the model can see the defect classes: faulty step functions must violate AnsRule
    for fault in ("conv", "err", "off"):
        rb = vlib.tlc("MC_Session", "MC_Session_bad_%s" % fault, workers=2, timeout=300, tag="c15b")
        if rb.ok or "AnsRule" not in rb.stdout and "OffNeverSet" not in rb.stdout:
            log(rb.stdout[-2000:])
            raise vlib.ToolError("sanity: faulty model '%s' should violate AnsRule / OffNeverSet" % fault)
    run.note("sanity_faulty_models", "AnsRule / OffNeverSet violated by the three faulty step functions, as expected")
    return cases


def run(tier, seed):
    run = vlib.Run(PROP, tier, seed, "model_checking")
    thorough = tier == "thorough"
    run.cov["rule"] = ("every history of the TLC model (16 queries in 13 classes: three plain numbers, a time value, a date, a substance, "
                       "a conversion, a unit list, a definition lookup, units for, factorize, search, a failing query, `ans + 1`, `ANS`, `_`) "
                       "of length %d, feature flag on (all) and off (a stride), replayed through rink_core::eval on long-lived bundled contexts; "
                       "non-trivial = distinct history (flag on) in which a stored answer is read back by a later query." % (5 if thorough else 4))
    run.assumptions += [
        "rink_core::eval refreshes ctx.now at the start of every call (documented job of the wrapper, not an effect of the query); histories avoid `now` and run with use_humanize = false",
        "reading A1: a time-valued plain expression (duration breakdown) is a numeric result",
        "harness trusted for: FNV-1a digests of the Debug rendering of the context (registry, temporaries) and of reply / value observations; "
        "building the preset Number from its limb form; forgetting the previous answer between histories (clear_ans)",
    ]
    vlib.build_harness()
    texts = texts_for(seed)
    run.note("query_texts", texts)
    cases = design(run, thorough)
    log("[C15] %d histories from TLC" % len(cases))
    t0 = time.time()

    shards = 12 if thorough else 8
    reset_every = 20000 if thorough else 3000
    sample_every = 8000 if thorough else 1200
    violations = []

    all_recs = {}
    ansval = {}                      # ans digest -> full number observation (for presets)
    pairs = {True: {}, False: {}}    # save -> {(qid, a0): (rd, kind, raw, ans_after)} first observation
    traces = {}
    # flag off: `ans` never changes, so every step is answered as on a fresh context; the quick tier replays
    # every 8th of these histories (offset by the seed), the thorough tier every 2nd
    off_stride = 2 if thorough else 8
    for save in (True, False):
        mine = [(h, c) for h, c in enumerate(cases) if c["save"] == save]
        if not save:
            mine = mine[seed % off_stride::off_stride]
        n = len(mine)
        bounds = [(n * i // shards, n * (i + 1) // shards) for i in range(shards)]

        def one(i, save=save, mine=mine, bounds=bounds):
            lo, hi = bounds[i]
            return run_shard(i, save, mine[lo:hi], texts, reset_every, sample_every, "c15%s" % ("on" if save else "off"))

        with cf.ThreadPoolExecutor(max_workers=shards) as ex:
            parts = list(ex.map(one, range(shards)))
        for i, (warm, recs) in enumerate(parts):
            all_recs[(save, i)] = recs
            traces[(save, i)] = shard_trace(save, warm, recs)
            for h, case, res in recs:
                a0 = "none"
                for s, r in zip(case["steps"], res):
                    run.count()
                    if "crash" in r:
                        a0 = "none"
                        continue
                    pairs[save].setdefault((s["q"], a0), r)
                    if r.get("ans_d") and r["ans_d"] not in ansval and r.get("ans") is not None:
                        ansval[r["ans_d"]] = r["ans"]
                    a0 = r.get("ans_d") or "none"

    log("[C15] replayed in %.1fs" % (time.time() - t0))
    t0 = time.time()
    # ---- G: the model's prediction of where `ans` comes from, against the observation
    nread = 0
    for (save, i), recs in all_recs.items():
        for h, case, res in recs:
            raws = [r.get("raw_d") for r in res]
            used = False
            for k, (s, r) in enumerate(zip(case["steps"], res)):
                if "crash" in r:
                    violations.append(({"engine": "session-replay", "kind": "crash", "save": save, "history": [texts[x["q"]] for x in case["steps"]],
                                        "step": k + 1}, "a reply", r))
                    break
                want = "none" if s["ans"] == 0 else (raws[s["ans"] - 1] or "missing")
                got = r.get("ans_d") or "none"
                if s["kind"] != obs_kind(r):
                    run.drift_note("MC_Session", "reply kind of %r after %r: model %s, code %s" % (
                        texts[s["q"]], [texts[x["q"]] for x in case["steps"][:k]], s["kind"], obs_kind(r)))
                if want != got:
                    violations.append(({"engine": "session-replay", "kind": "ans", "save": save,
                                        "history": [texts[x["q"]] for x in case["steps"]], "qids": [x["q"] for x in case["steps"]], "step": k + 1,
                                        "expected_from_step": s["ans"]},
                                       "previous_result after step %d = %s" % (k + 1, "none" if s["ans"] == 0 else "raw value of the reply of step %d" % s["ans"]),
                                       {"ans_after": r.get("ans"), "reply_kind": obs_kind(r)}))
                    break
                if s["q"] in ("a1", "a2", "a3") and k > 0 and case["steps"][k - 1]["ans"] != 0:
                    used = True
            if used and save:
                run.nontrivial(tuple(x["q"] for x in case["steps"]))
                nread += 1
    if nread == 0:
        raise vlib.ToolError("vacuity gate: no replayed history reads a stored answer back")

    # ---- fresh contexts: every distinct (query, previous answer) again, previous_result preset
    fresh_lines = {True: [], False: []}
    for save in (True, False):
        plist = sorted(pairs[save])
        missing = [p for p in plist if p[1] != "none" and p[1] not in ansval]
        if missing:
            raise vlib.ToolError("no value recorded for previous answer %s" % missing[0][1])
        fj = fresh_jobs(plist, texts, ansval)
        fres = run_parallel(fj, shards, "c15f%d" % save, save)
        for (qid, a0), r in zip(plist, fres):
            e = step_line(-1, 0, qid, r)
            e["ev"] = "fresh"
            e["a0"] = a0
            fresh_lines[save].append(e)
        run.count(len(fj))
    run.note("distinct_query_answer_pairs", {"flag_on": len(pairs[True]), "flag_off": len(pairs[False])})

    log("[C15] %d + %d fresh-context evaluations, %.1fs" % (len(fresh_lines[True]), len(fresh_lines[False]), time.time() - t0))
    t0 = time.time()
    # ---- V: trace validation (per shard: its own lines, then the fresh lines for the pairs it saw)
    def describe_for(save):
        def describe(bad, why):
            hist = None
            for (sv, i), recs in all_recs.items():
                if sv != save:
                    continue
                for h, case, res in recs:
                    if h == bad.get("h"):
                        hist = case
            violations.append(({"engine": "session-trace", "kind": why, "save": save, "line": {k: v for k, v in bad.items() if k != "tmp"},
                                "query": texts.get(bad.get("q")),
                                "history": [texts[x["q"]] for x in hist["steps"]] if hist else None,
                                "qids": [x["q"] for x in hist["steps"]] if hist else None, "step": bad.get("i")},
                               {"ansrule": "previous_result afterwards = IF flag and the reply is a successful numeric result of a plain expression THEN its raw value ELSE unchanged",
                                "dbconst": "registry digest, load-time scratch names and settings unchanged",
                                "purity": "the same reply digest as the earlier evaluation of the same query with the same previous answer",
                                "fresh": "the same reply digest as a fresh context with previous_result preset",
                                "fresh-ansrule": "AnsRule on the fresh context", "fresh-db": "fresh context: same registry digest"}.get(why, why),
                               {"reply_kind": bad.get("kind"), "ans_after": bad.get("ans"), "reply_digest": bad.get("rd"), "db": bad.get("db")}))
        return describe

    def val(key):
        save, i = key
        lines = traces[key]
        seen = set()
        a0 = "none"
        for e in lines:
            if e["ev"] == "reset":
                a0 = "none"
            else:
                seen.add((e["q"], a0))
                a0 = e["ans"]
        extra = [e for e in fresh_lines[save] if (e["q"], e["a0"]) in seen]
        return validate_lines(run, lines + extra, "%s%d" % ("on" if save else "off", i), describe_for(save))

    with cf.ThreadPoolExecutor(max_workers=shards) as ex:
        rejs = list(ex.map(val, sorted(traces)))
    log("[C15] traces validated in %.1fs (%d rejections)" % (time.time() - t0, sum(rejs)))
    nh = sum(len(r) for r in all_recs.values())
    run.traces(nh)
    run.note("histories_replayed", nh)
    run.note("state_digests_checked", sum(1 for t in traces.values() for e in t if e.get("db")) + sum(len(v) for v in fresh_lines.values()))
    k0 = sorted(traces)[0]
    run.sample({"leg": "G", "history": [texts[s["q"]] for s in cases[len(cases) // 3]["steps"]], "model": cases[len(cases) // 3]})
    run.sample({"leg": "V", "lines": traces[k0][1:4]})
    if fresh_lines[True]:
        run.sample({"leg": "fresh", "line": {k: v for k, v in fresh_lines[True][len(fresh_lines[True]) // 2].items() if k != "tmp"}})

    # report (deduplicated by clause + failing query + previous kind)
    seen_keys = set()
    for case, allows, observed in violations:
        qids = case.get("qids") or [None]
        step = case.get("step") or 1
        key = (case.get("engine"), case.get("kind"), case.get("save"), qids[min(step, len(qids)) - 1] if step else case.get("query"))
        if key in seen_keys:
            continue
        seen_keys.add(key)
        run.violation(case, allows, observed, case.get("engine"))

    # ---- the binding is not vacuous: corrupted traces must be rejected
    base = [e for e in traces[(True, 0)][:400]]
    for what in ("ans", "db", "rd"):
        bad = [dict(e) for e in base]
        if what == "ans":
            j = next(i for i, e in enumerate(bad) if e["ev"] == "step" and e["ans"] != "none")
            bad[j]["ans"] = "none"
        elif what == "db":
            j = next(i for i, e in enumerate(bad) if e["ev"] == "step" and e["db"])
            bad[j]["db"] = "1-0000000000000000"
        else:
            first = next(i for i, e in enumerate(bad) if e["ev"] == "step")
            j = next(i for i, e in enumerate(bad) if i > first + 4 and e["ev"] == "step" and e["q"] == bad[first]["q"]
                     and bad[i - 1]["ev"] == "reset")
            bad[j]["rd"] = "1-0000000000000000"
        got = []
        n = validate_lines(vlib.Run(PROP, tier, seed, "model_checking"), bad, "corrupt-" + what, lambda b, w: got.append(w), max_rej=1)
        if n == 0:
            raise vlib.ToolError("self-check: a corrupted session trace (%s) was accepted by Trace_Session" % what)
    run.note("selfcheck_corrupted_traces_rejected", True)
    return run.finish()


def replay(path, seed):
    body = json.load(open(path))
    case = body["case"]
    vlib.build_harness()
    hist = case.get("history")
    if not hist:
        log("nothing to replay")
        return 2
    save = bool(case.get("save"))
    jobs = [dict({"qs": q, "slim": True, "st": True}, **({"reset": True} if i == 0 else {})) for i, q in enumerate(hist)]
    res = evalkit.run_eval(jobs, ctx="bundled", timeout_ms=20000, shards=1, tag="c15r", ans=save)
    lines = [{"ev": "reset", "h": 0, "save": save, "db": (res[0].get("st") or {}).get("db") or "unreadable"}]
    ansval = {}
    fresh = []
    a0 = "none"
    for i, (q, r) in enumerate(zip(hist, res)):
        lines.append(step_line(0, i + 1, q, r))
        if r.get("ans_d"):
            ansval[r["ans_d"]] = r.get("ans")
        j = {"qs": q, "slim": True, "reset": True, "st": True}
        if a0 != "none":
            j["preset"] = ansval[a0]
        fr = evalkit.run_eval([j], ctx="bundled", timeout_ms=20000, shards=1, tag="c15rf", ans=save)[0]
        e = step_line(-1, 0, q, fr)
        e["ev"] = "fresh"
        e["a0"] = a0
        fresh.append(e)
        log("step %d %-24r kind=%-10s ans_after=%s   fresh: kind=%s same_reply=%s" % (
            i + 1, q, obs_kind(r), r.get("ans_d"), obs_kind(fr), fr.get("rd") == r.get("rd")))
        a0 = r.get("ans_d") or "none"
    got = []
    run = vlib.Run(PROP, "quick", seed, "model_checking")
    n = validate_lines(run, lines + fresh, "replay", lambda b, w: got.append((w, b.get("i"), b.get("q"))), max_rej=1)
    log("trace %s %s" % ("rejected" if n else "accepted", got))
    return 1 if n else 0
