"""C15 - queries are pure; only `ans` carries state between them.

Legs (DESIGN.md section 4, C15):
  D  design: TLC on Session.tla (MC_Session): every history up to MaxLen over 16 queries in 13 classes,
     flag on and off; DbConst / AnsRule / OffNeverSet / Purity; a deliberately faulty step function must
     violate AnsRule (the model can see the defect class)
  G  every maximal history TLC printed is replayed through the real stateful entry point (rv-eval run
     --ctx bundled [--ans]) on long-lived contexts; the previous answer after every step is compared with
     the step the model says it comes from
  V  the recorded executions are validated by Trace_Session.tla (AnsRule, DbConst, Purity inside the run);
     every distinct (query, previous answer) pair is evaluated again on a FRESH context with
     previous_result preset and must give the same reply digest (lines `fresh` of the same trace)
"""
import concurrent.futures as cf
import json
import os
import random
import time

import evalkit
import vlib
from vlib import log

PROP = "C15"

# query texts per model query id; the first entry is the default, the seed rotates through the others.
# n1 / n3 must be dimensionless, n2 must carry a unit, tm must be a time (shown as a duration breakdown).
POOL = {
    "n1": ["7", "12", "0.5", "2^70"],
    "n2": ["5 m", "3 kg", "2 m/s", "1|3 A"],
    "n3": ["(2^1100 + 1) / 3^20", "9|4", "1e-3", "-8", "3 * 11"],      # default: an exact value wider than a kilobit (it must come back exactly through `ans`)
    "tm": ["3 hours", "90 minutes", "2 days + 1 s", "1|2 year"],
    "dt": ["#2000-01-01#", "#1999-12-31 23:59:59#", "#2020-02-29#"],
    "su": ["electron", "ammonia", "2 neutron", "egg"],
    "cv": ["2 km -> m", "1 hour -> s", "3 ft -> inch", "65 mph -> km/hour"],
    "cf": ["255 -> hex", "1|3 -> digits 10", "0.75 -> frac", "1e-9 -> eng", "12 -> base 7", "300 m -> sci"],
    "ul": ["1000 s -> minute, s", "2.5 hour -> hour, minute", "100 inch -> ft, inch"],
    "df": ["foot", "kilogram", "energy", "parsec"],
    "uf": ["units for bit", "units for kat", "units for A"],
    "fz": ["factorize velocity", "factorize m", "factorize acceleration"],
    "se": ["search watr", "search zz", "search fot"],
    "er": ["3 watr -> liter", "5 m + 2 s", "1/0", "nosuchunitatall", "(("],      # default: the misspelt word is the word `se` searches for
    "a1": ["ans + 1"],
    "a2": ["ANS"],
    "a3": ["_"],
}
MODEL_KIND = {"num:number": "number", "num:duration": "duration", "date": "date", "subst": "subst",
              "conversion": "conversion", "unitlist": "unitlist", "def": "def", "unitsfor": "unitsfor",
              "factorize": "factorize", "search": "search", "err": "error"}


def texts_for(seed):
    rng = random.Random(seed)
    if seed == 1:
        return {k: v[0] for k, v in POOL.items()}
    return {k: rng.choice(v) for k, v in POOL.items()}


def obs_kind(res):
    """kind of reply in the model's vocabulary"""
    if "crash" in res:
        return "crash"
    t = res.get("t")
    if t == "num" or t == "float":
        return MODEL_KIND.get("num:%s" % res.get("kind"), "number")
    return MODEL_KIND.get(t, str(t))


def job_for(text, first, st):
    j = {"qs": text, "slim": True}
    if first:
        j["clear_ans"] = True
    if st:
        j["st"] = True
    return j


def step_line(h, i, qid, r):
    e = {"ev": "step", "h": h, "i": i, "q": qid, "plain": bool(r.get("plain", True)), "kind": obs_kind(r),
         "raw": r.get("raw_d") or "none", "rd": r.get("rd") or "crash",
         "ans": (r.get("ans_d") or "none") if "crash" not in r else "lost",
         "db": "", "tmp": "", "settings": [False, False], "clock": bool(r.get("clock_ok", "crash" in r))}
    st = r.get("st")
    if st:
        e["db"] = st.get("db") or "unreadable"
        e["tmp"] = st.get("tmp") if st.get("tmp") is not None else "unreadable"
        e["settings"] = st["settings"]
    return e


class ShardResult:
    def __init__(self):
        self.path = None
        self.nlines = 0
        self.pairs = {}          # (qid, a0) -> first result seen
        self.ansval = {}         # ans digest -> number observation
        self.mismatch = []       # (h, step, case, result): the model's prediction of `ans` differs
        self.kinddiff = []       # (h, step, model kind, code kind)
        self.crashes = []
        self.readers = set()     # histories (qid tuples) in which a stored answer is read back
        self.steps = 0
        self.hist = 0
        self.digests = 0
        self.sample = None


def run_shard(idx, save, hists, texts, batch, sample_every, tag):
    """hists: list of (global index, case) with case = (save, qids, kinds, ans). One rv-eval process (one
    long-lived context) per batch of histories; the trace lines go to a file, only summaries are kept."""
    out = ShardResult()
    out.path = vlib.workfile("%s-%d-trace.ndjson" % (tag, idx))
    with open(out.path, "w") as f:
        for b0 in range(0, len(hists), batch):
            part = hists[b0:b0 + batch]
            # warm-up job: a fresh context and its digest (not part of any history)
            jobs = [{"qs": "1", "slim": True, "reset": True, "st": True}]
            for n, (h, case) in enumerate(part):
                sampled = (b0 + n) % sample_every == 0
                qids = case[1]
                for i, q in enumerate(qids):
                    jobs.append(job_for(texts[q], i == 0, sampled or (n == len(part) - 1 and i == len(qids) - 1)))
            res = evalkit.run_eval(jobs, ctx="bundled", timeout_ms=20000, shards=1, tag="%s-%d" % (tag, idx), ans=save)
            warm = res[0].get("st") or {}
            k = 1
            for n, (h, case) in enumerate(part):
                qids, kinds, src = case[1], case[2], case[3]
                rs = res[k:k + len(qids)]
                k += len(qids)
                line = {"ev": "reset", "h": h, "save": save, "db": (warm.get("db") or "unreadable") if n == 0 else ""}
                f.write(json.dumps(line, separators=(",", ":")) + "\n")
                out.nlines += 1
                out.hist += 1
                a0 = "none"
                raws = [r.get("raw_d") for r in rs]
                bad = False
                used = False
                for i, (q, r) in enumerate(zip(qids, rs)):
                    e = step_line(h, i + 1, q, r)
                    f.write(json.dumps(e, separators=(",", ":")) + "\n")
                    out.nlines += 1
                    out.steps += 1
                    if e["db"]:
                        out.digests += 1
                    if "crash" in r:
                        out.crashes.append((h, i + 1, case, {x: r.get(x) for x in ("crash", "msg", "signal")}))
                        a0 = "none"
                        bad = True
                        continue
                    if (q, a0) not in out.pairs:
                        out.pairs[(q, a0)] = r.get("rd")
                    if r.get("ans_d") and r["ans_d"] not in out.ansval and r.get("ans") is not None:
                        out.ansval[r["ans_d"]] = r["ans"]
                    if not bad:
                        if kinds[i] != e["kind"] and len(out.kinddiff) < 5:
                            out.kinddiff.append((h, i + 1, kinds[i], e["kind"], case))
                        want = "none" if src[i] == 0 else (raws[src[i] - 1] or "missing")
                        got = r.get("ans_d") or "none"
                        if want != got:
                            if len(out.mismatch) < 50:
                                out.mismatch.append((h, i + 1, case, {"ans_after": r.get("ans"), "reply_kind": e["kind"]}))
                            bad = True
                        if q in ("a1", "a2", "a3") and a0 != "none":
                            used = True
                    a0 = r.get("ans_d") or "none"
                if used and save:
                    out.readers.add(qids)
                if out.sample is None and n == 1:
                    out.sample = [step_line(h, i + 1, q, r) for i, (q, r) in enumerate(zip(qids, rs))]
    return out


def run_parallel(jobs, shards, tag, save):
    """contiguous chunks of jobs, one rv-eval process each"""
    shards = max(1, min(shards, len(jobs)))
    bounds = [(len(jobs) * i // shards, len(jobs) * (i + 1) // shards) for i in range(shards)]
    with cf.ThreadPoolExecutor(max_workers=shards) as ex:
        parts = list(ex.map(lambda i: evalkit.run_eval(jobs[bounds[i][0]:bounds[i][1]], ctx="bundled", timeout_ms=20000,
                                                       shards=1, tag="%s-%d" % (tag, i), ans=save), range(shards)))
    return [r for p in parts for r in p]


def fresh_jobs(pairs, texts, ansval):
    """pairs: list of (qid, a0 digest). One job per pair on a fresh context with previous_result preset."""
    jobs = []
    for qid, a0 in pairs:
        j = {"qs": texts[qid], "slim": True, "reset": True, "st": True}
        if a0 != "none":
            j["preset"] = ansval[a0]
        jobs.append(j)
    return jobs


def why_of(r, idx):
    for ln in r.stdout.splitlines():
        if ln.startswith('<<"WHY", %d, ' % idx):
            return ln.split(",")[2].strip().strip('">')
    return "unknown"


def validate_lines(run, lines, label, describe, max_rej=3):
    """Validate with Trace_Session; each rejection is a violation, validation resumes with the history
    after the rejected one. Returns the number of rejections."""
    rej = 0
    head = dict(lines[0], h=-1)          # a reset line carrying the context's digest
    rest = lines
    n = 0
    while rest and rej < max_rej:
        chunk = rest if (rest[0]["ev"] == "reset" and rest[0].get("db")) else [head] + rest
        n += 1
        path = vlib.workfile("c15-%s-%d.ndjson" % (label, n))
        vlib.write_ndjson(path, chunk)
        r = vlib.tlc("Trace_Session", "Trace_Session", workers=1, timeout=3000, env={"TRACE": path}, xmx="6g",
                     deque=True, tag="c15v")
        if getattr(r, "timed_out", False):
            raise vlib.ToolError("trace validation timed out (%s)" % label)
        run.cov["states"] += r.distinct
        run.cov["transitions"] += r.generated
        oks = vlib.tagged_raw(r, "TRACE_OK")
        rj = vlib.tagged_raw(r, "TRACE_REJECT")
        os.unlink(path)
        if oks and r.ok:
            return rej
        if not rj:
            log(r.stdout[-3000:])
            raise vlib.ToolError("trace validation produced no verdict (%s)" % label)
        idx = int(rj[0].split(",")[0])          # 1-based index of the refused line
        describe(chunk[idx - 1], why_of(r, idx))
        rej += 1
        if chunk[idx - 1]["ev"] == "fresh":
            rest = chunk[idx:]                   # fresh lines are independent of each other
            continue
        nxt = next((j for j in range(idx, len(chunk)) if chunk[j]["ev"] in ("reset", "fresh")), None)
        rest = chunk[nxt:] if nxt is not None else []
    return rej


def validate_file(run, path, label, describe, max_rej=3):
    """Trace_Session on a trace file; only when it is rejected are the lines loaded to resume after the
    rejected history."""
    r = vlib.tlc("Trace_Session", "Trace_Session", workers=1, timeout=6000, env={"TRACE": path}, xmx="8g", deque=True, tag="c15v")
    if getattr(r, "timed_out", False):
        raise vlib.ToolError("trace validation timed out (%s)" % label)
    run.cov["states"] += r.distinct
    run.cov["transitions"] += r.generated
    if vlib.tagged_raw(r, "TRACE_OK") and r.ok:
        return 0
    rj = vlib.tagged_raw(r, "TRACE_REJECT")
    if not rj:
        log(r.stdout[-3000:])
        raise vlib.ToolError("trace validation produced no verdict (%s)" % label)
    lines = vlib.read_ndjson(path)
    idx = int(rj[0].split(",")[0])
    describe(lines[idx - 1], why_of(r, idx))
    if lines[idx - 1]["ev"] == "fresh":
        rest = lines[idx:]
    else:
        nxt = next((j for j in range(idx, len(lines)) if lines[j]["ev"] in ("reset", "fresh")), None)
        rest = lines[nxt:] if nxt is not None else []
    if not rest or max_rej <= 1:
        return 1
    head = dict(lines[0], h=-1)
    if not (rest[0]["ev"] == "reset" and rest[0].get("db")):
        rest = [head] + rest
    return 1 + validate_lines(run, rest, label, describe, max_rej=max_rej - 1)


def parse_replay(r):
    """REPLAY lines -> compact cases (save, qids, kinds, ans sources)"""
    cases = []
    for ln in r.stdout.splitlines():
        if ln.startswith('"REPLAY '):
            o = json.loads(vlib._unquote_tla(ln)[7:])
            cases.append((bool(o["s"]), tuple(o["q"]), tuple(o["k"]), tuple(o["a"])))
    return cases


def design(run, thorough):
    cfg = "MC_Session5" if thorough else "MC_Session4"
    r = vlib.tlc("MC_Session", cfg, workers=1, timeout=3000, coverage=True, tag="c15g", xmx="10g")   # 1 worker: printed lines must not interleave
    if r.invariant_violated or (not r.ok and "violated" in (r.error_text or "")):
        log(r.stdout[-3000:])
        raise vlib.ToolError("the Session model violates its own property (%s)" % r.invariant_violated)
    vlib.require_ok(r, cfg)
    run.add_tlc(r, cfg)
    if r.coverage.get("Do", (0, 0))[1] == 0:
        raise vlib.ToolError("vacuity gate: action Do never taken in %s" % cfg)
    cases = parse_replay(r)
    r.stdout = ""
    if not cases:
        raise vlib.ToolError("generator printed no histories")
    n = 5 if thorough else 4
    if len(cases) != 2 * len(POOL) ** n:
        raise vlib.ToolError("generator printed %d histories, expected %d" % (len(cases), 2 * len(POOL) ** n))
    qs = set(q for c in cases for q in c[1])
    kinds = set(k for c in cases for k in c[2])
    if qs != set(POOL) or not {"number", "duration", "error", "conversion", "def"} <= kinds:
        raise vlib.ToolError("vacuity gate: generated histories miss query classes: %s %s" % (sorted(qs), sorted(kinds)))
    if not any(a not in (0, i + 1) for c in cases for i, a in enumerate(c[3])):
        raise vlib.ToolError("vacuity gate: no history keeps an older answer")
    # the model can see the defect classes: faulty step functions must violate AnsRule
    for fault in ("conv", "err", "off"):
        rb = vlib.tlc("MC_Session", "MC_Session_bad_%s" % fault, workers=2, timeout=300, tag="c15b")
        if rb.ok or ("AnsRule" not in rb.stdout and "OffNeverSet" not in rb.stdout):
            log(rb.stdout[-2000:])
            raise vlib.ToolError("sanity: faulty model '%s' should violate AnsRule / OffNeverSet" % fault)
    run.note("sanity_faulty_models", "AnsRule / OffNeverSet violated by the three faulty step functions, as expected")
    return cases


def run(tier, seed):
    run = vlib.Run(PROP, tier, seed, "model_checking")
    thorough = tier == "thorough"
    run.cov["rule"] = ("every history of the TLC model (16 queries in 13 classes: three plain numbers, a time value, a date, a substance, "
                       "a conversion, a unit list, a definition lookup, units for, factorize, search, a failing query, `ans + 1`, `ANS`, `_`) "
                       "of length %d, feature flag on (all) and off (a stride), replayed through rink_core::eval on long-lived bundled contexts; "
                       "non-trivial = distinct history (flag on) in which a stored answer is read back by a later query." % (5 if thorough else 4))
    run.assumptions += [
        "rink_core::eval refreshes ctx.now at the start of every call (documented job of the wrapper, not an effect of the query); histories avoid `now` and run with use_humanize = false",
        "reading A1: a time-valued plain expression (duration breakdown) is a numeric result",
        "harness trusted for: FNV-1a digests of the Debug rendering of the context (registry, temporaries) and of reply / value observations; "
        "building the preset Number from its limb form; forgetting the previous answer between histories (clear_ans)",
    ]
    vlib.build_harness()
    texts = texts_for(seed)
    run.note("query_texts", texts)
    cases = design(run, thorough)
    log("[C15] %d histories from TLC" % len(cases))
    t0 = time.time()

    shards = 12 if thorough else 8
    batch = 12000 if thorough else 3000          # histories per long-lived context
    sample_every = 6000 if thorough else 1200    # every step of these histories gets the state digests
    violations = []

    def hist_texts(case):
        return [texts[q] for q in case[1]]

    # flag off: `ans` never changes, so every step is answered as on a fresh context; the quick tier replays
    # every 8th of these histories (offset by the seed), the thorough tier every 2nd
    off_stride = 2 if thorough else 8
    results = {}
    for save in (True, False):
        mine = [(h, c) for h, c in enumerate(cases) if c[0] == save]
        if not save:
            mine = mine[seed % off_stride::off_stride]
        n = len(mine)
        bounds = [(n * i // shards, n * (i + 1) // shards) for i in range(shards)]

        def one(i, save=save, mine=mine, bounds=bounds):
            lo, hi = bounds[i]
            return run_shard(i, save, mine[lo:hi], texts, batch, sample_every, "c15%s" % ("on" if save else "off"))

        with cf.ThreadPoolExecutor(max_workers=shards) as ex:
            for i, sr in enumerate(ex.map(one, range(shards))):
                results[(save, i)] = sr
        del mine
    nsteps = sum(sr.steps for sr in results.values())
    run.count(nsteps)
    log("[C15] replayed %d steps in %.1fs" % (nsteps, time.time() - t0))
    t0 = time.time()

    # ---- G: the model's prediction of where `ans` comes from, against the observation
    ansval = {}
    for (save, i), sr in results.items():
        ansval.update(sr.ansval)
        for h, step, case, r in sr.crashes:
            violations.append(({"engine": "session-replay", "kind": "crash", "save": save, "history": hist_texts(case), "qids": list(case[1]), "step": step},
                               "a reply", r))
        for h, step, mk, ck, case in sr.kinddiff:
            run.drift_note("MC_Session", "reply kind of %r after %r: model %s, code %s" % (texts[case[1][step - 1]], hist_texts(case)[:step - 1], mk, ck))
        for h, step, case, obs in sr.mismatch:
            src = case[3][step - 1]
            violations.append(({"engine": "session-replay", "kind": "ans", "save": save, "history": hist_texts(case), "qids": list(case[1]),
                                "step": step, "expected_from_step": src},
                               "previous_result after step %d = %s" % (step, "none" if src == 0 else "raw value of the reply of step %d" % src), obs))
        if save:
            for key in sr.readers:
                run.nontrivial(key)
    if not any(sr.readers for sr in results.values()):
        raise vlib.ToolError("vacuity gate: no replayed history reads a stored answer back")

    # ---- fresh contexts: every distinct (query, previous answer) again, previous_result preset
    fresh_lines = {True: [], False: []}
    for save in (True, False):
        plist = sorted(set(p for (sv, i), sr in results.items() if sv == save for p in sr.pairs))
        missing = [p for p in plist if p[1] != "none" and p[1] not in ansval]
        if missing:
            raise vlib.ToolError("no value recorded for previous answer %s" % missing[0][1])
        fj = fresh_jobs(plist, texts, ansval)
        fres = run_parallel(fj, shards, "c15f%d" % save, save)
        for (qid, a0), r in zip(plist, fres):
            e = step_line(-1, 0, qid, r)
            e["ev"] = "fresh"
            e["a0"] = a0
            fresh_lines[save].append(e)
        run.count(len(fj))
        run.note("distinct_query_answer_pairs_flag_%s" % ("on" if save else "off"), len(plist))
    log("[C15] %d + %d fresh-context evaluations, %.1fs" % (len(fresh_lines[True]), len(fresh_lines[False]), time.time() - t0))
    t0 = time.time()

    # ---- V: trace validation (per shard: its own lines, then the fresh lines for the pairs it saw)
    def describe_for(save):
        def describe(bad, why):
            case = cases[bad["h"]] if isinstance(bad.get("h"), int) and 0 <= bad["h"] < len(cases) else None
            violations.append(({"engine": "session-trace", "kind": why, "save": save, "line": {k: v for k, v in bad.items() if k != "tmp"},
                                "query": texts.get(bad.get("q")),
                                "history": hist_texts(case) if case else None,
                                "qids": list(case[1]) if case else [bad.get("q")], "step": bad.get("i") or 1},
                               {"ansrule": "previous_result afterwards = IF flag and the reply is a successful numeric result of a plain expression THEN its raw value ELSE unchanged",
                                "dbconst": "registry digest, load-time scratch names and settings unchanged",
                                "clock": "ctx.now = the time rink_core::eval set at the start of the call",
                                "purity": "the same reply digest as the earlier evaluation of the same query with the same previous answer",
                                "fresh": "the same reply digest as a fresh context with previous_result preset",
                                "fresh-ansrule": "AnsRule on the fresh context", "fresh-db": "fresh context: same registry digest"}.get(why, why),
                               {"reply_kind": bad.get("kind"), "ans_after": bad.get("ans"), "reply_digest": bad.get("rd"), "db": bad.get("db")}))
        return describe

    def val(key):
        save, i = key
        sr = results[key]
        extra = [e for e in fresh_lines[save] if (e["q"], e["a0"]) in sr.pairs]
        with open(sr.path, "a") as f:
            for e in extra:
                f.write(json.dumps(e, separators=(",", ":")) + "\n")
        return validate_file(run, sr.path, "%s%d" % ("on" if save else "off", i), describe_for(save))

    with cf.ThreadPoolExecutor(max_workers=shards) as ex:
        rejs = list(ex.map(val, sorted(results)))
    log("[C15] traces validated in %.1fs (%d rejections)" % (time.time() - t0, sum(rejs)))
    nh = sum(sr.hist for sr in results.values())
    run.traces(nh)
    run.note("histories_replayed", nh)
    run.note("state_digests_checked", sum(sr.digests for sr in results.values()) + sum(len(v) for v in fresh_lines.values()))
    mid = cases[len(cases) // 3]
    run.sample({"leg": "G", "flag": mid[0], "history": hist_texts(mid), "model_kinds": mid[2], "model_ans_from_step": mid[3]})
    run.sample({"leg": "V", "lines": [{k: v for k, v in e.items() if k != "tmp"} for e in (results[(True, 0)].sample or [])]})
    if fresh_lines[True]:
        run.sample({"leg": "fresh", "line": {k: v for k, v in fresh_lines[True][len(fresh_lines[True]) // 2].items() if k != "tmp"}})

    # report (deduplicated by leg + clause + flag + failing query)
    seen_keys = set()
    for case, allows, observed in violations:
        qids = case.get("qids") or [None]
        step = case.get("step") or 1
        key = (case.get("engine"), case.get("kind"), case.get("save"), qids[min(step, len(qids)) - 1])
        if key in seen_keys:
            continue
        seen_keys.add(key)
        run.violation(case, allows, observed, case.get("engine"))

    # ---- the binding is not vacuous: corrupted traces must be rejected
    base = vlib.read_ndjson(results[(True, 0)].path)[:400]
    base = [e for e in base if e["ev"] != "fresh"]
    for what in ("ans", "db", "rd"):
        bad = [dict(e) for e in base]
        if what == "ans":
            j = next(i for i, e in enumerate(bad) if e["ev"] == "step" and e["ans"] != "none")
            bad[j]["ans"] = "none"
        elif what == "db":
            j = next(i for i, e in enumerate(bad) if e["ev"] == "step" and e["db"])
            bad[j]["db"] = "1-0000000000000000"
        else:
            first = next(i for i, e in enumerate(bad) if e["ev"] == "step")
            j = next(i for i, e in enumerate(bad) if i > first + 4 and e["ev"] == "step" and e["q"] == bad[first]["q"]
                     and bad[i - 1]["ev"] == "reset")
            bad[j]["rd"] = "1-0000000000000000"
        got = []
        n = validate_lines(vlib.Run(PROP, tier, seed, "model_checking"), bad, "corrupt-" + what, lambda b, w: got.append(w), max_rej=1)
        if n == 0:
            raise vlib.ToolError("self-check: a corrupted session trace (%s) was accepted by Trace_Session" % what)
    run.note("selfcheck_corrupted_traces_rejected", True)
    return run.finish()


def replay(path, seed):
    body = json.load(open(path))
    case = body["case"]
    vlib.build_harness()
    hist = case.get("history")
    if not hist:
        log("nothing to replay")
        return 2
    save = bool(case.get("save"))
    jobs = [dict({"qs": q, "slim": True, "st": True}, **({"reset": True} if i == 0 else {})) for i, q in enumerate(hist)]
    res = evalkit.run_eval(jobs, ctx="bundled", timeout_ms=20000, shards=1, tag="c15r", ans=save)
    lines = [{"ev": "reset", "h": 0, "save": save, "db": (res[0].get("st") or {}).get("db") or "unreadable"}]
    ansval = {}
    fresh = []
    a0 = "none"
    for i, (q, r) in enumerate(zip(hist, res)):
        lines.append(step_line(0, i + 1, q, r))
        if r.get("ans_d"):
            ansval[r["ans_d"]] = r.get("ans")
        j = {"qs": q, "slim": True, "reset": True, "st": True}
        if a0 != "none":
            j["preset"] = ansval[a0]
        fr = evalkit.run_eval([j], ctx="bundled", timeout_ms=20000, shards=1, tag="c15rf", ans=save)[0]
        e = step_line(-1, 0, q, fr)
        e["ev"] = "fresh"
        e["a0"] = a0
        fresh.append(e)
        log("step %d %-24r kind=%-10s ans_after=%s   fresh: kind=%s same_reply=%s" % (
            i + 1, q, obs_kind(r), r.get("ans_d"), obs_kind(fr), fr.get("rd") == r.get("rd")))
        a0 = r.get("ans_d") or "none"
    got = []
    run = vlib.Run(PROP, "quick", seed, "model_checking")
    n = validate_lines(run, lines + fresh, "replay", lambda b, w: got.append((w, b.get("i"), b.get("q"))), max_rej=1)
    log("trace %s %s" % ("rejected" if n else "accepted", got))
    return 1 if n else 0
