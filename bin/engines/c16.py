"""C16 - substance properties scale linearly and invert; molar masses of formulas.

Legs (DESIGN.md section 4, C16):
  V  centred on the real database: from `rv-eval dump bundled` every substance x property; seeded rational
     amounts in the property's input and output dimensionality (written in base units or a named unit of
     the dump), the inverse question with the exact result of the forward one, amounts of a wrong
     dimensionality, bare counts; replies of `a S`, `k * (a S)`, `(a S) / k`, `k * S`, `S / k`, and
     conversions `a S -> unit`.  The judge Trace_Subst.tla parses each text, applies the Law of
     Substance.tla to the dumped property records with BigNum arithmetic and compares.
  G  formulas: TLC (MC_FormulaGen) enumerates the strings of up to 3 tokens over 8 symbols x 9 count
     spellings, plus near-misses; the judge computes the molar mass with Formula.tla or "not a formula";
     whether a string is an ordinary name of the database is told from the dump.
"""
import concurrent.futures as cf
import json
import os
import random
import re
from fractions import Fraction

import evalkit
import vlib
from vlib import log

PROP = "C16"

SYMS = ["H", "He", "C", "O", "Na", "Cl", "Fe", "U"]
COUNTS = ["", "1", "2", "10", "4294967295", "4294967296", "100000000000", "0", "007"]
NEAR = ["h2o", "H2o", "Xx", "2H", "H-2", "HHe2", "H2O", "NH3", "CO2", "Co2", "cO", "H_2", "HH", "Uue", "H 2", "H2.5",
        "C8H10N4O2", "NaCl", "Fe2O3", "H99999999999", "C6H12O6", "Hee", "HeH", "He2e", "CH4", "UO2", "Zz9", "H+", "(H2)", "H2O2"]
NAMED_UNITS = ["liter", "gallon", "gram", "pound", "ounce", "joule", "calorie", "btu", "inch", "foot", "mile", "hour", "minute",
               "cm", "mm", "km", "kelvin", "mole", "pascal", "bar", "psi", "watt", "newton", "tonne", "ml", "cc", "kWh", "eV", "day"]


def s_of(cp):
    return "".join(chr(c) for c in cp)


def nat(limbs):
    r = 0
    for x in reversed(limbs):
        r = r * 4096 + x
    return r


def frac_of(v):
    n = nat(v["n"]["mag"])
    return Fraction(-n if v["n"]["neg"] else n, nat(v["d"]))


def dims_of(d):
    return tuple(sorted((s_of(x["u"]), x["e"]) for x in d))


def unit_expr(dims):
    """a dimensionality written in base units, e.g. kg m^-1 s^-2 (value 1)"""
    pos = ["%s%s" % (u, "" if e == 1 else "^%d" % e) for u, e in dims if e > 0]
    neg = ["%s^%d" % (u, e) for u, e in dims if e < 0]
    return " ".join(pos + neg)


def amount_text(fr):
    if fr.denominator == 1:
        return "%d" % fr.numerator if fr >= 0 else "(%d)" % fr.numerator
    return "(%d|%d)" % (fr.numerator, fr.denominator)


def rand_amount(rng, zero_ok):
    r = rng.random()
    if zero_ok and r < 0.012:
        return Fraction(0)
    if r < 0.30:
        v = Fraction(rng.randint(1, 60))
    elif r < 0.75:
        v = Fraction(rng.randint(1, 999), rng.randint(1, 97))
    elif r < 0.9:
        v = Fraction(rng.randint(1, 10 ** 6), 10 ** rng.randint(1, 9))
    else:
        v = Fraction(rng.getrandbits(70) + 1, rng.getrandbits(40) + 1)
    if rng.random() < 0.15:
        v = -v
    return v


class Db:
    def __init__(self, dump):
        self.dump = dump
        self.subst = []
        for s in dump["substances"]:
            props = []
            ok = s["amount"]["t"] == "num"
            for p in s["props"]:
                if p["input"]["t"] != "num" or p["output"]["t"] != "num":
                    ok = False
                    break
                props.append({"key": p["s"], "in_name": s_of(p["input_name"]), "out_name": s_of(p["output_name"]),
                              "I": frac_of(p["input"]["v"]), "Id": dims_of(p["input"]["d"]),
                              "O": frac_of(p["output"]["v"]), "Od": dims_of(p["output"]["d"])})
            if ok:
                self.subst.append({"name": s["s"], "A": frac_of(s["amount"]["v"]), "Ad": dims_of(s["amount"]["d"]), "props": props})
        # named units with an exact value, by dimensionality
        self.named = {}
        byname = {u["s"]: u for u in dump["units"]}
        for n in NAMED_UNITS:
            u = byname.get(n)
            if u and u["val"]["t"] == "num":
                self.named.setdefault(dims_of(u["val"]["d"]), []).append((n, frac_of(u["val"]["v"])))

    def unit_for(self, rng, dims, named_ok=True):
        """(text, value in base units) of a unit expression with these dimensions"""
        if named_ok and dims in self.named and rng.random() < 0.35:
            return rng.choice(self.named[dims])
        return unit_expr(dims), Fraction(1)


def subst_file(dump):
    path = vlib.workfile("c16subst.json")
    with open(path, "w") as f:
        json.dump({"substances": [{"name": s["name"], "amount": s["amount"],
                                   "props": [{k: p[k] for k in ("name", "input", "input_name", "output", "output_name")} for p in s["props"]]}
                                  for s in dump["substances"]],
                   "symbols": [{"sym": x["sym"], "name": x["name"]} for x in dump["symbols"]]}, f)
    return path


def gen_property_cases(db, rng, per_dir, thorough):
    """V-centred queries. Each case: dict(q, leg, substance, prop, ...)."""
    cases = []

    def add(q, leg, s, p=None, **kw):
        c = {"q": q, "leg": leg, "substance": s["name"], "prop": p["key"] if p else None}
        c.update(kw)
        cases.append(c)

    for s in db.subst:
        stored_bare = s["Ad"] == ()
        in_dims = []
        for p in s["props"]:
            for _ in range(per_dir):
                a = rand_amount(rng, True)
                k = rand_amount(rng, False)
                z = a == 0
                if stored_bare and p["Id"] != ():
                    # forward: output name of an amount in the input's dimension
                    ut, uv = db.unit_for(rng, p["Id"])
                    amt = "%s %s %s" % (amount_text(a), ut, s["name"])
                    add("%s of (%s)" % (p["out_name"], amt), "forward", s, p, zero_amount=z)
                    # inverse: the exact result of the forward question, asked for the input name
                    res = p["O"] * (a * uv / p["I"])
                    if p["Od"] != ():
                        add("%s of (%s %s %s)" % (p["in_name"], amount_text(res), unit_expr(p["Od"]), s["name"]), "inverse", s, p, zero_amount=z)
                    # an amount of a wrong dimensionality
                    wrong = dict(p["Id"])
                    extra = rng.choice(["s", "K", "m", "kg"])
                    wrong[extra] = wrong.get(extra, 0) + rng.choice([1, -1, 2])
                    wd = tuple(sorted((u, e) for u, e in wrong.items() if e != 0))
                    if wd != () and wd != p["Id"]:
                        add("%s of (%s %s %s)" % (p["out_name"], amount_text(a if a != 0 else Fraction(1)), unit_expr(wd), s["name"]), "wrongdim", s, p, zero_amount=False)
                    if p["Id"] not in in_dims:
                        in_dims.append(p["Id"])
                        add(amt, "reply", s, p, zero_amount=z)
                        add("%s * (%s)" % (amount_text(k), amt), "scale", s, p, zero_amount=z)
                        add("(%s) / %s" % (amt, amount_text(k)), "scale", s, p, zero_amount=z)
                        if p["Od"] != ():
                            tt, tv = db.unit_for(rng, p["Od"])
                            add("%s -> %s" % (amt, tt), "convert", s, p, zero_amount=z)
                    # the bare substance asked by the property's name (a count of a ratio)
                    add("%s of (%s %s)" % (p["key"], amount_text(k), s["name"]), "barekey", s, p, zero_amount=False)
                elif stored_bare:
                    # a constant: input without dimension; amounts are counts
                    add("%s of (%s %s)" % (p["key"], amount_text(a), s["name"]), "forward", s, p, zero_amount=False)
                    # a constant asked by its key / output name of an amount that CARRIES a unit (the output's own dimension, or another one)
                    for wdd in ([p["Od"]] if p["Od"] != () else []) + [(("kg", 1),), (("s", 1),), (("mol", 1),)]:
                        if wdd == ():
                            continue
                        nm = rng.choice([p["key"], p["out_name"]])
                        add("%s of (%s %s %s)" % (nm, amount_text(a if a != 0 else Fraction(1)), unit_expr(wdd), s["name"]), "wrongdim", s, p, zero_amount=False)
                    if p["Od"] != ():
                        res = p["O"] * (a / p["I"])
                        add("%s of (%s %s %s)" % (p["in_name"], amount_text(res), unit_expr(p["Od"]), s["name"]), "inverse", s, p, zero_amount=z)
                        wrong = dict(p["Od"])
                        extra = rng.choice(["s", "K", "A"])
                        wrong[extra] = wrong.get(extra, 0) + 1
                        wd = tuple(sorted((u, e) for u, e in wrong.items() if e != 0))
                        if wd != ():
                            add("%s of (%s %s %s)" % (p["in_name"], amount_text(a if a != 0 else Fraction(1)), unit_expr(wd), s["name"]), "wrongdim", s, p, zero_amount=False)
                        if ("o", p["Od"]) not in in_dims:
                            in_dims.append(("o", p["Od"]))
                            amt = "%s %s %s" % (amount_text(res), unit_expr(p["Od"]), s["name"])
                            add(amt, "reply", s, p, zero_amount=z)
                            add("%s * (%s)" % (amount_text(k), amt), "scale", s, p, zero_amount=z)
                else:
                    # a unit that is an amount of a substance (stored amount has a dimension): make the
                    # total amount fit the property's input by a factor in the missing dimension
                    need = dict(p["Id"])
                    for u, e in s["Ad"]:
                        need[u] = need.get(u, 0) - e
                    nd = tuple(sorted((u, e) for u, e in need.items() if e != 0))
                    fac = "%s %s" % (amount_text(a), unit_expr(nd)) if nd else amount_text(a)
                    add("%s of ((%s) %s)" % (p["out_name"], fac, s["name"]), "forward", s, p, zero_amount=z, stored_amount=True)
                    add("%s of ((%s) %s)" % (p["in_name"], fac, s["name"]), "wrongdim", s, p, zero_amount=False, stored_amount=True)
        # the substance as such, and scaled by a number
        k = rand_amount(rng, False)
        add(s["name"], "reply", s, None, zero_amount=False, bare=True)
        add("%s * %s" % (amount_text(k), s["name"]), "scale", s, None, zero_amount=False, bare=True, ref=s["name"])
        add("%s / %s" % (s["name"], amount_text(k)), "scale", s, None, zero_amount=False, bare=True, ref=s["name"])
        if thorough:
            add("%s %s" % (amount_text(k), s["name"]), "scale", s, None, zero_amount=False, bare=True, ref=s["name"])
        # names that designate nothing
        add("no_such_property of (%s %s)" % (amount_text(k), s["name"]), "noprop", s, None, zero_amount=False)
    return cases


def gen_formulas(run, tier, seed):
    """TLC enumerates the formula candidates."""
    thorough = tier == "thorough"
    rng = random.Random(seed)
    plans = [("all2", SYMS, COUNTS, 2)]
    if thorough:
        plans.append(("all3", SYMS, COUNTS, 3))
    else:
        sy = rng.sample(SYMS, 5)
        co = [""] + rng.sample(COUNTS[1:], 3)
        plans.append(("sub3", sy, co, 3))
    texts = []
    for tag, syms, counts, maxtok in plans:
        mod = "Gen_c16f_%s_%d" % (tag, os.getpid())
        with open(os.path.join(vlib.SPEC, mod + ".tla"), "w") as f:
            f.write("---- MODULE %s ----\nEXTENDS MC_FormulaGen\nG_Syms == %s\nG_Counts == %s\n====\n" % (
                mod, evalkit.cpset(syms), evalkit.cpset(counts)))
        cfg = os.path.join(vlib.SPEC, mod + ".cfg")
        with open(cfg, "w") as f:
            f.write("SPECIFICATION Spec\nINVARIANT Emit\nCHECK_DEADLOCK FALSE\nCONSTANTS\n  MaxTok = %d\n  Syms <- G_Syms\n  Counts <- G_Counts\n" % maxtok)
        try:
            r = vlib.tlc(mod, cfg, workers=1, timeout=2400, coverage=True, tag="c16g", xmx="8g")
        finally:
            for ext in (".tla", ".cfg"):
                try:
                    os.unlink(os.path.join(vlib.SPEC, mod + ext))
                except OSError:
                    pass
        vlib.require_ok(r, "MC_FormulaGen " + tag)
        run.add_tlc(r, "MC_FormulaGen " + tag)
        if r.coverage.get("AddToken", (0, 0))[1] == 0:
            raise vlib.ToolError("vacuity gate: AddToken never taken (%s)" % tag)
        got = ["".join(chr(c) for c in json.loads(ln[6:-1])) for ln in r.stdout.splitlines() if ln.startswith('"CASE [') and ln.endswith(']"')]
        expect = sum((len(syms) * len(counts)) ** k for k in range(1, maxtok + 1))
        if len(set(got)) != expect:
            raise vlib.ToolError("formula generator printed %d strings, expected %d" % (len(set(got)), expect))
        texts += got
    seen = set()
    out = []
    for t in texts + NEAR:
        if t not in seen:
            seen.add(t)
            out.append(t)
    return out


_line_re = re.compile(r'^<<"(REJECT|ASTDIFF|SILENT|CRASH|UNSUPPORTED|NOTE)", (\d+)(?:, (.*))?>>$')


def judge(events, envs, shards, tag, min_per_shard=150, timeout=3000):
    """Trace_Subst on the events (sharded); returns ({idx: {tag: text}}, stats)."""
    if not events:
        return {}, {"distinct": 0, "generated": 0}
    shards = max(1, min(shards, (len(events) + min_per_shard - 1) // min_per_shard))
    bounds = [(len(events) * i // shards, len(events) * (i + 1) // shards) for i in range(shards)]

    def one(i):
        lo, hi = bounds[i]
        path = vlib.workfile("%s-%d.ndjson" % (tag, i))
        vlib.write_ndjson(path, events[lo:hi])
        e = dict(envs, TRACE=path)
        r = vlib.tlc("Trace_Subst", "Trace_Subst", workers=1, timeout=timeout, env=e, deque=True, tag=tag, xmx="5g")
        if getattr(r, "timed_out", False):
            raise vlib.ToolError("judge Trace_Subst timed out")
        if not r.ok or r.distinct != (hi - lo) + 1:
            log(r.stdout[-3000:])
            raise vlib.ToolError("judge Trace_Subst did not consume every line (%d of %d)" % (r.distinct - 1, hi - lo))
        out = {}
        for ln in r.stdout.splitlines():
            m = _line_re.match(ln)
            if m:
                out.setdefault(lo + int(m.group(2)) - 1, {})[m.group(1)] = m.group(3) or ""
        os.unlink(path)
        return out, r

    verdicts = {}
    stats = {"distinct": 0, "generated": 0}
    with cf.ThreadPoolExecutor(max_workers=shards) as ex:
        for out, r in ex.map(one, range(shards)):
            verdicts.update(out)
            stats["distinct"] += r.distinct
            stats["generated"] += r.generated
    return verdicts, stats


def decide(run, cases, envs, shards, label, counters):
    """evaluate the cases with the real code, judge, record violations"""
    import time
    t0 = time.time()
    res = evalkit.run_eval([{"qs": c["q"]} for c in cases], ctx="bundled", timeout_ms=10000, shards=shards, tag="c16" + label)
    refs = sorted(set(c["ref"] for c in cases if c.get("ref")))
    refobs = {}
    if refs:
        rr = evalkit.run_eval([{"qs": q} for q in refs], ctx="bundled", timeout_ms=10000, shards=shards, tag="c16r" + label)
        for q, r in zip(refs, rr):
            if "crash" not in r:
                refobs[q] = evalkit.slim_event(r, keep_parts=True)["obs"]
    events = []
    for c, r in zip(cases, res):
        ev = evalkit.slim_event(r, keep_parts=True)
        if c.get("ref") in refobs:
            ev["ref"] = refobs[c["ref"]]
        events.append(ev)
    t1 = time.time()
    verdicts, st = judge(events, envs, shards, "c16j" + label)
    run.cov["states"] += st["distinct"]
    run.cov["transitions"] += st["generated"]
    run.traces(len(events))
    nast = 0
    for i, (c, r) in enumerate(zip(cases, res)):
        run.count()
        v = verdicts.get(i, {})
        leg = c["leg"]
        cnt = counters.setdefault(leg, {"n": 0, "silent": 0, "decided": 0})
        cnt["n"] += 1
        if "ASTDIFF" in v:
            nast += 1
            if nast <= 3:
                run.drift_note("Grammar", "the code's AST differs from the specification's parse of %r" % c["q"])
        if "SILENT" in v or "UNSUPPORTED" in v:
            cnt["silent"] += 1
            continue
        cnt["decided"] += 1
        obs = r.get("obs") or {}
        kind = "crash" if "crash" in r else obs.get("t")
        cnt[kind] = cnt.get(kind, 0) + 1
        if obs.get("t") == "err" and obs.get("c") == "conformance":
            cnt["conformance"] = cnt.get("conformance", 0) + 1
        run.nontrivial((leg, c.get("substance"), c.get("prop"), c["q"]) if leg != "formula" else ("formula", c["q"]))
        if "REJECT" in v or "CRASH" in v:
            case = {"engine": "subst", "leg": leg, "q": c["q"], "substance": c.get("substance"), "prop": c.get("prop"),
                    "zero_amount": bool(c.get("zero_amount")), "crash": r.get("crash"), "reply": kind,
                    "msg": obs.get("msg") if isinstance(obs.get("msg"), str) else r.get("msg")}
            allows = v.get("REJECT") or "a reply (the specification determines: %s)" % (
                "not a formula / its molar mass" if leg == "formula" else "target * (a / source), a conformance error, or the scaled reply")
            run.violation(case, allows[:2000], (r.get("obs") if "crash" not in r else {k: r.get(k) for k in ("crash", "msg", "signal")}), "subst")
    log("[C16] leg %s: %d queries, eval %.1fs judge %.1fs" % (label, len(cases), t1 - t0, time.time() - t1))
    return res, events, verdicts


def run(tier, seed):
    run = vlib.Run(PROP, tier, seed, "model_checking")
    thorough = tier == "thorough"
    run.cov["rule"] = ("V: every substance x property of the bundled database (exhaustive) x seeded rational amounts (%d per direction) in the "
                       "input and output dimensionality, the inverse question with the exact forward result, wrong dimensionalities, bare counts, "
                       "replies of `a S`, `k * (a S)`, `(a S) / k`, `k * S`, `S / k`, conversions `a S -> unit`. G: all formula strings of <= 3 tokens "
                       "(quick: all of <= 2 tokens + 3 tokens over a seeded sub-alphabet) over {H, He, C, O, Na, Cl, Fe, U} x 9 count spellings, "
                       "plus near-misses, each as `molar_mass of X` and as `X`. non-trivial = distinct query the specification decides "
                       "(names unambiguous within the substance; silent cases are counted apart)." % (8 if thorough else 2))
    run.assumptions += [
        "the property records (input, output, names, stored amount) and unit values are those of the loaded registry (rv-eval dump); "
        "all algebra on top of them is the specification's (BigNum)",
        "harness trusted for: string <-> code points, num-bigint <-> base-4096 limbs, the field-by-field registry dump",
        "a bare substance reports ratio-shaped properties per unit of input: unscaled and count-scaled are both accepted (the statement's amounts are in the input's dimensionality)",
    ]
    vlib.build_harness()
    rng = random.Random(seed)
    dump = evalkit.registry_dump("bundled")
    db = Db(dump)
    envs = {"ENVFILE": evalkit.env_file(dump, "c16env"), "SUBSTFILE": subst_file(dump)}
    shards = 14 if thorough else 8
    counters = {}

    # ---- V: substances x properties
    cases = gen_property_cases(db, rng, 8 if thorough else 2, thorough)
    nprops = sum(len(s["props"]) for s in db.subst)
    if len(db.subst) < 200 or nprops < 500:
        raise vlib.ToolError("vacuity gate: the dump holds only %d substances / %d properties" % (len(db.subst), nprops))
    run.note("database", {"substances": len(db.subst), "properties": nprops,
                          "stored_amount_not_1": [s["name"] for s in db.subst if s["A"] != 1 or s["Ad"] != ()]})
    res, events, verdicts = decide(run, cases, envs, shards, "v", counters)
    for leg in ("forward", "inverse", "wrongdim", "scale", "convert"):
        run.sample({"leg": leg, "q": next(c["q"] for c in cases if c["leg"] == leg)}, cap=12)

    # ---- G: formulas
    ftexts = gen_formulas(run, tier, seed)
    fcases = []
    for t in ftexts:
        fcases.append({"q": "molar_mass of %s" % t, "leg": "formula", "text": t})
        fcases.append({"q": t, "leg": "formula", "text": t})
    fres, fevents, fverdicts = [], [], {}
    CH = 60000                      # bounded memory: the thorough tier has ~750 000 formula queries
    for c0 in range(0, len(fcases), CH):
        r_, e_, v_ = decide(run, fcases[c0:c0 + CH], envs, shards, "f", counters)
        if c0 == 0:
            fres, fevents, fverdicts = r_, e_, v_       # the self-check below picks from the first chunk
    run.sample({"leg": "formula", "q": fcases[len(fcases) // 2]["q"]}, cap=12)
    run.note("legs", counters)

    # vacuity gates on what was actually decided
    need = {"forward": 400, "inverse": 300, "wrongdim": 300, "scale": 300, "convert": 100, "formula": 3000}
    for leg, n in need.items():
        if counters.get(leg, {}).get("decided", 0) < n:
            raise vlib.ToolError("vacuity gate: leg %s decided only %d queries" % (leg, counters.get(leg, {}).get("decided", 0)))
    if counters["wrongdim"].get("conformance", 0) < 200 and not run.violations:
        raise vlib.ToolError("vacuity gate: fewer than 200 conformance refusals observed")
    if counters["formula"].get("num", 0) < 1000 and not run.violations:
        raise vlib.ToolError("vacuity gate: fewer than 1000 molar masses decided")

    # ---- the binding is not vacuous: corrupted observations must be rejected
    picks = []
    for want in ("forward", "scale", "formula"):
        for i, c in enumerate(cases if want != "formula" else fcases[:len(fevents)]):
            evs, vd = (events, verdicts) if want != "formula" else (fevents, fverdicts)
            o = evs[i]["obs"]
            if c["leg"] == want and not vd.get(i) and ((want == "scale" and o.get("t") == "subst" and len(o.get("props", [])) >= 2)
                                                       or (want != "scale" and o.get("t") == "num" and o["v"]["n"]["mag"])):
                ev = json.loads(json.dumps(evs[i]))
                if want == "scale":
                    if not o["props"][-1]["value"].get("raw", {}).get("v", {}).get("n", {}).get("mag"):
                        continue
                    ev["obs"]["props"][-1]["value"]["raw"]["v"]["n"]["mag"][0] ^= 1
                else:
                    ev["obs"]["v"]["n"]["mag"][0] ^= 1
                picks.append(ev)
                break
    if len(picks) < 3:
        raise vlib.ToolError("self-check: no accepted observation to corrupt")
    cv, _ = judge(picks, envs, 1, "c16self", min_per_shard=10)
    if any("REJECT" not in cv.get(i, {}) for i in range(len(picks))):
        raise vlib.ToolError("self-check: a corrupted observation was not rejected by Trace_Subst (%s)" % cv)
    run.note("selfcheck_corrupted_observations_rejected", len(picks))
    return run.finish()


def replay(path, seed):
    body = json.load(open(path))
    q = body["case"]["q"]
    vlib.build_harness()
    dump = evalkit.registry_dump("bundled")
    envs = {"ENVFILE": evalkit.env_file(dump, "c16env"), "SUBSTFILE": subst_file(dump)}
    jobs = [{"qs": q}]
    sub = body["case"].get("substance")
    if sub:
        jobs.append({"qs": sub})
    res = evalkit.run_eval(jobs, ctx="bundled", shards=1, tag="c16r")
    ev = evalkit.slim_event(res[0], keep_parts=True)
    if sub and "crash" not in res[1]:
        ev["ref"] = evalkit.slim_event(res[1], keep_parts=True)["obs"]
    v, _ = judge([ev], envs, 1, "c16rj", min_per_shard=10)
    log("query: %r\nobserved: %s\nverdict: %s" % (q, json.dumps(res[0].get("obs", res[0]))[:600], v.get(0) or "ACCEPT"))
    return 1 if set(v.get(0, {})) & {"REJECT", "CRASH"} else 0
