"""C01 - exact arithmetic. TLC enumerates query texts (precedence sweep, tree sweep, literal sweep),
the real evaluator runs them, and the judge specification (Lexer + Grammar + Eval over BigNum) recomputes
every value with its own unbounded arithmetic. Plus seeded random big-operand trees."""
import json
import random

import evalkit
import vlib
from vlib import log

PROP = "C01"

BINOPS_ALL = ["+", "-", "*", "/", "|", "^", "**", "mod", "<<", ">>", "and", "or", "xor", "per"]
BINOPS_CORE = ["+", "-", "*", "/", "|", "^", "mod", "<<", ">>", "and", "or", "xor"]
LIT_POOL = ["0", "1", "2", "3", "7", "1|2", "0.25", "1e2", "1.5e-1", "0x10", "0o17", "0b101", "1_000",
            "63", "64", "2147483648", "18446744073709551617", "-3", "-1|3", "0.1", "10", "5", "6e-3", "0xFf"]


def bignum_selftest(run):
    r = vlib.tlc("MC_BigNum", "MC_BigNum", workers=1, timeout=600, tag="bn")
    vlib.require_ok(r, "MC_BigNum")
    if '<<"BIGNUM_SELFTEST", TRUE, TRUE, TRUE>>' not in r.stdout:
        raise vlib.ToolError("BigNum self-test did not report TRUE/TRUE/TRUE")
    run.note("bignum_selftest", "BigNum.tla agrees with TLC native integers and identities on 800-bit values")


def rand_literal(rng, bits):
    n = rng.getrandbits(rng.randint(1, bits))
    kind = rng.randint(0, 7)
    if kind == 0:
        return hex(n)
    if kind == 1:
        return "0o%o" % n
    if kind == 2:
        return "0b" + bin(n)[2:]
    if kind == 3:
        s = str(n)
        if len(s) > 3:
            k = rng.randint(1, len(s) - 1)
            return s[:k] + "." + s[k:]
        return s
    if kind == 4:
        return "%de%d" % (n, rng.randint(-30, 30))
    if kind == 5:
        s = str(n)
        return "_".join(s[i:i + 3] for i in range(0, len(s), 3))
    if kind == 6:
        return "%d|%d" % (n, rng.getrandbits(rng.randint(1, bits)) + 1)
    return str(n)


def rand_tree(rng, depth, bits):
    if depth == 0 or rng.random() < 0.25:
        return rand_literal(rng, bits)
    r = rng.random()
    if r < 0.08:
        return "(-%s)" % rand_tree(rng, depth - 1, bits)
    op = rng.choice(["+", "-", "*", "/", "|", "mod", "and", "or", "xor", "+", "-", "*", "/", " ", "<<", ">>", "^"])
    a = rand_tree(rng, depth - 1, bits)
    if op == "^":
        return "(%s ^ %d)" % (a, rng.randint(-4, 6))
    if op in ("<<", ">>"):
        return "(%s %s %d)" % (a, op, rng.randint(0, 70))
    if op in ("and", "or", "xor"):
        # integer operands (possibly negative)
        x = rng.getrandbits(rng.randint(1, bits))
        y = rng.getrandbits(rng.randint(1, bits))
        sx = "-" if rng.random() < 0.3 else ""
        sy = "-" if rng.random() < 0.3 else ""
        return "((%s%d) %s (%s%s))" % (sx, x, op, sy, hex(y))
    b = rand_tree(rng, depth - 1, bits)
    if op == "|":
        return "(%s / %s)" % (a, b)
    return "(%s %s %s)" % (a, op, b)


_INNER = None


def statically_huge(t):
    """A power or shift whose exponent / count is itself a power or shift of integer literals above 5000: the specification is
    silent on these (PowCostOK / ShiftCostOK) and the code needs seconds to minutes for them, so they are not evaluated
    at all (each would cost one watchdog period). Only this one shape is skipped; anything else is run."""
    import re
    global _INNER
    if _INNER is None:
        lit = r"(-?(?:0x[0-9A-Fa-f]+|0o[0-7]+|0b[01]+|\d[\d_]*))"
        _INNER = re.compile(r"(?:\^|<<|>>) \(" + lit + r" (\^|<<) " + lit + r"\)\)$")
    m = _INNER.search(t)
    if not m:
        return False

    def val(x):
        x = x.replace("_", "")
        neg = x.startswith("-")
        x = x.lstrip("-")
        v = int(x, 16) if x.startswith("0x") else int(x[2:], 8) if x.startswith("0o") else int(x[2:], 2) if x.startswith("0b") else int(x)
        return -v if neg else v
    a, op, b = val(m.group(1)), m.group(2), val(m.group(3))
    if b < 0 or b > 64 or abs(a) < 2:
        return False
    return abs(a ** b if op == "^" else a << b) > 5000


def statically_huge_flat(t):
    """the same for unparenthesised strings over small integer literals: a right-associative power chain whose upper part
    exceeds 5000 used as an exponent or as a shift count (`5 ^ 3 ^ 2 ^ 7`, `5 << 3 ^ 2 ^ 7`)"""
    toks = t.split(" ")
    i = 0
    while i < len(toks):
        if toks[i] in ("^", "**", "<<", ">>") and i + 1 < len(toks):
            # the power chain that starts right after this operator
            j, chain = i + 1, []
            while j < len(toks) and (len(chain) == 0 or toks[j - 1] in ("^", "**")):
                try:
                    chain.append(int(toks[j]))
                except ValueError:
                    chain = []
                    break
                j += 2
                if j - 1 >= len(toks) or toks[j - 1] not in ("^", "**"):
                    break
            if len(chain) >= 2:
                v = chain[-1]
                for b in reversed(chain[:-1]):
                    if abs(b) < 2 or v < 0:
                        v = 1
                        break
                    if v > 64:
                        return True
                    v = b ** v
                if abs(v) > 5000:
                    return True
        i += 1
    return False


def decide(run, texts, leg, shards, timeout_ms=4000, min_per_shard=300, eval_shards=None):
    import time
    t0 = time.time()
    jobs = [{"qs": t} for t in texts]
    res = evalkit.run_eval(jobs, ctx="empty", timeout_ms=timeout_ms, shards=eval_shards or shards, tag="c01" + leg)
    t1 = time.time()
    events = [evalkit.slim_event(r) for r in res]
    verdicts, st = evalkit.judge(events, "Trace_Eval", shards=shards, tag="c01j" + leg, min_per_shard=min_per_shard)
    log("[C01] leg %s: eval %.1fs judge %.1fs" % (leg, t1 - t0, time.time() - t1))
    run.cov["states"] += st["distinct"]
    run.cov["transitions"] += st["generated"]
    run.traces(len(events))
    nsilent = nast = 0
    for i, ev in enumerate(events):
        run.count()
        v = verdicts.get(i, set())
        q = texts[i]
        if "SILENT" in v or "UNSUPPORTED" in v:
            nsilent += 1
            continue
        if any(c in q for c in "+-*/|^<>") or " " in q.strip() or any(w in q for w in ("mod", "and", "or", "per")):
            run.nontrivial(q)
        if "ASTDIFF" in v:
            nast += 1
            if nast <= 3:
                run.drift_note("Grammar", "the code's AST differs from the specification's parse of %r" % q)
        if "REJECT" in v or "CRASH" in v:
            obs = ev["obs"]
            run.violation({"engine": "eval", "leg": leg, "q": q, "obs_kind": obs.get("t"), "crash": obs.get("c") if obs.get("t") == "crash" else None},
                          "the exact rational value of the expression, or an error where it is undefined",
                          res[i].get("obs", {k: res[i].get(k) for k in ("crash", "msg", "signal")}), "eval")
    log("[C01] leg %s: %d texts, %d silent, %d astdiff, %.1fs" % (leg, len(texts), nsilent, nast, time.time() - t0))
    return nsilent, nast


def run(tier, seed):
    run = vlib.Run(PROP, tier, seed, "model_checking")
    thorough = tier == "thorough"
    run.cov["rule"] = ("TLC enumerates query texts (flat precedence strings over every binary operator spelling; fully parenthesised "
                       "trees over a boundary literal alphabet rotated by the seed; literal spellings over a character alphabet); plus "
                       "seeded random trees with operands of hundreds to thousands of bits. non-trivial = distinct text containing an "
                       "operator whose value the specification determines (not silent).")
    run.assumptions += ["harness trusted for: string <-> code points, num-bigint <-> base-4096 limbs",
                        "TLC integers are used only for exponents/indices; every value uses BigNum.tla (self-tested each run)"]
    vlib.build_harness()
    bignum_selftest(run)
    shards = 12 if thorough else 8
    rng = random.Random(seed)

    # G1: precedence sweep (flat strings)
    chain = ["5", "3", "2", "7", "11"]
    t1, r1 = evalkit.gen_cases("c01flat", "flat", binops=BINOPS_ALL, maxbin=4 if thorough else 3, chain=chain, signs=[""])
    run.add_tlc(r1, "MC_ExprGen flat")
    t1b, r1b = evalkit.gen_cases("c01flats", "flat", binops=BINOPS_CORE, maxbin=2, chain=chain, signs=["", "-", "+"])
    run.add_tlc(r1b, "MC_ExprGen flat signed")
    flat = [t for t in t1 + t1b if not statically_huge_flat(t)]
    run.note("flat_texts_not_evaluated_statically_huge", len(t1) + len(t1b) - len(flat))
    s1, a1 = decide(run, flat, "flat", shards, timeout_ms=3000)
    run.sample({"leg": "flat", "q": t1[len(t1) // 2]})

    # G2: tree sweep over a rotated literal alphabet
    pool = LIT_POOL[:]
    rng.shuffle(pool)
    lits = pool[:8 if thorough else 6]
    t2, r2 = evalkit.gen_cases("c01tree", "tree", lits=lits, binops=BINOPS_CORE, maxbin=2, maxun=0)
    run.add_tlc(r2, "MC_ExprGen tree")
    if thorough:
        t2c, r2c = evalkit.gen_cases("c01tree3", "tree", lits=pool[8:11], binops=["+", "-", "/", "^", "mod", "<<", "and", "xor"], maxbin=3, maxun=0)
        run.add_tlc(r2c, "MC_ExprGen tree3")
        t2 = t2 + t2c
    t2u, r2u = evalkit.gen_cases("c01treeu", "tree", lits=lits[:4], binops=BINOPS_CORE, unops=["-", "+"], maxbin=1, maxun=2)
    run.add_tlc(r2u, "MC_ExprGen tree unary")
    tree = [t for t in t2 + t2u if not statically_huge(t)]
    run.note("tree_texts_not_evaluated_statically_huge", len(t2) + len(t2u) - len(tree))
    s2, a2 = decide(run, tree, "tree", shards)
    run.sample({"leg": "tree", "literals": lits, "q": t2[len(t2) // 3]})

    # G3: literal spellings
    chars = ["0", "1", "9", "_", ".", "e", "E", "-", "+", "x", "b", "f"]
    t3, r3 = evalkit.gen_cases("c01lit", "chars", lits=chars[:10 if not thorough else 12], maxbin=4 if not thorough else 5)
    run.add_tlc(r3, "MC_ExprGen chars")
    t3 = [t for t in t3 if t[0] in "019."]
    s3, a3 = decide(run, t3, "lit", shards)
    run.sample({"leg": "lit", "q": t3[len(t3) // 2]})

    # exponent literals of equal magnitude and opposite sign, one after the other in ONE worker (the value of a literal must not
    # depend on which literals were read before), around every power-of-two exponent size up to the specification's ExpLimit
    tx = []
    for k in [1, 8, 31, 32, 63, 64, 65, 100, 128, 129, 257, 308]:
        for m in ["1", "25", "1.5", "0x1"]:
            if m == "0x1":
                continue
            tx += ["%se%d" % (m, k), "%se-%d" % (m, k), "%se-%d * %se%d" % (m, k, m, k), "%sE+%d" % (m, k), "%se-%d" % (m, k), "%se%d / %se-%d" % (m, k, m, k)]
    s5, a5 = decide(run, tx, "exponents", shards, min_per_shard=20, eval_shards=1)
    run.sample({"leg": "exponents", "q": tx[20]})

    # V: seeded random trees with big operands (sizes follow the measured cost of the TLA+ bignum)
    n_big = 3000 if thorough else 600
    tv = [rand_tree(rng, rng.randint(2, 5 if thorough else 4), 512 if thorough else 256) for _ in range(n_big)]
    # huge integer operands (no denominators): + - * mod and or xor shifts
    for _ in range(300 if thorough else 40):
        bits = rng.choice([2000, 3000, 4000]) if thorough else 2000
        a, b, c = (rng.getrandbits(bits) for _ in range(3))
        op1 = rng.choice(["+", "-", "*", "mod", "and", "or", "xor"])
        op2 = rng.choice(["+", "-", "mod", "and", "or", "xor", "<<", ">>"])
        rhs = str(rng.randint(0, 90)) if op2 in ("<<", ">>") else hex(c | 1)
        tv.append("((%s%d %s %s) %s %s)" % (rng.choice(["", "-"]), a, op1, hex(b | 1), op2, rhs))
    s4, a4 = decide(run, tv, "big", 16 if thorough else 14, timeout_ms=20000, min_per_shard=8)
    run.sample({"leg": "big", "q": tv[0][:300]})
    run.note("silent_cases", {"flat": s1, "tree": s2, "lit": s3, "big": s4})
    run.note("ast_differences", a1 + a2 + a3 + a4)

    # the binding is not vacuous: a corrupted observation must be rejected
    res = evalkit.run_eval([{"qs": "(1|3 + 0x10) * 3"}], ctx="empty", tag="c01self")
    ev = evalkit.slim_event(res[0])
    ev["obs"]["v"]["n"]["mag"][0] += 1
    verdicts, _ = evalkit.judge([ev], "Trace_Eval", shards=1, tag="c01selfj")
    if "REJECT" not in verdicts.get(0, set()):
        raise vlib.ToolError("self-check: corrupted observation was not rejected by Trace_Eval")
    run.note("selfcheck_corrupted_observation_rejected", True)
    return run.finish()


def replay(path, seed):
    body = json.load(open(path))
    q = body["case"]["q"]
    vlib.build_harness()
    res = evalkit.run_eval([{"qs": q}], ctx="empty", tag="c01r")
    ev = evalkit.slim_event(res[0])
    verdicts, _ = evalkit.judge([ev], "Trace_Eval", shards=1, tag="c01rj")
    log("query: %r\nobserved: %s\nverdict: %s" % (q, json.dumps(res[0].get("obs", res[0]))[:500], verdicts.get(0, {"ACCEPT"})))
    return 1 if verdicts.get(0, set()) & {"REJECT", "CRASH"} else 0
