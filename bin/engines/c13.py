"""C13 - loading arbitrary definition text is safe and reports its problems.

Legs (DESIGN.md section 4, C13):
  M  model checking of the resolver (Loader.tla) on every dependency graph over 3-5 named definitions of every kind
     (self loops, 2-cycles, longer cycles, cycles through prefixes, quantities and substance properties):
     CycleReported, TopoOrder, TemporariesEmpty, Progress (decreasing measure), <>Done.  The graphs of the quick
     configuration are rendered as text and loaded by the real code: a cycle of the graph must be reported.
  a  DefGrammar.tla: TLC enumerates every token sequence up to 5 / 6 tokens over four token alphabets of the
     definitions syntax; every text is loaded in an isolated worker (catch_unwind, time limit, 8 MiB stack).
  b  synthetic alias chains and cycles of length 10 .. 4 000 through units, prefixes, quantities and substance
     properties (deep and shallow name orders), zero / negative / dimension-mismatched substance properties;
     chains of 10 000 and 20 000 as probes beyond the realistic sizes the property speaks of;
     chemical formulas: units, substance properties and queries written as formulas (`H2O`, `OH`, `2H`, `X2`, ...)
     over element substances with `!symbol`, in databases whose base units have other names than kg / mol and
     whose elements give molar_mass in another dimensionality, inverted, as a constant, as zero, or not at all.
  c  the bundled files under seeded line / token deletion, duplication and swapping; currency JSON truncated at
     every byte of the first 300 and at 200 random offsets, type-confused fields; mutated date pattern files.
Every recorded outcome is a line of a trace judged by Trace_Load.tla: Ok, or Err with messages, and a context that
still answers `1 + 1` and a name that did load; a crash (panic / abort / hang) matches no action of the spec.
"""
import json
import os
import random
import re

import evalkit
import loaderkit as lk
import vlib
from vlib import log

PROP = "C13"


def slim(res, built_cycle=False):
    """one rv-load jobs result -> one line for Trace_Load"""
    if "crash" in res:
        return {"k": res.get("kind", "defs"), "o": "crash", "n": 0, "e": False, "s": False, "m": False, "c": built_cycle, "r": False, "p": False}
    a = res.get("after", {})
    return {"k": res.get("kind", "defs"), "o": res["outcome"], "n": res.get("nmsg", 0), "e": bool(res.get("empty_text", False)),
            "s": bool(a.get("sum_ok")), "m": bool(a.get("name_ok", True)), "c": built_cycle, "r": bool(res.get("cycle_reported")),
            "p": bool(res.get("phantom"))}


class Leg:
    """collects jobs with their description, runs them, judges them"""

    def __init__(self, run, name):
        self.run = run
        self.name = name
        self.jobs = []
        self.meta = []

    def add(self, job, case, cycle=False, nontrivial=None):
        self.jobs.append(job)
        self.meta.append((case, cycle, nontrivial))

    def execute(self, shards=8, timeout_ms=20000, min_per_shard=20000):
        run = self.run
        if not self.jobs:
            return {}
        import time
        t0 = time.time()
        res = lk.run_load("jobs", self.jobs, shards=shards, tag="c13" + self.name, timeout_ms=timeout_ms)
        # a verdict resting on a time limit is re-run alone with a generous limit before it is believed
        confirmed = 0
        for i, r in enumerate(res):
            if r.get("crash") == "timeout" and confirmed < 6:     # once six hangs are confirmed alone the others are believed
                again = lk.run_load("jobs", [self.jobs[i]], shards=1, tag="c13retry", timeout_ms=timeout_ms * 4)[0]
                if again.get("crash") != "timeout":
                    res[i] = again
                else:
                    confirmed += 1
        t1 = time.time()
        events = [slim(r, cyc) for r, (_, cyc, _) in zip(res, self.meta)]
        verdicts, st = evalkit.judge(events, "Trace_Load", "Trace_Load", shards=shards, tag="c13j" + self.name, min_per_shard=min_per_shard)
        run.cov["states"] += st["distinct"]
        run.cov["transitions"] += st["generated"]
        run.traces(len(events))
        stats = {"ok": 0, "err": 0, "crash": 0}
        for i, (r, ev, (case, cyc, nt)) in enumerate(zip(res, events, self.meta)):
            run.count()
            stats[ev["o"]] = stats.get(ev["o"], 0) + 1
            if nt is not None:
                run.nontrivial(nt)
            if "REJECT" in verdicts.get(i, set()):
                c = dict(case)
                c["engine"] = self.name
                c["outcome"] = ev["o"]
                if "crash" in r:
                    c["crash"] = r["crash"]
                    c["msg"] = r.get("msg")
                    c["signal"] = r.get("signal")
                    allows = "Ok or Err(messages); never a panic, an abort or a hang"
                elif cyc and not ev["r"]:
                    allows = "the dependency cycle built into the text is reported"
                elif ev.get("p"):
                    allows = "a name whose definition failed (or was never given) does not answer after the load: %s" % r.get("phantom")
                elif not (ev["s"] and ev["m"]):
                    allows = "after the load the context answers `1 + 1` and a name that did load"
                else:
                    allows = "an error result carries at least one message"
                c["job"] = self.jobs[i] if len(json.dumps(self.jobs[i])) < 6000 else {k: v for k, v in self.jobs[i].items() if k != "defs"}
                run.violation(c, allows, {k: r.get(k) for k in ("outcome", "nmsg", "msgs", "crash", "msg", "signal", "after") if k in r}, self.name)
        log("[C13] leg %s: %d loads (%s), load %.1fs judge %.1fs" % (self.name, len(res), stats, t1 - t0, time.time() - t1))
        self.res = res
        return stats


# ---------------------------------------------------------------------------------------------------------
# M: the resolver model on all small dependency graphs, and the same graphs in the real code

def leg_model(run, thorough):
    plans = [("MC_LoaderGraph_q3", 4, 600), ("MC_LoaderGraph_q4", 6, 900)]
    if thorough:
        plans += [("MC_LoaderGraph_t5", 8, 2400), ("MC_LoaderGraph_t4", 8, 3000)]
    graphs = []
    for cfg, workers, to in plans:
        r = vlib.tlc("MC_LoaderGraph", cfg, workers=workers, timeout=to, tag="c13m", xmx="16g")
        if r.invariant_violated or not r.ok:
            log(r.stdout[-3000:])
            raise vlib.ToolError("design model %s does not satisfy its properties (%s)" % (cfg, r.invariant_violated))
        run.add_tlc(r, cfg)
        if cfg in ("MC_LoaderGraph_q3", "MC_LoaderGraph_q4"):
            graphs += vlib.tagged_json(r, "GRAPH")
    if not graphs:
        raise vlib.ToolError("graph generator printed no cases")
    ncyc = sum(1 for g in graphs if g["oncycle"])
    if ncyc == 0 or ncyc == len(graphs):
        raise vlib.ToolError("vacuity gate: the generated graphs are all cyclic or all acyclic")
    leg = Leg(run, "graph")
    for g in graphs:
        defs = sorted(g["defs"], key=lambda d: (d["kind"], d["name"]))
        text = "".join(lk.def_text(d) for d in defs)
        cyc = bool(g["oncycle"])
        leg.add({"defs": text, "allmsgs": True}, {"family": "graph", "text": text}, cycle=cyc,
                nontrivial=("graph:" + text) if cyc else None)
    leg.execute(shards=8)
    # which definition a cycle is reported for is the algorithm's choice: compare at drift level
    ndiff = 0
    for g, r in zip(graphs, leg.res):
        if "crash" in r:
            continue
        code = sorted(set(c[2] for c in (lk.classify_msg(m) for m in r.get("msgs", [])) if c[0] == "cycle"))
        modl = sorted(lk.s(n) for n in g["cyc"])
        if code != modl:
            ndiff += 1
            if ndiff <= 3:
                run.drift_note("Loader", "cycle reported for %s, the model reports %s: %r" % (code, modl, leg.jobs[graphs.index(g)]["defs"]))
    run.note("graphs", {"replayed": len(graphs), "cyclic": ncyc, "cycle_report_differences": ndiff})
    run.sample({"leg": "M", "text": leg.jobs[len(graphs) // 2]["defs"], "cyclic": bool(graphs[len(graphs) // 2]["oncycle"])})


# ---------------------------------------------------------------------------------------------------------
# a: token sequences

_case_re = re.compile(r'^<<"CASE", <<([0-9, ]*)>>>>$')


def leg_tokens(run, thorough):
    plan = [("def", 6 if thorough else 5), ("subst", 6 if thorough else 5), ("expr", 5 if thorough else 4), ("pragma", 5 if thorough else 4)]
    leg = Leg(run, "tokens")
    classes = {}
    for name, n in plan:
        cfg = "DefGrammar_%s%d" % (name, n)
        r = vlib.tlc("DefGrammar", cfg, workers=4, timeout=1800, tag="c13a", xmx="8g")
        vlib.require_ok(r, cfg)
        run.add_tlc(r, cfg)
        alpha = vlib.tagged_json(r, "ALPHABET")[0]
        toks = [lk.s(t["t"]) for t in alpha["tokens"]]
        cls = [t["c"] for t in alpha["tokens"]]
        pre, suf = lk.s(alpha["prefix"]), lk.s(alpha["suffix"])
        ncase = 0
        for ln in r.stdout.splitlines():
            m = _case_re.match(ln)
            if not m:
                continue
            idx = [int(x) for x in m.group(1).split(",")] if m.group(1).strip() else []
            text = pre + " ".join(toks[i - 1] for i in idx) + suf
            ncase += 1
            first = cls[idx[0] - 1] if idx else "empty"
            classes[(name, first)] = classes.get((name, first), 0) + 1
            leg.add({"defs": text}, {"family": "tokens", "alphabet": name, "text": text},
                    nontrivial=("t:%s:%s" % (name, m.group(1))) if len(idx) >= 2 else None)
        if ncase != r.distinct:
            raise vlib.ToolError("%s: %d cases printed for %d states" % (cfg, ncase, r.distinct))
    stats = leg.execute(shards=12 if thorough else 8, timeout_ms=10000)
    for name, n in plan:
        if sum(v for (a, c), v in classes.items() if a == name) == 0:
            raise vlib.ToolError("vacuity gate: alphabet %s produced no cases" % name)
    if stats.get("ok", 0) == 0 or stats.get("err", 0) == 0:
        raise vlib.ToolError("vacuity gate: token texts never %s" % ("load" if stats.get("ok", 0) == 0 else "fail"))
    run.note("token_texts", {"by_first_token_class": {"%s/%s" % k: v for k, v in sorted(classes.items())}, "outcomes": stats})
    run.sample({"leg": "a", "text": leg.jobs[len(leg.jobs) // 3]["defs"]})


# ---------------------------------------------------------------------------------------------------------
# b: chains, cycles, degenerate substance properties

def nm(prefix, i, width=4):
    """alphabetic names whose order is the order of i"""
    digits = []
    for _ in range(width):
        digits.append(chr(97 + i % 26))
        i //= 26
    return prefix + "".join(reversed(digits))


def chain_text(kind, n, deep, cyclic):
    """n definitions, each the alias of the next; deep: the chain runs along the name order, so that the
    depth-first resolver recurses through all of it; cyclic: the last one refers to the first."""
    idx = (lambda i: i) if deep else (lambda i: n - i)
    name = lambda i: nm("z", idx(i))
    out = []
    last = name(0) if cyclic else "bq"
    if kind == "unit":
        out.append("bq !\n")
        for i in range(n):
            out.append("%s %s\n" % (name(i), name(i + 1)))
        out.append("%s %s\n" % (name(n), last))
        head = name(0)
    elif kind in ("unit-plural", "unit-prefixed"):
        # every link goes through name resolution: the next unit is mentioned by its plural / with a prefix in front
        out.append("bq !\n")
        if kind == "unit-prefixed":
            out.append("kq- 1000\n")
        ref = (lambda x: x + "s") if kind == "unit-plural" else (lambda x: "kq" + x)
        for i in range(n):
            out.append("%s 2 %s\n" % (name(i), ref(name(i + 1))))
        out.append("%s 2 %s\n" % (name(n), ref(last) if cyclic else "bq"))
        head = name(0)
    elif kind == "prefix":
        for i in range(n):
            out.append("%s- %s\n" % (name(i), name(i + 1)))
        out.append("%s- %s\n" % (name(n), name(0) if cyclic else "7"))
        head = name(0)
    elif kind == "quantity":
        out.append("bq !\n")
        for i in range(n):
            out.append("%s ? %s\n" % (name(i), name(i + 1)))
        out.append("%s ? %s\n" % (name(n), last))
        head = None
    elif kind == "subst":
        # unit i is a property of substance i, whose property is given in terms of unit i + 1
        out.append("bq !\n")
        for i in range(n):
            out.append("%s pp of %s\n" % (name(i), nm("y", idx(i))))
            out.append("%s {\n  pp const cc 2 %s\n}\n" % (nm("y", idx(i)), name(i + 1)))
        out.append("%s %s\n" % (name(n), last))
        head = name(0)
    else:
        raise ValueError(kind)
    return "".join(out), head


FORMULA_BASES = {
    "kg-mol": ("kg !kilogram\nmol !mole\n", "kg", "mol"),
    "g-mol": ("g !gram\nmol !mole\n", "g", "mol"),
    "kg-n": ("kg !kilogram\nn !\n", "kg", "n"),
    "a-b": ("a !\nb !\n", "a", "b"),
    "mol-kg": ("mol !\nkg !\n", "mol", "kg"),                    # the names the code expects, the other way round
    "kg-mol-prefixed": ("kg !kilogram\nmol !mole\nk- 1000\ng 1|1000 kg\n", "g", "kmol"),
}
FORMULA_MOLAR = {
    # element number i (1, 2) -> the lines inside its `{ }`; X mass unit, Y amount unit
    "per-amount": lambda i, X, Y: "  molar_mass mass %d %s / amount 1000 %s\n" % (i * 15 - 14, X, Y),
    "inverted": lambda i, X, Y: "  molar_mass amount 1000 %s / mass %d %s\n" % (Y, i * 15 - 14, X),
    "constant": lambda i, X, Y: "  molar_mass const mm%d %d\n" % (i, i * 15 - 14),
    "mass-only": lambda i, X, Y: "  molar_mass const mm%d %d %s\n" % (i, i * 15 - 14, X),
    "other-dimension": lambda i, X, Y: "  molar_mass mass %d %s^2 / amount %s\n" % (i * 15 - 14, X, Y),
    "missing": lambda i, X, Y: "  weight const ww%d %d %s\n" % (i, i * 15 - 14, X),
    "mixed": lambda i, X, Y: ("  molar_mass mass 1 %s / amount 1000 %s\n" % (X, Y)) if i == 1 else ("  molar_mass mass 16 %s / amount %s^2\n" % (X, Y)),
    "second-missing": lambda i, X, Y: ("  molar_mass mass 1 %s / amount 1000 %s\n" % (X, Y)) if i == 1 else "  weight const ww 3\n",
    "zero": lambda i, X, Y: "  molar_mass mass 0 %s / amount %s\n" % (X, Y),
    "negative": lambda i, X, Y: "  molar_mass mass -%d %s / amount %s\n" % (i, X, Y),
    "empty": lambda i, X, Y: "",
}
FORMULAS = ["H", "O", "H2", "H2O", "OH", "HOH", "O2H2O", "H2O2H2", "X2", "HX", "Hx2", "H0", "2H", "H2O3X", "H99999999999", "H4294967296",
            "H4294967295O4294967295", "h2o", "H-2"]


def formula_texts():
    """(key, text, probes): element substances hy / ox with symbols H / O, one formula-defined unit (its name sorting before
    or after the elements), or the formula inside a substance property; the formula is also asked as a query"""
    for bk, (btext, X, Y) in FORMULA_BASES.items():
        for mk, lines in FORMULA_MOLAR.items():
            elements = "".join("!symbol %s %s\n%s {\n%s}\n" % (n, sym, n, lines(i, X, Y)) for i, (n, sym) in enumerate((("hy", "H"), ("ox", "O")), 1))
            for f in FORMULAS:
                for where in ("before", "after", "property"):
                    if where == "property":
                        use = "zs {\n  pp const cc 2 %s\n}\n" % f
                        name = "zs"
                    else:
                        name = "aq" if where == "before" else "zz"
                        use = "%s %s\n" % (name, f)
                    yield ("%s:%s:%s:%s" % (bk, mk, f, where), btext + elements + use + "x 3 %s\n" % X,
                           ["x", name, f, "molar_mass of " + f, "molar_mass of %s -> %s/%s" % (name, X, Y), "2 %s + %s" % (f, f), "%s %s" % (X, f)])


def leg_chains(run, thorough):
    leg = Leg(run, "chain")
    for key, text, probes in formula_texts():
        bk, mk, f, where = key.split(":")
        leg.add({"defs": text, "probes": probes},
                {"family": "formula", "bases": bk, "molar_mass": mk, "formula": f, "where": where, "text": text, "n_ge_10000": False},
                nontrivial="formula:" + key)
    for kind in ("unit", "prefix", "quantity", "subst"):
        for n in (10, 100, 1000, 2000, 4000):
            for deep in (True, False):
                for cyclic in (False, True):
                    text, head = chain_text(kind, n, deep, cyclic)
                    job = {"defs": text}
                    if head and not cyclic and (n <= 1000 or deep):
                        job["probe"] = head
                    leg.add(job, {"family": "chain", "kind": kind, "n": n, "deep": deep, "cyclic": cyclic, "n_ge_10000": False},
                            cycle=cyclic, nontrivial="chain:%s:%d:%s:%s" % (kind, n, deep, cyclic))
    # the same with links that go through name resolution (plural, prefix): short and medium lengths, cyclic and not
    for kind in ("unit-plural", "unit-prefixed"):
        for n in (1, 2, 3, 10, 100, 1000):
            for deep in (True, False):
                for cyclic in (False, True):
                    text, head = chain_text(kind, n, deep, cyclic)
                    leg.add({"defs": text}, {"family": "chain", "kind": kind, "n": n, "deep": deep, "cyclic": cyclic, "n_ge_10000": False},
                            cycle=cyclic, nontrivial="chain:%s:%d:%s:%s" % (kind, n, deep, cyclic))
    # beyond the sizes the property speaks of ("thousands"): recorded, a crash here is the known finding
    for kind in ("unit", "subst"):
        for n in (10000, 20000):
            text, head = chain_text(kind, n, True, False)
            leg.add({"defs": text}, {"family": "chain", "kind": kind, "n": n, "deep": True, "cyclic": False, "n_ge_10000": True},
                    nontrivial="chain:%s:%d" % (kind, n))
    # degenerate substance properties
    props = {
        "zero-output": "m !\ns !\nfoo {\n bar const baz 0 m\n}\nx 3 m\n",
        "zero-input": "m !\ns !\nfoo {\n bar out 2 m / inp 0 s\n}\nx 3 m\n",
        "zero-both": "m !\nfoo {\n bar out 0 m / inp 0 m\n}\nx 3 m\n",
        "negative": "m !\ns !\nfoo {\n bar out -2 m / inp 3 s\n baz const q -1\n}\nx 3 m\n",
        "mismatched": "m !\ns !\nfoo {\n bar out 2 m / inp 3 s\n bar2 out 2 s / inp 3 m\n bar3 bar 2 m / bar 3 s\n}\nx 3 m\n",
        "self-reference": "m !\nfoo {\n bar const baz 2 bar\n}\nx bar of foo\n",
        "property-of-itself": "m !\nfoo {\n bar const baz 2 baz of foo\n}\nx 3 m\n",
        "zero-power": "m !\nfoo {\n bar const baz 0^-1 m\n}\nx 0^-1\n",
        "empty-substance": "foo {\n}\nx foo\n",
        "unclosed-substance": "m !\nfoo {\n bar const baz 2 m\n",
        "substance-times-substance": "m !\nfoo {\n bar const baz 2 m\n}\ny foo foo\nz foo / foo\nw foo + foo\n",
    }
    for k, text in props.items():
        leg.add({"defs": text, "probe": "x"}, {"family": "substance-property", "variant": k, "text": text}, nontrivial="prop:" + k)
    # a substance that fails after some of its properties evaluated: nothing of it may stay visible, neither to later
    # definitions of the same load, nor to queries, nor to a later load on the same context
    partial = {
        "second-property-fails": "m !\nkg !\nfoo {\n density const d1 1000 kg / m^3\n bad const b1 3 nosuchunit\n}\ncargo 3 density\nx 3 m\n",
        "third-property-fails": "m !\nkg !\ns !\nfoo {\n p1 const c1 2 m\n p2 const c2 5 kg\n p3 const c3 1 nosuchunit\n}\nu1 7 p1\nu2 c2\nx 3 m\n",
        "in-out-form-fails": "m !\nkg !\nfoo {\n dens out 3 kg / inp 2 m^3\n bad out 1 nosuch / inp 1 m\n}\nv 2 dens\nw 2 out\nx 3 m\n",
        "failing-substance-last": "m !\nkg !\nx 3 m\ncargo 3 density\nfoo {\n density const d1 1000 kg / m^3\n bad const b1 3 nosuchunit\n}\n",
    }
    undefd = {"second-property-fails": ["cargo", "density", "d1", "foo"], "third-property-fails": ["u1", "u2", "p1", "c2", "foo"],
              "in-out-form-fails": ["v", "w", "dens", "out", "foo"], "failing-substance-last": ["cargo", "density", "d1", "foo"]}
    for k, text in partial.items():
        leg.add({"defs": text, "probe": "x", "undefined": undefd[k]}, {"family": "partial-substance", "variant": k, "text": text},
                nontrivial="partial:" + k)
    # degenerate numeric definitions in the loader's own little evaluators (prefixes, quantities) and in unit definitions
    nums = {
        "prefix-div-zero": "a- 1|0\nx 3\n", "prefix-div-zero-slash": "a- 1/0\nx 3\n", "prefix-zero-neg-power": "a- 0^-1\nx 3\n",
        "prefix-power-min-i32": "a- 10^-2147483648\nx 3\n", "prefix-power-too-big": "a- 10^99999999999\nx 3\n",
        "prefix-of-prefix-zero": "a- 0\nb- 1|a\nx 3\n", "prefix-negated": "a- -(1|0)\nx 3\n",
        "quantity-power-overflow": "m !\nq ? (m^3037000500)^3037000500\nx 3 m\n",
        "quantity-power-overflow-neg": "m !\nq ? (m^-3037000500)^3037000500\nx 3 m\n",
        "quantity-power-huge": "m !\nq ? m^99999999999999999999\nx 3 m\n", "quantity-div-self": "m !\nq ? m / m\nr ? 1 / q\nx 3 m\n",
        "unit-div-zero": "m !\ny 1|0 m\nx 3 m\n", "unit-zero-neg-power": "m !\ny 0^-1 m\nx 3 m\n", "unit-mod-zero": "m !\ny 5 mod 0\nx 3 m\n",
        "unit-power-zero": "m !\ny m^0\nx 3 m\n", "unit-shift-negative": "y 1 << -3\nx 3\n", "unit-nan": "y ln(-1)\nz 2^y\nx 3\n",
    }
    for k, text in nums.items():
        leg.add({"defs": text, "probe": "x"}, {"family": "numeric-definition", "variant": k, "text": text}, nontrivial="num:" + k)
    # aliases that lead back to themselves in the finished database (a name redefined as an alias of its own alias,
    # within one file or by a later load): the queries about them must be answered
    cur = lambda name, expr: json.dumps([{"name": name, "type": "unit", "expr": expr, "doc": None, "category": None}])
    leg.add({"defs": "a ! const const const", "probes": ["const", "a", "1 const -> a"]},
            {"family": "alias-cycle", "variant": "long-name-redefined", "text": "a ! const const const"}, nontrivial="alias:1")
    leg.add({"defs": "a !\nb a\nc b\nb c\n", "probes": ["b", "c", "1 b -> c"]},
            {"family": "alias-cycle", "variant": "duplicate-in-file", "text": "a !\nb a\nc b\nb c\n"}, cycle=True, nontrivial="alias:2")
    for k, (name, expr, probes) in enumerate([("inch", "in", ["inch", "3 inch -> foot", "units for inch"]), ("inch", "ins", ["inch", "ins"]),
                                              ("meter", "kilomillimeter", ["meter", "km", "3 m -> ft"]), ("foot", "feet", ["foot", "feet"])]):
        leg.add({"currency": cur(name, expr), "base": "bundled", "probes": probes},
                {"family": "alias-cycle", "variant": "second-load", "name": name, "expr": expr}, nontrivial="alias2:%d" % k)
    # base units whose LONG NAMES are names of other definitions (of each other, of themselves, of units, of aliases of
    # themselves), referred to from units that sort before and after them: every long-name graph over three names
    names = ["a", "b", "c"]
    import itertools
    k = 0
    for longs in itertools.product(["", "a", "b", "c", "d"], repeat=3):
        for user in ("aa 3 a\nzz 2 b c\n", "aa 3 %s\n" % (longs[0] or "a"), "zz c %s\nab zz\n" % (longs[1] or "b")):
            text = "".join("%s !%s\n" % (n, l) for n, l in zip(names, longs)) + user
            k += 1
            if k % (1 if thorough else 3) == 0:
                leg.add({"defs": text, "probes": ["aa", "zz", "1 a -> a"]}, {"family": "long-name-graph", "text": text}, nontrivial="longname:%d" % k)
    stats = leg.execute(shards=8, timeout_ms=60000, min_per_shard=50)
    run.note("chains", stats)
    # an acyclic chain has no problem to report; a report there is an oddity of the algorithm, not a C13 violation
    for (case, cyc, _), r in zip(leg.meta, leg.res):
        if case.get("family") == "chain" and case["kind"] != "quantity" and not cyc and "crash" not in r and r["outcome"] != "ok" \
                and not case["n_ge_10000"]:
            run.drift_note("Loader", "acyclic %s chain of %d reported problems: %s" % (case["kind"], case["n"], r.get("msgs", [])[:2]))
    run.sample({"leg": "b", "case": leg.meta[7][0]})


# ---------------------------------------------------------------------------------------------------------
# c: mutants of the shipped files, currency JSON, date patterns

def mutate_lines(rng, lines, nedits):
    """edit script (against the evolving text) over the interesting lines"""
    good = [i for i, l in enumerate(lines) if l.strip() and not l.strip().startswith("#")]
    edits = []
    for _ in range(nedits):
        i = rng.choice(good)
        op = rng.choice(["del_line", "dup_line", "swap_lines", "del_tok", "dup_tok", "swap_tok", "cut_line"])
        if op == "swap_lines":
            edits.append({"op": op, "i": i, "j": rng.choice(good)})
        elif op in ("del_line", "dup_line"):
            edits.append({"op": op, "i": i})
        else:
            toks = lines[i].split()
            if not toks:
                continue
            k = rng.randrange(len(toks))
            if op == "del_tok":
                toks.pop(k)
            elif op == "dup_tok":
                toks.insert(k, toks[k])
            elif op == "swap_tok":
                j = rng.randrange(len(toks))
                toks[k], toks[j] = toks[j], toks[k]
            else:
                edits.append({"op": "set_line", "i": i, "text": lines[i][:rng.randrange(len(lines[i]) + 1)]})
                continue
            edits.append({"op": "set_line", "i": i, "text": " ".join(toks)})
    return edits


def mutate_chars(rng, text, nedits):
    s = list(text)
    for _ in range(nedits):
        if not s:
            break
        i = rng.randrange(len(s))
        op = rng.randrange(5)
        if op == 0:
            s.pop(i)
        elif op == 1:
            s.insert(i, s[i])
        elif op == 2:
            j = rng.randrange(len(s))
            s[i], s[j] = s[j], s[i]
        elif op == 3:
            s.insert(i, rng.choice("[]'-: #\n"))
        else:
            s[i] = rng.choice("[]'-: aZ9")
    return "".join(s)


def type_confusions(snapshot):
    data = json.loads(snapshot)
    out = []

    def variant(f):
        d = json.loads(snapshot)
        f(d)
        out.append(json.dumps(d))
    junk = [None, 0, 1.5, True, [], {}, "", "((((", "1 +", "x" * 300, [1, 2], {"a": 1}, "-> ->", "1e4000", "#2020#", "\u0000", "0^-1", "1 mod 0",
            "(" * 1000 + "1" + ")" * 1000]
    for field in ("name", "doc", "category", "type", "expr"):
        for j in junk:
            variant(lambda d, field=field, j=j: d[0].__setitem__(field, j))
            variant(lambda d, field=field, j=j: d[2].__setitem__(field, j))
    for field in ("properties", "symbol"):
        for j in junk[:8]:
            variant(lambda d, field=field, j=j: d[1].__setitem__(field, j))
    for field in ("name", "input", "output", "inputName", "outputName", "doc"):
        for j in junk:
            variant(lambda d, field=field, j=j: d[1]["properties"][0].__setitem__(field, j))
    for t in ("baseUnit", "prefix", "quantity", "substance", "category", "error", "unit", "Unit", "nonsense"):
        variant(lambda d, t=t: d[2].__setitem__("type", t))
    variant(lambda d: d[2].pop("expr"))
    variant(lambda d: d[2].pop("name"))
    variant(lambda d: d[2].pop("type"))
    variant(lambda d: d.append(dict(d[2])))                      # duplicate definition
    variant(lambda d: d[2].__setitem__("expr", d[2]["name"]))    # self reference
    variant(lambda d: (d[2].__setitem__("expr", d[3]["name"]), d[3].__setitem__("expr", d[2]["name"])))   # 2-cycle
    variant(lambda d: d[1]["properties"][0].__setitem__("output", "0 USD"))       # zero property
    variant(lambda d: d[1]["properties"][0].__setitem__("input", "0"))
    variant(lambda d: d[2].__setitem__("expr", "5 °C"))
    variant(lambda d: d[2].__setitem__("expr", "now"))
    variant(lambda d: d[2].__setitem__("expr", "#2020-01-01#"))
    variant(lambda d: d[2].__setitem__("expr", "sqrt(-1)"))
    variant(lambda d: d[2].__setitem__("expr", "bitcoin"))
    out += ["", "null", "[]", "{}", "[[]]", "[null]", "[1]", "\"x\"", "[" * 200, "[" * 200 + "]" * 200, "[{}]", "[{\"name\":\"a\"}]",
            "﻿" + snapshot, snapshot + "x", snapshot[:-1] + ",]"]
    return out


def leg_mutants(run, thorough, seed):
    rng = random.Random(seed)
    import subprocess
    texts = {}
    for base, path in (("definitions", "core/definitions.units"), ("currency_units", "core/currency.units"), ("dates", "core/datepatterns.txt")):
        texts[base] = open(vlib.REPO + "/" + path, encoding="utf-8").read()
    snapshot = open(vlib.REPO + "/core/tests/currency.snapshot.json", encoding="utf-8").read()
    leg = Leg(run, "mutant")
    n_defs, n_cur = (3500, 1500) if thorough else (200, 100)
    for base, n in (("definitions", n_defs), ("currency_units", n_cur)):
        lines = texts[base].split("\n")
        for k in range(n):
            edits = mutate_lines(rng, lines, rng.choice([1, 1, 2, 3, 5]))
            job = {"mut": {"base": base, "edits": edits}}
            if base == "currency_units":
                job["base"] = "bundled" if k % 4 == 0 else "empty"
            leg.add(job, {"family": "mutant", "base": base, "edits": edits}, nontrivial="mut:%s:%s" % (base, json.dumps(edits, sort_keys=True)))
    stats_m = leg.execute(shards=12 if thorough else 8, timeout_ms=60000, min_per_shard=500)
    run.sample({"leg": "c", "mutant": leg.meta[0][0]})

    leg = Leg(run, "currency")
    cuts = list(range(0, 300)) + sorted(rng.randrange(300, len(snapshot)) for _ in range(200))
    for k, c in enumerate(cuts):
        leg.add({"currency": snapshot[:c], "base": "bundled" if k % 10 == 0 else "empty"},
                {"family": "currency-truncated", "at": c}, nontrivial="cut:%d" % c)
    for k, t in enumerate(type_confusions(snapshot)):
        leg.add({"currency": t, "base": "bundled" if k % 3 == 0 else "empty"},
                {"family": "currency-confused", "json": t if len(t) < 3000 else t[:3000]}, nontrivial="conf:%d" % k)
    stats_c = leg.execute(shards=12 if thorough else 8, timeout_ms=60000, min_per_shard=200)
    if stats_c.get("err", 0) == 0:
        raise vlib.ToolError("vacuity gate: no broken currency JSON was reported as an error")

    leg = Leg(run, "dates")
    for k in range(2000 if thorough else 200):
        t = mutate_chars(rng, texts["dates"], rng.choice([1, 2, 3, 6]))
        leg.add({"dates": t}, {"family": "dates", "text": t}, nontrivial="dates:%d:%d" % (seed, k))
    for t in ("[", "]", "[[[[", "'", "''", "year-", "[year", "year]", "\n", "", "[" * 5000, "year" * 5000, "'" + "a" * 100000):
        leg.add({"dates": t}, {"family": "dates", "text": t[:200]}, nontrivial="dates:" + t[:20])
    stats_d = leg.execute(shards=4, timeout_ms=20000, min_per_shard=500)
    run.note("mutants", {"files": stats_m, "currency_json": stats_c, "date_patterns": stats_d})


def selfcheck(run):
    """the binding is not vacuous: a recorded crash, a silent cycle and a context that stopped answering are rejected"""
    good = {"k": "defs", "o": "err", "n": 2, "e": False, "s": True, "m": True, "c": True, "r": True, "p": False}
    bad = [dict(good, o="crash", n=0, s=False, m=False), dict(good, r=False), dict(good, s=False), dict(good, n=0), dict(good, o="ok", n=0),
           dict(good, p=True)]
    verdicts, _ = evalkit.judge([good] + bad, "Trace_Load", "Trace_Load", shards=1, tag="c13self")
    if "REJECT" in verdicts.get(0, set()) or any("REJECT" not in verdicts.get(i + 1, set()) for i in range(len(bad))):
        raise vlib.ToolError("self-check: Trace_Load did not separate the corrupted lines from the good one")
    run.note("selfcheck_corrupted_trace_rejected", True)


def run(tier, seed):
    os.environ.setdefault("VERIF_MAX_TIMEOUTS", "25")     # per worker batch: a hang on a whole input family is reported, not waited out
    run = vlib.Run(PROP, tier, seed, "model_checking")
    thorough = tier == "thorough"
    run.cov["rule"] = ("M: every dependency graph over 3-4 (thorough: 5) named definitions (Loader.tla), the quick graphs also loaded by the "
                       "code; a: every token sequence up to %d tokens over four alphabets of the definitions syntax; b: chains / cycles of "
                       "10..4000 definitions through four kinds; c: seeded mutants of the shipped files, truncated / type-confused currency "
                       "JSON, mutated date pattern files. non-trivial = distinct cyclic graph, token text of >= 2 tokens, chain, mutant." %
                       (6 if thorough else 5))
    run.assumptions += [
        "level: model checking for the resolver (cycle detection, termination); exploration for the text space",
        "worker: catch_unwind, per-job time limit (a timeout is re-run alone with 4x the limit before it is believed), 8 MiB main-thread stack, "
        "harness build profile opt-level 2 with overflow checks and debug assertions",
        "problems the parser prints to stdout instead of returning (println! in gnu_units.rs) are not counted as unreported",
        "the context `still answers`: `1 + 1` gives 2 and the first loaded unit (or base unit) evaluates through Context::eval",
        "numeric literals with exponents beyond Grammar.tla's ExpLimit (`1e999999999`) are not generated: computing 10^exp is a matter of the "
        "query-level totality property (C04), not of the loader",
    ]
    vlib.build_harness()
    selfcheck(run)
    leg_model(run, thorough)
    leg_chains(run, thorough)
    leg_tokens(run, thorough)
    leg_mutants(run, thorough, seed)
    return run.finish()


def replay(path, seed):
    body = json.load(open(path))
    case = body["case"]
    vlib.build_harness()
    job = case.get("job")
    if job is None or ("defs" not in job and "mut" not in job and "currency" not in job and "dates" not in job):
        if case.get("family") == "chain":
            text, head = chain_text(case["kind"], case["n"], case["deep"], case["cyclic"])
            job = {"defs": text}
        else:
            return 2
    r = lk.run_load("jobs", [job], shards=1, tag="c13r", timeout_ms=120000)[0]
    ev = slim(r, bool(case.get("cyclic")) or case.get("family") == "graph" and case.get("outcome") != "crash" and "cycle" in json.dumps(body.get("spec_allows", "")))
    verdicts, _ = evalkit.judge([ev], "Trace_Load", "Trace_Load", shards=1, tag="c13rj")
    log("now: %s" % json.dumps({k: r.get(k) for k in ("outcome", "nmsg", "msgs", "crash", "msg", "signal", "after")})[:1500])
    return 1 if "REJECT" in verdicts.get(0, set()) else 0
