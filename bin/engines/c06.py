"""C06 - displayed value x displayed unit = computed quantity.
TLC (MC_PartsGen) enumerates queries from the registry dump (unit x SI-prefix magnitude grid, products of base
units, source -> target pairs); rv-eval runs them on the bundled database and records every NumberParts plus
what Context::lookup returns for each printed unit name; the judge specification Trace_Parts reads the printed
numeral (Numeral.tla), the printed factor and the printed unit names back and compares with the computed
quantity - for conversions and unit lists the separately evaluated source expression."""
import json
import os
import random
import re
import time

import evalkit
import numkit
import vlib
from vlib import log

PROP = "C06"
NAME_RE = re.compile(r"^[A-Za-z][A-Za-z0-9_]*$")
RESERVED = {"per", "to", "in", "mod", "and", "or", "xor", "of", "for", "now", "ans", "ANS", "units", "factorize", "search", "digits", "base",
            "hex", "hexadecimal", "base16", "oct", "octal", "base8", "bin", "binary", "base2", "frac", "fraction", "ratio", "sci",
            "scientific", "eng", "engineering", "sqrt", "exp", "ln", "log", "log2", "log10", "hypot", "sin", "cos", "tan", "asin", "acos",
            "atan", "atan2", "sinh", "cosh", "tanh", "asinh", "acosh", "atanh", "e", "E"}
SI_LONG = ["milli", "micro", "nano", "pico", "femto", "atto", "zepto", "yocto", "kilo", "mega", "giga", "tera", "peta", "exa", "zetta", "yotta"]

LENGTH = (["1 m", "5 mile", "3.3 inch", "1|3 yard", "-2 km", "1e-7 m"],
          ["ft", "3 ft", "1|8 inch", "1000 km", "-meter", "12 inch / 5", "cm", "2.5 mm", "hex ft", "digits 20 ft", "base 7 inch", "sci ft", "frac inch",
           "3 ft + 2 ft", "1 m - 10 cm", "2 (ft + inch)", "-(3 ft)", "2 ft 3", "3 ft mod 2 ft", "7.5 inch mod 2 inch"])
ENERGY = (["1 kWh", "1 J", "3 cal", "1e-3 btu"], ["kJ", "3 btu", "1|2 erg", "W hour", "kg m^2 / s^2", "N m", "eV", "milliCalorie"])
AREA = (["1/mpg", "20|3 / mpg"], ["L / 100km", "liter / 100 kilometer", "m^2", "1|1000 mm^2"])
VOLUME = (["1 m^3", "2 liter", "1|3 gallon", "-5 cm^3"],
          ["(2 ft)^3", "2 ft^3", "2^3 ft^3", "(3 cm)^3", "liter", "(1|2 inch)^3", "(2 ft)^2 m", "3 (2 inch)^3", "(2 ft)^3 / 5"])
RECIP = (["1 m^-2", "5 / acre", "1 / (3 ft^2)"], ["(2 ft)^-2", "1 / (10 m)^2", "ft^-2", "1|4 / (ft inch)", "(2 ft)^-1 / (3 m)"])
SPEED = (["60 mph", "1 c", "3 knot"], ["km / hour", "m/s", "10 ft / min", "mile / 2 hour"])
INFO = (["1 kB", "3 GiB", "12 bit"], ["byte", "kibibyte", "8 bit", "1|1024 MiB", "milliKB"])
MASS = (["1 lb", "2.5 tonne", "1e9 g", "3 oz"], ["kg", "gram", "3 stone", "1|16 lb", "tonne"])
TIME = (["1 day", "1e6 s", "90 min"], ["hour", "7 day", "1|60 min", "ms"])
ANGLE = (["1 radian", "12.3456 degree"], ["arcsec", "millimass", "mas", "2 turn"])
BITS = (["6", "255", "1|3"], ["5 and 3", "5 or 3", "5 xor 3", "12 mod 5", "2", "1|8"])
PLAIN = (["3 ft", "5000 m", "10 km", "2 byte", "1 kg", "1|3 N", "1e10 W", "0.002 A", "7 kg^2", "123456789", "1|7", "2.5 tonne", "12 bit", "5e-5 farad"],
         ["hex", "base 10", "digits 3", "digits 3 hex", "sci", "eng", "frac", "bin", "oct", "base 36", "digits", "digits 40 base 3"])
LISTS = [(["1.7 m", "100 inch", "5280.5 ft", "-3.25 yard", "1e-4 mile"], ["ft;inch", "mile;yard;ft;inch", "m;cm;mm", "yard;ft"]),
         (["1e6 s", "0.5 s", "100000|3 s", "3.75 hour", "1 year", "-90.5 min"], ["hour;min;s", "min;s", "year;week;day", "day;hour", "s;ms"]),
         (["1.3 kg", "7 lb", "1|3 oz"], ["kg;g", "lb;oz", "stone;lb;oz"]),
         (["1 radian", "12.3456 degree"], ["deg;arcmin;arcsec"])]
DURATIONS = ["1e6 s", "0.5 s", "100000|3 s", "3.5 hour", "-90 min", "1e-4 s", "1e12 s", "1 year", "12345678.9 s", "1 ks", "0 s", "59.999 s", "1|7 day"]
SUBSTANCES = ["water", "density of water", "mass of ml water", "volume of g water", "ml water -> g", "g water -> ml", "ethanol", "mercury",
              "1 kg gold", "gold", "3 mol water", "egg", "kg -> mass_shelled of egg", "air", "2 liter gasoline"]


def base_of_target(tgt):
    m = re.match(r"^(?:digits(?: \d+)? |sci |eng |frac )?(hex|bin|oct|base (\d+))\b", tgt)
    if not m:
        return 10
    return {"hex": 16, "bin": 2, "oct": 8}.get(m.group(1), int(m.group(2) or 10))


def dump_registry():
    path = vlib.workfile("dump.json")
    vlib.run_tool([vlib.rv("rv-eval"), "dump", "bundled", path], timeout=600)
    d = json.load(open(path))
    os.unlink(path)
    return d


def gen(tag, mode, seed, units=("x",), ms=("1",), signs=("",), ks=(1,), js=(0,), exps=(1,), maxf=1, srcs=("x",), tgts=("x",), stride=1):
    mod = "GenP_%s_%d" % (tag, os.getpid())
    with open(os.path.join(vlib.SPEC, mod + ".tla"), "w") as f:
        f.write("---- MODULE %s ----\nEXTENDS MC_PartsGen\n" % mod)
        f.write("G_Units == %s\nG_Ms == %s\nG_Signs == %s\nG_Srcs == %s\nG_Tgts == %s\n" % (
            evalkit.cpseq(units), evalkit.cpseq(ms), evalkit.cpseq(signs), evalkit.cpseq(srcs), evalkit.cpseq(tgts)))
        # negative numbers cannot be written in a cfg file
        f.write("G_Ks == {%s}\nG_Js == {%s}\nG_Exps == {%s}\n====\n" % (
            ", ".join(map(str, ks)), ", ".join(map(str, js)), ", ".join(map(str, exps))))
    cfg = os.path.join(vlib.SPEC, mod + ".cfg")
    with open(cfg, "w") as f:
        f.write("SPECIFICATION Spec\nINVARIANT Emit\nCHECK_DEADLOCK FALSE\nCONSTANTS\n")
        f.write('  Mode = "%s"\n  MaxF = %d\n  Stride = %d\n  Seed = %d\n' % (mode, maxf, stride, seed % 1000))
        f.write("  Units <- G_Units\n  Ms <- G_Ms\n  Signs <- G_Signs\n  Srcs <- G_Srcs\n  Tgts <- G_Tgts\n")
        f.write("  Ks <- G_Ks\n  Js <- G_Js\n  Exps <- G_Exps\n")
    try:
        r = vlib.tlc(mod, cfg, workers=4, timeout=2400, tag="genp" + tag, xmx="8g")
    finally:
        for ext in (".tla", ".cfg"):
            try:
                os.unlink(os.path.join(vlib.SPEC, mod + ext))
            except OSError:
                pass
    vlib.require_ok(r, "MC_PartsGen " + tag)
    cases = vlib.tagged_json(r, "CASE")
    if not cases:
        raise vlib.ToolError("vacuity gate: MC_PartsGen %s produced no query" % tag)
    for c in cases:
        for k in ("q", "src", "tgt"):
            if k in c:
                c[k] = numkit.txt(c[k])
    return cases, r


# ---------------------------------------------------------------------------------------------------------
def names_in_parts(p, out):
    if not p:
        return
    for fld in ("raw_unit",):
        for e in p.get(fld) or ():
            out.add(tuple(e["u"]))
    raw = p.get("raw")
    if raw:
        for e in raw.get("d") or ():
            out.add(tuple(e["u"]))
    for fld in ("unit", "dimensions"):
        t = p.get(fld)
        if t:
            for tok in numkit.txt(t).split(" "):
                if tok and tok != "/":
                    out.add(tuple(numkit.cps(tok.split("^")[0])))


def reply_parts(obs):
    """(kind, main, list, rest, props) of a numeric reply, or None"""
    t = obs.get("t")
    if obs.get("kind") == "number" and "parts" in obs:
        return "number", obs["parts"], None, None, None
    if obs.get("kind") == "duration" and "parts" in obs:
        return "duration", obs["parts"], obs.get("breakdown"), None, None
    if t == "conversion":
        return "conversion", obs["parts"], None, None, None
    if t == "unitlist":
        return "unitlist", None, obs["list"], obs.get("rest") or {}, None
    if t == "def":
        return ("def", obs["value"], None, None, None) if obs.get("value") else None
    if t == "subst":
        return "subst", obs.get("amount"), None, None, [p["value"] for p in obs.get("props", ())]
    return None


def source_truth(res):
    """the computed quantity of a source expression evaluated on its own"""
    if not res or "crash" in res:
        return None
    o = res["obs"]
    if o.get("t") in ("num", "float") and o.get("kind") in ("number", "duration"):
        return {k: o[k] for k in ("t", "v", "d", "f") if k in o}
    return None


class Lookups:
    def __init__(self, shards):
        self.tab = {}
        self.shards = shards

    def ensure(self, names):
        todo = sorted(n for n in names if n not in self.tab)
        if not todo:
            return
        res = evalkit.run_eval([{"lookup": list(n)} for n in todo], ctx="bundled", shards=self.shards, tag="c06lk")
        for n, r in zip(todo, res):
            self.tab[n] = None if "crash" in r else evalkit.strip_nulls(r.get("lookup"))

    def table(self, names):
        out = []
        for n in sorted(names):
            ent = {"n": list(n)}
            if self.tab.get(n) is not None:
                ent["v"] = self.tab[n]
            out.append(ent)
        return out


def build_events(jobs, res, src_res, lookups):
    """jobs[i]: {"qs", "base", "src": index into src_res or None}.  Returns (events, index map, skipped counts)."""
    pend = []
    allnames = set()
    skipped = {"error": 0, "crash": 0, "other": 0, "no-source": 0}
    for i, (job, r) in enumerate(zip(jobs, res)):
        if "crash" in r:
            skipped["crash"] += 1
            continue
        obs = evalkit.strip_nulls(r["obs"])
        rp = reply_parts(obs)
        if rp is None:
            skipped["error" if obs.get("t") == "err" else "other"] += 1
            continue
        kind, main, lst, rest, props = rp
        ev = {"kind": kind, "base": job.get("base", 10)}
        if kind in ("conversion", "unitlist"):
            truth = source_truth(src_res[job["src"]]) if job.get("src") is not None else None
            if truth is None:
                skipped["no-source"] += 1
                continue
            ev["truth"] = truth
        names = set()
        if main:
            ev["main"] = main
            names_in_parts(main, names)
            # the one-line text of a conversion must show the factors the structured reply carries
            if kind == "conversion" and ("factor" in main or "divfactor" in main) and (r.get("render") or {}).get("plain"):
                ev["plain"] = r["render"]["plain"]
        if lst is not None:
            ev["list"] = lst
            for p in lst:
                names_in_parts(p, names)
        if rest is not None:
            ev["rest"] = rest
        if props is not None and "->" in job["qs"]:
            # `substance -> unit`: the properties are shown by Context::show, their raw value is the quotient by the
            # target unit (as for conversions) and the source quantity is a property of a substance: not judged here
            skipped["subst-conv-props"] = skipped.get("subst-conv-props", 0) + len(props)
        elif props is not None:
            ev["props"] = props
            for p in props:
                names_in_parts(p, names)
        allnames |= names
        pend.append((i, ev, names))
    lookups.ensure(allnames)
    events, idx = [], []
    for i, ev, names in pend:
        ev["names"] = lookups.table(names)
        events.append(ev)
        idx.append(i)
    return events, idx, skipped


def judge(events, shards, tag, quant_path, min_per_shard=150):
    """returns (dict idx -> list of (tag, detail)), stats"""
    return numkit.judge_detail(events, "Trace_Parts", shards=shards, tag=tag, env={"QUANT": quant_path}, min_per_shard=min_per_shard)


def tags_of(v):
    return {t for t, _ in v}


def why_of(v):
    """the judge's REJECT details without entry numbers: '<<"list", 3>>, "unreadable"' -> 'list:unreadable'"""
    out = set()
    for t, d in v:
        if t == "REJECT":
            m = re.match(r'^(?:"(\w+)"|<<"(\w+)", \d+>>), "([\w-]+)"$', d)
            out.add("%s:%s" % (m.group(1) or m.group(2), m.group(3)) if m else d)
    return ",".join(sorted(out))


def unreadable_kind(ev, q):
    """classifies the printed names that lookup could not read (for known findings)"""
    bad = sorted(numkit.txt(e["n"]) for e in ev["names"] if "v" not in e)
    if not bad:
        return None
    if ev["kind"] in ("unitlist", "duration"):
        listed = [u.strip() for u in q.split("->", 1)[1].split(";")] if "->" in q else ["year", "week", "day", "hour", "minute", "second"]
        if all(any(n == p + u for p in SI_LONG for u in listed) for n in bad):
            return "si-prefix+list-unit"
    return "other"


LAW = ("printed numeral x factor / divfactor x PROD lookup(printed unit name)^e = the computed quantity (exact, or truncated toward zero "
       "within one last-digit unit); dimensionality and quantity name are the result's")


def case_of(ev, job, leg, v):
    main = ev.get("main")
    case = {"engine": "parts", "leg": leg, "q": job["qs"], "kind": ev["kind"], "why": why_of(v),
            "unit": numkit.txt(main.get("unit")) if main and main.get("unit") is not None else None,
            "unreadable": sorted(numkit.txt(e["n"]) for e in ev["names"] if "v" not in e),
            "unreadable_kind": unreadable_kind(ev, job["qs"])}
    if job.get("srcq"):
        case["source"] = job["srcq"]
    return case


def observed_of(ev):
    main = ev.get("main")
    return {"main": describe_parts(main), "list": [describe_parts(p) for p in ev.get("list", ())][:8],
            "props": [describe_parts(p) for p in ev.get("props", ())][:8], "truth": ev.get("truth") or (main or {}).get("raw")}


def describe_parts(p):
    if not p:
        return None
    d = {}
    for k in ("exact", "approx", "factor", "divfactor", "unit", "quantity", "dimensions"):
        if p.get(k) is not None:
            d[k] = numkit.txt(p[k])
    if p.get("raw_unit") is not None:
        d["raw_unit"] = {numkit.txt(e["u"]): e["e"] for e in p["raw_unit"]}
    return d


def decide(run, jobs, leg, shards, lookups, quant_path, stats, chunk=40000):
    """judge the replies to jobs (in chunks, to bound memory)"""
    for k in range(0, len(jobs), chunk):
        decide_chunk(run, jobs[k:k + chunk], leg if len(jobs) <= chunk else "%s%d" % (leg, k // chunk), shards, lookups, quant_path, stats)


def decide_chunk(run, jobs, leg, shards, lookups, quant_path, stats):
    t0 = time.time()
    srcs = sorted({j["srcq"] for j in jobs if j.get("srcq")})
    src_index = {s: k for k, s in enumerate(srcs)}
    for j in jobs:
        j["src"] = src_index.get(j.get("srcq"))
    res = evalkit.run_eval([{"qs": j["qs"], "render": True} for j in jobs], ctx="bundled", shards=shards, tag="c06" + leg, timeout_ms=10000)
    src_res = evalkit.run_eval([{"qs": s} for s in srcs], ctx="bundled", shards=shards, tag="c06s" + leg, timeout_ms=10000)
    t1 = time.time()
    events, idx, skipped = build_events(jobs, res, src_res, lookups)
    verdicts, st = judge(events, shards, "c06j" + leg, quant_path)
    log("[C06] leg %s: %d queries (%d sources), %d numeric replies judged, skipped %s, eval %.1fs judge %.1fs" % (
        leg, len(jobs), len(srcs), len(events), skipped, t1 - t0, time.time() - t1))
    run.cov["states"] += st["distinct"]
    run.cov["transitions"] += st["generated"]
    run.traces(len(events))
    for k, v in skipped.items():
        stats["skipped_" + k] = stats.get("skipped_" + k, 0) + v
    for n, (ev, i) in enumerate(zip(events, idx)):
        run.count()
        v = verdicts.get(n, [])
        tags = tags_of(v)
        q = jobs[i]["qs"]
        if "UNSUPPORTED" in tags:
            stats["unsupported"] = stats.get("unsupported", 0) + 1
        for t, d in v:
            if t == "NOTE":
                k = "note_" + d.rsplit('"', 2)[-2] if d.count('"') >= 2 else "note"
                stats[k] = stats.get(k, 0) + 1
        if "UNSUPPORTED" in tags and len(stats.setdefault("unsupported_examples", [])) < 5:
            stats["unsupported_examples"].append({"q": q, "why": [d for t, d in v if t == "UNSUPPORTED"][:2]})
        if "UNSUPPORTED" not in tags:
            run.nontrivial(q)
        if "REJECT" in tags:
            run.violation(case_of(ev, jobs[i], leg, v), LAW, observed_of(ev), "parts")


def pick_units(dump, rng, n):
    ok = []
    for u in dump["units"]:
        s = u["s"]
        if NAME_RE.match(s) and s not in RESERVED and u["val"].get("t") == "num" and u["val"]["v"]["n"]["mag"]:
            ok.append(s)
    ok.sort()
    base = [numkit.txt(b) for b in dump["base"]]
    derived = sorted({numkit.txt(x["name"]) for x in dump["decomposition"]} | {numkit.txt(x["long"]) for x in dump["long_names"]}
                     | {"gram", "tonne", "byte", "bit"})
    special = [u for u in base + derived if NAME_RE.match(u)]
    rest = [u for u in ok if u not in set(special)]
    sample = rest if n is None else rng.sample(rest, min(n, len(rest)))
    return special, sorted(sample), ok


def run(tier, seed):
    run = vlib.Run(PROP, tier, seed, "model_checking")
    thorough = tier == "thorough"
    run.cov["rule"] = ("TLC (MC_PartsGen) enumerates queries from the registry dump: units x (m * 10^(3j))^k <unit>^k over every SI prefix value, "
                       "m in {0.999, 1, 1000}, both signs, k in 1..3 (base units and regroupable derived units: the full grid, also k = -1, -2; sampled units: a "
                       "seed-rotated stride of it); products of <= 4 base units with exponents -2..2; source -> target pairs (constants in the "
                       "target, base / digits forms, unit lists, prefix+name self-conversions); definitions; durations; substances. non-trivial = distinct "
                       "query text with a numeric reply that the judge could decide.")
    run.assumptions += ["harness trusted for: string <-> code points, num-bigint <-> limbs, recording NumberParts field by field",
                        "a printed unit name is read with Context::lookup (rv-eval lookup job): C07 relates lookup to the specification",
                        "for plain results the computed quantity is NumberParts.raw_value; for conversions and unit lists it is the value of the "
                        "source expression evaluated as its own query (C01/C03 decide that value)",
                        "float-valued results are skipped (counted as unsupported)"]
    vlib.build_harness()
    from engines import c05
    c05.numeral_selftest(run)
    shards = 14 if thorough else 8
    rng = random.Random(seed)
    dump = dump_registry()
    quant_path = vlib.workfile("quant.json")
    with open(quant_path, "w") as f:
        json.dump([{"name": q["name"], "dims": q["dims"]} for q in dump["quantities"]], f)
    special, sample, allunits = pick_units(dump, rng, None if thorough else 300)
    lookups = Lookups(shards)
    stats = {}
    js = list(range(-8, 9))

    # G1: prefix-boundary grid
    g1, r1 = gen("grid1", "grid", seed, units=special, ms=["0.999", "1", "1000"], signs=["", "-"], ks=[-2, -1, 1, 2, 3], js=js, stride=1)
    run.add_tlc(r1, "MC_PartsGen grid (base + derived units)")
    g2, r2 = gen("grid2", "grid", seed, units=sample, ms=["0.999", "1", "1000"], signs=["", "-"], ks=[1, 2, 3], js=js, stride=3 if thorough else 12)
    run.add_tlc(r2, "MC_PartsGen grid (sampled units)")
    decide(run, [{"qs": c["q"]} for c in g1 + g2], "grid", shards, lookups, quant_path, stats)
    run.sample({"leg": "grid", "q": g1[len(g1) // 2]["q"]})
    run.sample({"leg": "grid", "q": g2[len(g2) // 3]["q"]})

    # G2: products of base units
    bases = [numkit.txt(b) for b in dump["base"]]
    core = [b for b in bases if b in ("A", "kg", "m", "s", "cd", "sr", "mol", "K")]
    g3, r3 = gen("prod", "prod", seed, units=bases if thorough else core, ms=["1", "1500", "2.5e-4", "1|3", "7e7"], signs=["", "-"],
                 exps=[-2, -1, 1, 2], maxf=4 if thorough else 3)
    run.add_tlc(r3, "MC_PartsGen products of base units")
    if not thorough:
        g3b, r3b = gen("prod4", "prod", seed, units=["A", "kg", "m", "s"], ms=["1", "12"], signs=[""], exps=[-2, -1, 1, 2], maxf=4)
        run.add_tlc(r3b, "MC_PartsGen products of A kg m s")
        g3 = g3 + [c for c in g3b if c["q"].count(" ") == 4]
    decide(run, [{"qs": c["q"]} for c in g3], "prod", shards, lookups, quant_path, stats)
    run.sample({"leg": "prod", "q": g3[len(g3) // 2]["q"]})

    # G3: conversions (constants in the target, bases, digits), unit lists: source x target pairs
    jobs = []
    for k, (srcs, tgts) in enumerate([LENGTH, ENERGY, AREA, VOLUME, RECIP, SPEED, INFO, MASS, TIME, ANGLE, BITS, PLAIN] + LISTS):
        cs, r = gen("cross%d" % k, "cross", seed, srcs=srcs, tgts=tgts)
        run.add_tlc(r, None)
        for c in cs:
            jobs.append({"qs": "%s -> %s" % (c["src"], c["tgt"]), "srcq": c["src"], "base": base_of_target(c["tgt"])})
    # self-conversions: X unit -> unit, and 1 <prefix><name> -> <prefix><name> for names the loader knows (units, aliases, quantities)
    selfu = rng.sample(allunits, 400) if not thorough else allunits
    cs, r = gen("selfu", "grid", seed, units=selfu, ms=["1", "2.5", "1|3"], signs=[""], ks=[1], js=[0], stride=1 if thorough else 2)
    run.add_tlc(r, "MC_PartsGen self conversions")
    for c in cs:
        unit = c["q"].split(" ", 1)[1]
        jobs.append({"qs": "%s -> %s" % (c["q"], unit), "srcq": c["q"]})
    defnames = sorted(d["s"] for d in dump["defs"] if NAME_RE.match(d["s"]) and d["s"] not in RESERVED)
    stems = defnames if thorough else rng.sample(defnames, 350)
    prefixes = [p["s"] for p in dump["prefixes"] if NAME_RE.match(p["s"])]
    pf = prefixes if thorough else ["milli", "kilo"] + rng.sample(prefixes, 2)
    pn = ["%s%s" % (p, s) for s in stems for p in (pf if not thorough else rng.sample(pf, 6))]
    cs, r = gen("selfp", "grid", seed, units=pn, ms=["1", "3"], signs=[""], ks=[1], js=[0], stride=2)
    run.add_tlc(r, "MC_PartsGen prefix+name self conversions")
    for c in cs:
        unit = c["q"].split(" ", 1)[1]
        jobs.append({"qs": "%s -> %s" % (c["q"], unit), "srcq": c["q"]})
    # definitions: a bare unit name is answered with its definition and value
    cs, r = gen("defs", "grid", seed, units=selfu, ms=[""], signs=[""], ks=[1], js=[0], stride=1 if thorough else 2)
    run.add_tlc(r, "MC_PartsGen definitions")
    jobs += [{"qs": c["q"].strip()} for c in cs]
    jobs += [{"qs": q} for q in DURATIONS + SUBSTANCES]
    # names that read two ways as prefix + unit (d+au / da+u ...): the unit named in the reply must be the one the number
    # was computed for, whichever reading Rink takes
    unitnames = set(u["s"] for u in dump["units"]) | set(numkit.txt(b) for b in dump["base"])
    readings = {}
    for p in prefixes:
        for u in unitnames:
            if NAME_RE.match(u):
                readings.setdefault(p + u, []).append((p, u))
    amb = sorted(n for n, r in readings.items() if len(r) >= 2 and n not in unitnames)
    for n in amb:
        for (p, u) in readings[n]:
            jobs.append({"qs": "1 %s -> %s" % (u, n), "srcq": "1 %s" % u})
            jobs.append({"qs": "3 %s%s -> %s" % (p, u, n), "srcq": "3 %s%s" % (p, u)})
        jobs.append({"qs": "2 %s -> %s" % (n, n), "srcq": "2 %s" % n})
        jobs.append({"qs": "5 %s" % n})
    run.note("names_with_two_prefix_readings", amb[:40])
    decide(run, jobs, "conv", shards, lookups, quant_path, stats)
    # targets that are pure numbers (no unit to hang the factor on) and targets with a constant, in the text as well
    tj = []
    for src in ["100", "7 percent", "1 dozen", "-3|8", "1e6", "100 m/m"]:
        for tgt in ["5", "1|3", "2|7", "1000", "5 percent", "3 dozen", "-4", "0.25"]:
            tj.append({"qs": "%s -> %s" % (src, tgt), "srcq": src})
    for src, tgt in [("10 m", "3 ft"), ("10 m", "1|3 ft"), ("2 hour", "7 min"), ("1 kg", "3|4 lb")]:
        tj.append({"qs": "%s -> %s" % (src, tgt), "srcq": src})
    decide(run, tj, "const-targets", 2, lookups, quant_path, stats)
    run.sample({"leg": "conv", "q": jobs[0]["qs"]})
    run.sample({"leg": "conv", "q": jobs[len(jobs) // 2]["qs"]})
    run.note("judge_counts", stats)
    if stats.get("unsupported", 0) > 0:
        log("[C06] %d replies were outside what the judge decides (floats, unusual names)" % stats["unsupported"])

    corrupt_selfcheck(run, lookups, quant_path)
    return run.finish()


def corrupt_selfcheck(run, lookups, quant_path):
    """corrupted observations must be rejected: numeral, factor, list entry, unit name, quantity, unreadable name.
    (A probe the code under test already gets wrong is reported as a violation, its corrupted twin is skipped.)"""
    qs = [("5 inch", None), ("1 m -> 1|8 inch", "1 m"), ("1.7 m -> ft;inch", "1.7 m"), ("7 A^-1 kg s^-2", None), ("2.5 tonne", None)]
    res = evalkit.run_eval([{"qs": q} for q, _ in qs], ctx="bundled", shards=1, tag="c06self")
    src = evalkit.run_eval([{"qs": s} for _, s in qs if s], ctx="bundled", shards=1, tag="c06selfs")
    jobs = []
    k = 0
    for q, s in qs:
        jobs.append({"qs": q, "src": k if s else None, "srcq": s})
        k += 1 if s else 0
    good, gidx, _ = build_events(jobs, res, src, lookups)

    def corrupt(ev, q):
        ev = json.loads(json.dumps(ev))
        try:
            if q == "5 inch":
                ev["main"]["exact"] = numkit.cps("128")                       # 127 millimeter
            elif q == "1 m -> 1|8 inch":
                ev["main"]["divfactor"] = numkit.cps("4")                     # inch / 8
            elif q == "1.7 m -> ft;inch":
                ev["list"][1]["exact"][0] += 1                                # 6.92... inch -> 7.92...
            elif q == "7 A^-1 kg s^-2":
                ev["main"]["raw_unit"][0]["u"] = numkit.cps("weber")          # tesla
            elif q == "2.5 tonne":
                ev["main"]["quantity"] = numkit.cps("length")
            elif q == "unreadable":
                ev["main"]["raw_unit"][0]["u"] = numkit.cps("millikilometer")  # a name lookup cannot read
        except (KeyError, IndexError, TypeError):
            return None
        return ev

    pairs = [(good[n], jobs[i]["qs"]) for n, i in enumerate(gidx)]
    bad = [(corrupt(ev, q), q) for ev, q in pairs]
    bad += [(corrupt(ev, "unreadable"), "unreadable") for ev, q in pairs if q == "5 inch"]
    bad = [(ev, q) for ev, q in bad if ev is not None]
    names = set()
    for ev, _ in bad:
        ns = set(tuple(e["n"]) for e in ev["names"])
        for p in [ev.get("main")] + list(ev.get("list", ())):
            names_in_parts(p, ns)
        ev["_ns"] = ns
        names |= ns
    lookups.ensure(names)
    for ev, _ in bad:
        ev["names"] = lookups.table(ev.pop("_ns"))
    verdicts, _ = judge([ev for ev, _ in pairs] + [ev for ev, _ in bad], 1, "c06selfj", quant_path, min_per_shard=1)
    broken = set()
    for n, (ev, q) in enumerate(pairs):
        v = verdicts.get(n, [])
        if "REJECT" in tags_of(v):
            broken.add(q)
            run.violation(case_of(ev, {"qs": q, "srcq": dict(qs).get(q)}, "selfcheck", v), LAW, observed_of(ev), "parts")
    rejected = 0
    for n, (ev, q) in enumerate(bad):
        if q in broken or (q == "unreadable" and "5 inch" in broken):
            continue
        if "REJECT" not in tags_of(verdicts.get(len(pairs) + n, [])):
            raise vlib.ToolError("self-check: corrupted observation (%s) was not rejected by Trace_Parts" % q)
        rejected += 1
    if rejected == 0 and not broken:
        raise vlib.ToolError("self-check: no probe query gave a numeric reply")
    run.note("selfcheck_corrupted_observations_rejected", rejected)


def replay(path, seed):
    body = json.load(open(path))
    c = body["case"]
    vlib.build_harness()
    dump = dump_registry()
    quant_path = vlib.workfile("quant.json")
    with open(quant_path, "w") as f:
        json.dump([{"name": q["name"], "dims": q["dims"]} for q in dump["quantities"]], f)
    lookups = Lookups(1)
    q = c["q"]
    src = c.get("source")
    res = evalkit.run_eval([{"qs": q}], ctx="bundled", shards=1, tag="c06r")
    src_res = evalkit.run_eval([{"qs": src}], ctx="bundled", shards=1, tag="c06rs") if src else []
    tgt = q.split("->", 1)[1].strip() if "->" in q else ""
    events, idx, skipped = build_events([{"qs": q, "src": 0 if src else None, "base": base_of_target(tgt)}], res, src_res, lookups)
    if not events:
        log("query %r: no numeric reply (%s)" % (q, skipped))
        return 0
    verdicts, _ = judge(events, 1, "c06rj", quant_path)
    ev = events[0]
    log("query: %r\nmain: %s\nlist: %s\nverdict: %s" % (q, describe_parts(ev.get("main")), [describe_parts(p) for p in ev.get("list", ())],
                                                       verdicts.get(0, "ACCEPT")))
    return 1 if "REJECT" in tags_of(verdicts.get(0, [])) else 0
