"""C05 - printed numerals denote the computed value.
TLC enumerates (p/q, base, digits modes) from MC_NumGen; rv-num asks the real formatter (Numeric::to_string,
Number::to_parts_digits and the query forms `p/q -> digits N base B`) what it prints; the judge specification
Trace_Numeral reads every printed numeral back with Numeral.tla (a denotational specification of the numeral
grammar) and checks exact / truncated-within-one-ulp / period / approx-marker rules with the specification's
own unbounded arithmetic."""
import json
import random
import time

import evalkit
import numkit
import vlib
from vlib import log

PROP = "C05"
QUICK_BASES = [2, 3, 7, 8, 10, 12, 16, 32, 36]
FAMILIES = ("GenSmall", "GenBoundary", "GenPeriod", "GenMagnitude", "GenBig", "GenLong", "GenRun")


def numeral_selftest(run):
    r = vlib.tlc("MC_Numeral", "MC_Numeral", workers=1, timeout=600, tag="numst")
    vlib.require_ok(r, "MC_Numeral")
    if '<<"NUMERAL_SELFTEST", TRUE, TRUE>>' not in r.stdout:
        raise vlib.ToolError("Numeral self-test did not report TRUE/TRUE")
    run.note("numeral_selftest", "Numeral.tla reads 50 hand-checked numerals (all shapes, both readings of `e`, fractions in the base) as expected; "
                                 "digit conversion agrees with BigNum in bases 2..36")


def gen_cases(tag, bases, seed, smallmax, maxk, stride_cheap, stride_mid, stride_long, stride_neg, bigks, stride_big,
              longbases, longls, stride_longint, stride_longslow, runlens, workers=4):
    cfg = vlib.workfile("NumGen_%s.cfg" % tag)
    with open(cfg, "w") as f:
        f.write("SPECIFICATION Spec\nINVARIANT Emit\nCHECK_DEADLOCK FALSE\nCONSTANTS\n")
        f.write("  Bases = {%s}\n  Seed = %d\n  SmallMax = %d\n  MaxK = %d\n" % (", ".join(map(str, bases)), seed % 1000, smallmax, maxk))
        f.write("  StrideCheap = %d\n  StrideMid = %d\n  StrideLong = %d\n  StrideNeg = %d\n" % (stride_cheap, stride_mid, stride_long, stride_neg))
        f.write("  BigKs = {%s}\n  StrideBig = %d\n" % (", ".join(map(str, bigks)), stride_big))
        f.write("  LongBases = {%s}\n  LongLs = {%s}\n  StrideLongInt = %d\n  StrideLongSlow = %d\n  RunLens = {%s}\n" % (
            ", ".join(map(str, longbases)), ", ".join(map(str, longls)), stride_longint, stride_longslow, ", ".join(map(str, runlens))))
    r = vlib.tlc("MC_NumGen", cfg, workers=workers, timeout=3000, coverage=True, tag="gen" + tag, xmx="8g")
    vlib.require_ok(r, "MC_NumGen")
    for a in FAMILIES:
        if r.coverage.get(a, (0, 0))[0] == 0:
            raise vlib.ToolError("vacuity gate: generator action %s was never taken" % a)
    return vlib.tagged_json(r, "CASE"), r


def jobs_of(cases, query_every=1):
    jobs = []
    for ci, c in enumerate(cases):
        if c["f"] == "run":
            continue
        for (mode, n) in sorted(map(tuple, c["modes"])):
            jobs.append({"p": c["p"], "q": c["q"], "base": c["base"], "mode": mode, "n": n, "fam": c["f"],
                         "query": (len(jobs) % query_every) == 0})
    return jobs


def runs_of(cases):
    """the Run family: run id -> its jobs in the order they are to be printed (steps by `pos`, modes in a fixed order)"""
    runs = {}
    for c in cases:
        if c["f"] == "run":
            runs.setdefault(tuple(c["run"]), []).append(c)
    out = {}
    for rid, steps in sorted(runs.items()):
        steps.sort(key=lambda c: c["pos"])
        out[rid] = [{"p": c["p"], "q": c["q"], "base": c["base"], "mode": mode, "n": n, "fam": "run", "query": True}
                    for c in steps for (mode, n) in sorted(map(tuple, c["modes"]))]
    return out


def describe(res):
    return {"p": numkit.unz(res["p"]) if res.get("p") else None, "q": numkit.unlimbs(res["q"]) if res.get("q") else None,
            "base": res.get("base"), "mode": res.get("mode"), "n": res.get("n")}


def cost_of(ev):
    """reading a numeral back costs about (digits + |exponent|)^2"""
    def size(t):
        k = len(t)
        while k > 0 and 48 <= t[k - 1] <= 57:
            k -= 1
        digits = "".join(chr(c) for c in t[k:])
        if k > 0 and t[k - 1] == 45:
            k -= 1
        if 1 < k < len(t) and t[k - 1] == 101 and 0 < len(digits) <= 7:
            return len(t) + int(digits)
        return len(t)
    # bases 2, 4, 8, 16 fill the limbs of the specification's numbers directly; the others are converted by repeated multiplication
    slow = 1 if ev.get("base") in (2, 4, 8, 16) else 8
    return slow * sum(size(c.get("t", ())) ** 2 for c in ev["checks"]) + 400


def judge_balanced(events, shards, tag, timeout=3600):
    """Trace_Numeral on events; long numerals cost quadratically, so lines are dealt to shards by cost.
    Returns verdicts (dict idx -> {tag: [detail...]}) and TLC stats."""
    order = sorted(range(len(events)), key=lambda i: -cost_of(events[i]))
    shards = max(1, min(shards, (len(events) + 199) // 200))
    bins = [[] for _ in range(shards)]
    load = [0] * shards
    for i in order:
        k = load.index(min(load))
        bins[k].append(i)
        load[k] += cost_of(events[i])
    perm = [i for b in bins for i in b]
    # evalkit.judge splits consecutively into equal counts; use one call per bin instead
    import concurrent.futures as cf
    verdicts = {}
    stats = {"distinct": 0, "generated": 0}

    def one(k):
        evs = [events[i] for i in bins[k]]
        v, st = evalkit.judge(evs, "Trace_Numeral", shards=1, tag="%s%d" % (tag, k), timeout=timeout, min_per_shard=1)
        return k, v, st

    with cf.ThreadPoolExecutor(max_workers=shards) as ex:
        for k, v, st in ex.map(one, range(shards)):
            for j, tags in v.items():
                verdicts[bins[k][j]] = tags
            stats["distinct"] += st["distinct"]
            stats["generated"] += st["generated"]
    return verdicts, stats


def decide(run, jobs, leg, shards, chunk=120000):
    """judge what the formatter prints for jobs (in chunks, to bound memory); returns (unsupported count, a few results)"""
    nunsup, keep = 0, []
    for k in range(0, len(jobs), chunk):
        u, res = decide_chunk(run, jobs[k:k + chunk], leg if len(jobs) <= chunk else "%s%d" % (leg, k // chunk), shards)
        nunsup += u
        rng = random.Random(k)
        keep += rng.sample(res, min(4, len(res)))
        longest = max(res, key=lambda r: len(r.get("text", ())), default=None)
        if longest is not None:
            keep.append(longest)
    return nunsup, keep


def decide_chunk(run, jobs, leg, shards):
    t0 = time.time()
    res = numkit.run_num(jobs, shards=shards, tag="c05" + leg)
    return judge_results(run, res, leg, shards, t0)


def job_key(r):
    d = describe(r)
    return [d["p"], d["q"], d["base"], d["mode"], d["n"]]


def decide_runs(run, runs, shards):
    """every run in a worker process of its own, its numerals one after another in the run's order; each numeral is judged
    by the same law as everywhere else.  A rejected numeral carries the steps printed before it (`after`) for the replay."""
    import concurrent.futures as cf
    t0 = time.time()
    rids = list(runs)

    def one(k):
        return numkit.run_num(runs[rids[k]], shards=1, tag="c05run%d" % k)

    with cf.ThreadPoolExecutor(max_workers=shards) as ex:
        parts = list(ex.map(one, range(len(rids))))
    res, extra = [], []
    for rid, part in zip(rids, parts):
        for i, r in enumerate(part):
            res.append(r)
            extra.append({"run": list(rid), "after": [job_key(x) for x in part[:i]]})
    # The values of a run have at most a few hundred digits and short recurring blocks.  A formatter that is led astray by what
    # it printed before emits hundreds of thousand-digit numerals, which cost the judge seconds each: numerals beyond 500
    # characters are judged 40 at first, and the rest only if nothing has been rejected so far (nothing is ever passed unjudged).
    big = [i for i, r in enumerate(res) if len(r.get("text", ())) > 500]
    later = set(big[40:])
    first = [i for i in range(len(res)) if i not in later]
    before = len(run.violations) + sum(run.known_hits.values())
    nunsup, _ = judge_results(run, [res[i] for i in first], "run", shards, t0, [extra[i] for i in first])
    if later:
        if len(run.violations) + sum(run.known_hits.values()) == before:
            u, _ = judge_results(run, [res[i] for i in sorted(later)], "run2", shards, time.time(), [extra[i] for i in sorted(later)])
            nunsup += u
        else:
            run.note("run_numerals_not_judged_after_rejections", len(later))
    return nunsup, res


def judge_results(run, res, leg, shards, t0, extra=None):
    t1 = time.time()
    events = [numkit.num_event(r) for r in res]
    verdicts, st = judge_balanced(events, shards, "c05j" + leg)
    log("[C05] leg %s: %d numerals requests, rv-num %.1fs, judge %.1fs" % (leg, len(res), t1 - t0, time.time() - t1))
    run.cov["states"] += st["distinct"]
    run.cov["transitions"] += st["generated"]
    run.traces(len(events))
    nunsup = 0
    for i, (r, ev) in enumerate(zip(res, events)):
        run.count()
        v = verdicts.get(i, set())
        case = describe(r)
        case["leg"] = leg
        if extra:
            case.update(extra[i])
        if "crash" in r:
            case["crash"] = r["crash"]
            run.violation(case, "a numeral denoting p/q", {k: r.get(k) for k in ("crash", "msg", "signal")}, "numeral")
            continue
        text = numkit.txt(r["text"])
        if "UNSUPPORTED" in v:
            nunsup += 1
            if nunsup <= 3:
                run.drift_note("Numeral", "numeral %r (p/q=%s/%s base %s mode %s) is outside the grammar of Numeral.tla" % (
                    text[:80], case["p"], case["q"], case["base"], case["mode"]))
        if not (r["mode"] == "default" and case["q"] == 1 and abs(case["p"]) < r["base"]):
            run.nontrivial((case["p"], case["q"], case["base"], case["mode"], case["n"]))
        if len(text) > 200:
            run.notes["long_numerals_over_200_chars"] = run.notes.get("long_numerals_over_200_chars", 0) + 1
        if "REJECT" in v:
            case["text"] = text[:200]
            run.violation(case, "exact numerals denote p/q; approximate numerals are p/q truncated toward zero within one unit of the "
                                "last digit; `approx.` exactly when the numeral is not exact; stated period = block length",
                          {"is_exact": r["is_exact"], "text": text[:2000], "parts_exact": numkit.txt(r.get("pe")),
                           "parts_approx": numkit.txt(r.get("pa")), "query": numkit.txt(r.get("qs")),
                           "query_exact": numkit.txt(r.get("qe")), "query_approx": numkit.txt(r.get("qa"))}, "numeral")
    return nunsup, res


def corrupt_selfcheck(run):
    """the binding is not vacuous: hand-written observations (independent of the code under test), each rule once:
    the truthful ones must be accepted, the corrupted ones rejected"""
    def obs(p, q, base, mode, is_exact, text, pe, pa):
        return {"p": numkit.zjson(p), "q": numkit.limbs(q), "base": base, "mode": mode, "n": 0, "is_exact": is_exact,
                "text": numkit.cps(text), "pe": numkit.cps(pe) if pe else None, "pa": numkit.cps(pa) if pa else None}
    good = [obs(1, 17, 10, "default", False, "0.05882352", "1/17", "0.05882352"),
            obs(1000, 3, 16, "default", True, "14d.[5]...", "14d.[5]...", None),
            obs(1, 17, 10, "full", True, "0.[0588235294117647, period 16]...", "0.[0588235294117647, period 16]...", None),
            obs(5, 8, 10, "default", True, "0.625", "0.625", None),
            obs(-1000, 3, 36, "sci", True, "-9.9ce1", "-9.9ce1", None),
            obs(1, 1000, 16, "default", False, "0.004189374", "1/3e8", "0.004189374"),
            obs(255, 7, 16, "frac", True, "ff/7", "ff/7", None),
            obs(255, 9, 8, "frac", True, "377/11", "377/11", None)]
    bad = [obs(1, 17, 10, "default", False, "0.05882353", "1/17", "0.05882353"),                  # last digit rounded up
           obs(1000, 3, 16, "default", True, "14d.6[5]...", "14d.6[5]...", None),                 # block one place too late
           obs(1, 17, 10, "full", True, "0.[0588235294117647, period 15]...", "0.[0588235294117647, period 15]...", None),
           obs(5, 8, 10, "default", False, "0.625", None, "0.625"),                               # exact numeral behind `approx.`
           obs(-1000, 3, 36, "sci", True, "-9.9ce2", "-9.9ce2", None),                            # exponent off by one
           obs(1, 1000, 16, "default", False, "0.004189374", "1/1000", "0.004189374"),            # decimal fraction in a hex reply
           obs(255, 7, 16, "frac", True, "255/7", "255/7", None),                                 # decimal numerator in a hex reply
           obs(255, 9, 8, "frac", True, "255/9", "255/9", None)]                                  # digit 9 in an octal reply
    evs = [numkit.num_event(r) for r in good + bad]
    verdicts, _ = evalkit.judge(evs, "Trace_Numeral", shards=1, tag="c05selfj", min_per_shard=1)
    for i in range(len(good)):
        if verdicts.get(i):
            raise vlib.ToolError("self-check: truthful observation %d was not accepted: %s" % (i, verdicts.get(i)))
        if "REJECT" not in verdicts.get(len(good) + i, set()):
            raise vlib.ToolError("self-check: corrupted observation %d was not rejected by Trace_Numeral" % i)
    run.note("selfcheck_corrupted_observations_rejected", len(bad))


def run(tier, seed):
    run = vlib.Run(PROP, tier, seed, "model_checking")
    thorough = tier == "thorough"
    run.cov["rule"] = ("TLC (MC_NumGen) enumerates p/q x base x digits modes: lowest-terms p/q up to SmallMax, (b^k+-1)/(b^j+-1) for k, j <= 12, "
                       "denominators of period 1..982 and 1000003, (a^k+-1)/(c^j+-1) of hundreds to thousands of bits, magnitudes across the 1e9/1e-9 notation switch, negatives by stride; default mode "
                       "for every value, the other modes by seed-rotated strides; (m*b^L+s)/q with an integer part of more than 1000 digits in the base it is "
                       "printed in, every digits mode; runs of ten 64..258-digit values printed one after another by one worker process in rotating bases "
                       "(2, 7, 10, 16, 36), equal digit counts, each numeral judged on its own. non-trivial = distinct (p, q, base, mode, N) other than a "
                       "single-digit integer in default mode.")
    run.assumptions += ["harness trusted for: string <-> code points, num-bigint <-> base-4096 limbs, building the query text p/q -> mode base",
                        "every numeral of a reply is read in the reply's base: the numerator and the denominator of a fraction and the "
                        "integers of `-> frac` too (no decimal reading in another base; `1/1000` in a hexadecimal reply is 1/4096)",
                        "float-valued results are outside this check (their `approx.` marker describes the value, not the numeral)"]
    vlib.build_harness()
    numeral_selftest(run)
    shards = 14 if thorough else 8
    if thorough:
        cases, r = gen_cases("c05", list(range(2, 37)), seed, 90, 12, 2, 12, 80, 3, [64, 300, 1000], 15,
                             [2, 7, 10, 16, 36], [1020, 1200], 3, 36, [64, 65, 100, 129, 257], workers=6)
    else:
        cases, r = gen_cases("c05", QUICK_BASES, seed, 40, 12, 6, 80, 600, 3, [64, 300], 20,
                             [2, 10, 16], [1020], 9, 36, [64, 100])
    run.add_tlc(r, "MC_NumGen")
    jobs = jobs_of(cases, query_every=1 if thorough else 2)
    runs = runs_of(cases)
    if not any(c["f"] == "long" for c in cases) or not runs:
        raise vlib.ToolError("vacuity gate: no case of the Long / Run family")
    long_jobs = [j for j in jobs if j["mode"] == "full" or (j["mode"] == "digits" and j["n"] >= 50)]
    short_jobs = [j for j in jobs if not (j["mode"] == "full" or (j["mode"] == "digits" and j["n"] >= 50))]
    log("[C05] %d cases from TLC: %d short-mode numeral requests, %d long-mode, %d runs of %d numerals in one worker each" % (
        len(cases), len(short_jobs), len(long_jobs), len(runs), max(len(v) for v in runs.values())))
    u1, res1 = decide(run, short_jobs, "short", shards)
    u2, res2 = decide(run, long_jobs, "long", shards)
    u3, res3 = decide_runs(run, runs, shards)
    longest = max(res2, key=lambda r: len(r.get("text", ())), default=None)
    run.note("unsupported_numerals", u1 + u2 + u3)
    run.note("integer_parts_over_1000_digits", sum(1 for c in cases if c["f"] == "long"))
    run.note("runs_in_one_worker", len(runs))
    for r in res1[:3] + res2[:2] + ([longest] if longest else []):
        if "text" in r:
            d = describe(r)
            d.update({"is_exact": r["is_exact"], "text": numkit.txt(r["text"])[:120]})
            run.sample(d)
    corrupt_selfcheck(run)
    return run.finish()


def replay(path, seed):
    body = json.load(open(path))
    c = body["case"]
    vlib.build_harness()
    def job_of(k):
        return {"p": numkit.zjson(k[0]), "q": numkit.limbs(k[1]), "base": k[2], "mode": k[3], "n": k[4], "query": True}
    # a numeral of the Run family is printed after the earlier steps of its run, in the same worker process
    jobs = [job_of(k) for k in c.get("after", [])] + [job_of([c["p"], c["q"], c["base"], c["mode"], c.get("n", 0)])]
    res = numkit.run_num(jobs, shards=1, tag="c05r")
    ev = numkit.num_event(res[-1])
    verdicts, _ = evalkit.judge([ev], "Trace_Numeral", shards=1, tag="c05rj", min_per_shard=1)
    r = res[-1]
    log("p/q = %s/%s base %s mode %s %s\nobserved: %s\nverdict: %s" % (
        c["p"], c["q"], c["base"], c["mode"], c.get("n", 0),
        {k: (numkit.txt(r[k]) if isinstance(r.get(k), list) else r.get(k)) for k in ("is_exact", "text", "pe", "pa", "qs", "qe", "qa", "crash")},
        verdicts.get(0, {"ACCEPT"})))
    return 1 if (verdicts.get(0, set()) & {"REJECT", "CRASH"}) or "crash" in r else 0
