import sys,json; sys.path.insert(0,'/verif/bin')
import vlib
r=vlib.tlc(sys.argv[1],sys.argv[1],workers=1,timeout=300,env={"TRACE":sys.argv[2]},deque=True)
print(r.ok, round(r.wall,1))
print("\n".join(l for l in r.stdout.splitlines() if l.startswith("<<") or "rror" in l)[:3000])
if not r.ok: print(r.stdout[-3500:])
