#!/bin/bash
# regenerates spec/TzNames.tla from the chrono-tz version /repo links (run after a dependency bump)
set -e
/verif/harness/target/release/rv-eval tznames > /verif/work/tz.txt
python3 - <<'PY'
names=[l.strip() for l in open('/verif/work/tz.txt') if l.strip()]
out=["------------------------------- MODULE TzNames -------------------------------",
"(* generated from chrono_tz::TZ_VARIANTS by `rv-eval tznames` (bin/gen_tz.sh): the time zone",
"   names Tz::from_str accepts, as code point sequences *)","","TZNames == {"]
out.append(",\n".join("  <<%s>>" % ", ".join(str(ord(c)) for c in n) for n in names))
out.append("}")
out.append("=============================================================================")
open('/verif/spec/TzNames.tla','w').write("\n".join(out)+"\n")
PY
