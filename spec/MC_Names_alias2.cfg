SPECIFICATION Spec
CONSTANTS
  MaxUnits = 2
  MaxPrefixes = 1
  MaxLen = 4
  KindMode = "all"
  MaxAlias = 1
INVARIANTS Theorems Emit
CHECK_DEADLOCK FALSE
