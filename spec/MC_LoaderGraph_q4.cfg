SPECIFICATION Spec
CONSTANTS
  InitCase <- GInitCase
  BaseNames <- GBaseNames
  N = 4
  MaxOut = 2
  KindVecs <- KVQuick
INVARIANTS TypeOK MeasureNat TempIsStack EmittedOnce TemporariesEmpty TopoOrder CycleReported EmitGraph
PROPERTIES Progress
CHECK_DEADLOCK FALSE
