SPECIFICATION Spec
CONSTANTS
  NewLen = 3
  ErrLen = 1
  Cuts <- MCCuts
  Codes <- MCCodes
  ChunkSizes <- MCOne
  NetMayFail = FALSE
  MayLeaveLitter = FALSE
  CloseDelimited = TRUE
  WriteInPlace = FALSE
  PersistBeforeStatusCheck = FALSE
  TruncatedIsSuccess = FALSE
  SkipValidation = FALSE
  FixedTempName = FALSE
  NoStaleFallback = TRUE
  AbortOnRefreshError = FALSE
INVARIANTS FallsBack
CHECK_DEADLOCK FALSE
