SPECIFICATION Spec
CONSTANTS
  InitCase <- MCInitCase
  BaseNames <- MCBaseNames
  MaxDefs = 2
  MaxFiles = 3
  PoolSel = {2,21}
INVARIANTS TopoOrder TopoOrderStrict
PROPERTIES Progress
CHECK_DEADLOCK FALSE
