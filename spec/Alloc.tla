------------------------------- MODULE Alloc -------------------------------
(***************************************************************************)
(* The sandbox allocator (sandbox/src/alloc.rs), one action per atomic     *)
(* operation of the code.  Threads issue alloc / alloc_zeroed / realloc /  *)
(* dealloc / reset_max; every fetch_add, fetch_max, fetch_sub, load and    *)
(* store on the shared counters is its own step, so TLC explores every     *)
(* sequentially-consistent interleaving of them (all counters are single   *)
(* atomics touched by RMW operations only, so SC interleavings of the RMW  *)
(* steps are exhaustive for the counter values; DESIGN.md section 5).      *)
(*                                                                         *)
(* Property C19 is stated at the bottom (Accounting, WithinLimit, PeakOK,  *)
(* RefusalClean) and, as an abstract atomic object, in AllocAbs.tla, of    *)
(* which this module is checked to be a refinement.                        *)
(***************************************************************************)
EXTENDS Integers, Sequences, FiniteSets, TLC

CONSTANTS Threads,          \* set of thread ids
          Limit,            \* configured limit
          Sizes,            \* set of request sizes (positive)
          MaxOps,           \* operations per thread
          Blocks,           \* set of block identifiers (1..k)
          ParentMayFail,    \* BOOLEAN: the wrapped allocator may return null
          ReallocTracksPeak,\* BOOLEAN: realloc does fetch_max (the repaired code)
          ResetOps,         \* BOOLEAN: threads may call reset_max (at quiescence only)
          KeepHistory       \* BOOLEAN: record the operation history (generator configs)

VARIABLES used,      \* AtomicUsize used
          max,       \* AtomicUsize max
          live,      \* [Blocks -> Nat]  size of each live block, 0 = not allocated
          pc,        \* [Threads -> label]
          loc,       \* [Threads -> record] thread-local values
          ops,       \* [Threads -> Nat] operations completed
          peakLive,  \* history: largest total of live since the last reset
          hist       \* history: sequence of completed operations (only if KeepHistory)

vars == <<used, max, live, pc, loc, ops, peakLive, hist>>

Max2(a, b) == IF a >= b THEN a ELSE b

RECURSIVE SumOver(_, _)
SumOver(f, D) == IF D = {} THEN 0
                 ELSE LET x == CHOOSE y \in D : TRUE IN f[x] + SumOver(f, D \ {x})

LiveTotal == SumOver(live, Blocks)

NoLoc == [op |-> "none", size |-> 0, blk |-> 0, new |-> 0, old |-> 0]

\* blocks a thread is currently working on (being allocated, reallocated or freed)
Busy == {loc[t].blk : t \in {u \in Threads : pc[u] # "idle"}}

FreeBlocks == {b \in Blocks : live[b] = 0 /\ b \notin Busy}
Fresh == CHOOSE b \in FreeBlocks : \A c \in FreeBlocks : b <= c

Quiescent == \A t \in Threads : pc[t] = "idle"

\* the charge a thread holds on `used` that is not (or no longer) backed by a live block
Charge(t) ==
  CASE pc[t] \in {"a_max", "a_parent", "a_undo"} -> loc[t].size
    [] pc[t] = "d_sub"                            -> loc[t].size
    [] pc[t] \in {"r_max", "r_parent", "r_undo"}  -> loc[t].size
    [] pc[t] = "r_subold"                         -> loc[t].old
    [] OTHER                                      -> 0

InFlight == SumOver([t \in Threads |-> Charge(t)], Threads)

Done(t, rec) ==
  /\ ops' = [ops EXCEPT ![t] = @ + 1]
  /\ hist' = IF KeepHistory
             THEN Append(hist, [t |-> t, op |-> rec.op, size |-> rec.size, blk |-> rec.blk, ok |-> rec.ok])
             ELSE hist

-----------------------------------------------------------------------------
Init ==
  /\ used = 0 /\ max = 0
  /\ live = [b \in Blocks |-> 0]
  /\ pc = [t \in Threads |-> "idle"]
  /\ loc = [t \in Threads |-> NoLoc]
  /\ ops = [t \in Threads |-> 0]
  /\ peakLive = 0
  /\ hist = <<>>

CanStart(t) == pc[t] = "idle" /\ ops[t] < MaxOps
               /\ \A u \in Threads : pc[u] \notin {"m_load", "m_store"}

(* ---- alloc / alloc_zeroed (alloc.rs:70-85, 94-109) ---- *)
StartAlloc(t, sz, zeroed) ==
  /\ CanStart(t) /\ FreeBlocks # {}
  /\ pc' = [pc EXCEPT ![t] = "a_add"]
  /\ loc' = [loc EXCEPT ![t] = [op |-> IF zeroed THEN "allocz" ELSE "alloc",
                                 size |-> sz, blk |-> Fresh, new |-> 0, old |-> 0]]
  /\ UNCHANGED <<used, max, live, ops, peakLive, hist>>

AAdd(t) ==   \* let new_size = used.fetch_add(size) + size; compare with limit
  /\ pc[t] = "a_add"
  /\ used' = used + loc[t].size
  /\ loc' = [loc EXCEPT ![t].new = used + loc[t].size]
  /\ pc' = [pc EXCEPT ![t] = IF used + loc[t].size <= Limit THEN "a_max" ELSE "a_undo"]
  /\ UNCHANGED <<max, live, ops, peakLive, hist>>

AMax(t) ==   \* max.fetch_max(new_size)
  /\ pc[t] = "a_max"
  /\ max' = Max2(max, loc[t].new)
  /\ pc' = [pc EXCEPT ![t] = "a_parent"]
  /\ UNCHANGED <<used, live, loc, ops, peakLive, hist>>

AParentOk(t) ==   \* parent.alloc(layout) returned a block
  /\ pc[t] = "a_parent"
  /\ live' = [live EXCEPT ![loc[t].blk] = loc[t].size]
  /\ peakLive' = Max2(peakLive, LiveTotal + loc[t].size)
  /\ pc' = [pc EXCEPT ![t] = "idle"]
  /\ loc' = [loc EXCEPT ![t] = NoLoc]
  /\ Done(t, [op |-> loc[t].op, size |-> loc[t].size, blk |-> loc[t].blk, ok |-> TRUE])
  /\ UNCHANGED <<used, max>>

AParentFail(t) ==  \* parent.alloc(layout) returned null
  /\ ParentMayFail
  /\ pc[t] = "a_parent"
  /\ pc' = [pc EXCEPT ![t] = "a_undo"]
  /\ UNCHANGED <<used, max, live, loc, ops, peakLive, hist>>

AUndo(t) ==   \* used.fetch_sub(size); return null
  /\ pc[t] = "a_undo"
  /\ used' = used - loc[t].size
  /\ pc' = [pc EXCEPT ![t] = "idle"]
  /\ loc' = [loc EXCEPT ![t] = NoLoc]
  /\ Done(t, [op |-> loc[t].op, size |-> loc[t].size, blk |-> loc[t].blk, ok |-> FALSE])
  /\ UNCHANGED <<max, live, peakLive>>

(* ---- dealloc (alloc.rs:87-91) ---- *)
StartDealloc(t, b) ==
  /\ CanStart(t) /\ live[b] > 0 /\ b \notin Busy
  /\ pc' = [pc EXCEPT ![t] = "d_parent"]
  /\ loc' = [loc EXCEPT ![t] = [op |-> "dealloc", size |-> live[b], blk |-> b, new |-> 0, old |-> 0]]
  /\ UNCHANGED <<used, max, live, ops, peakLive, hist>>

DParent(t) ==   \* parent.dealloc(ptr, layout)
  /\ pc[t] = "d_parent"
  /\ live' = [live EXCEPT ![loc[t].blk] = 0]
  /\ pc' = [pc EXCEPT ![t] = "d_sub"]
  /\ UNCHANGED <<used, max, loc, ops, peakLive, hist>>

DSub(t) ==      \* used.fetch_sub(size)
  /\ pc[t] = "d_sub"
  /\ used' = used - loc[t].size
  /\ pc' = [pc EXCEPT ![t] = "idle"]
  /\ loc' = [loc EXCEPT ![t] = NoLoc]
  /\ Done(t, [op |-> "dealloc", size |-> loc[t].size, blk |-> loc[t].blk, ok |-> TRUE])
  /\ UNCHANGED <<max, live, peakLive>>

(* ---- realloc (alloc.rs:111-126) ---- *)
StartRealloc(t, b, nsz) ==
  /\ CanStart(t) /\ live[b] > 0 /\ b \notin Busy
  /\ pc' = [pc EXCEPT ![t] = "r_add"]
  /\ loc' = [loc EXCEPT ![t] = [op |-> "realloc", size |-> nsz, blk |-> b, new |-> 0, old |-> live[b]]]
  /\ UNCHANGED <<used, max, live, ops, peakLive, hist>>

RAdd(t) ==    \* let new_used = used.fetch_add(new_size) + new_size; compare with limit
  /\ pc[t] = "r_add"
  /\ used' = used + loc[t].size
  /\ loc' = [loc EXCEPT ![t].new = used + loc[t].size]
  /\ pc' = [pc EXCEPT ![t] = IF used + loc[t].size <= Limit
                              THEN (IF ReallocTracksPeak THEN "r_max" ELSE "r_parent")
                              ELSE "r_undo"]
  /\ UNCHANGED <<max, live, ops, peakLive, hist>>

RMax(t) ==    \* max.fetch_max(new_used)   (present only in the repaired code)
  /\ pc[t] = "r_max"
  /\ max' = Max2(max, loc[t].new)
  /\ pc' = [pc EXCEPT ![t] = "r_parent"]
  /\ UNCHANGED <<used, live, loc, ops, peakLive, hist>>

RParentOk(t) ==   \* parent.realloc returned the (possibly moved) block
  /\ pc[t] = "r_parent"
  /\ live' = [live EXCEPT ![loc[t].blk] = loc[t].size]
  /\ peakLive' = Max2(peakLive, LiveTotal - loc[t].old + loc[t].size)
  /\ pc' = [pc EXCEPT ![t] = "r_subold"]
  /\ UNCHANGED <<used, max, loc, ops, hist>>

RParentFail(t) ==
  /\ ParentMayFail
  /\ pc[t] = "r_parent"
  /\ pc' = [pc EXCEPT ![t] = "r_undo"]
  /\ UNCHANGED <<used, max, live, loc, ops, peakLive, hist>>

RSubOld(t) ==    \* used.fetch_sub(old_size)
  /\ pc[t] = "r_subold"
  /\ used' = used - loc[t].old
  /\ pc' = [pc EXCEPT ![t] = "idle"]
  /\ loc' = [loc EXCEPT ![t] = NoLoc]
  /\ Done(t, [op |-> "realloc", size |-> loc[t].size, blk |-> loc[t].blk, ok |-> TRUE])
  /\ UNCHANGED <<max, live, peakLive>>

RUndo(t) ==      \* used.fetch_sub(new_size); return null; the old block is untouched
  /\ pc[t] = "r_undo"
  /\ used' = used - loc[t].size
  /\ pc' = [pc EXCEPT ![t] = "idle"]
  /\ loc' = [loc EXCEPT ![t] = NoLoc]
  /\ Done(t, [op |-> "realloc", size |-> loc[t].size, blk |-> loc[t].blk, ok |-> FALSE])
  /\ UNCHANGED <<max, live, peakLive>>

(* ---- reset_max (alloc.rs:48-52), called between requests (child.rs:82) ---- *)
StartReset(t) ==
  /\ ResetOps /\ Quiescent /\ ops[t] < MaxOps
  /\ pc' = [pc EXCEPT ![t] = "m_load"]
  /\ loc' = [loc EXCEPT ![t] = [NoLoc EXCEPT !.op = "reset"]]
  /\ UNCHANGED <<used, max, live, ops, peakLive, hist>>

MLoad(t) ==
  /\ pc[t] = "m_load"
  /\ loc' = [loc EXCEPT ![t].new = used]
  /\ pc' = [pc EXCEPT ![t] = "m_store"]
  /\ UNCHANGED <<used, max, live, ops, peakLive, hist>>

MStore(t) ==
  /\ pc[t] = "m_store"
  /\ max' = loc[t].new
  /\ peakLive' = LiveTotal
  /\ pc' = [pc EXCEPT ![t] = "idle"]
  /\ loc' = [loc EXCEPT ![t] = NoLoc]
  /\ Done(t, [op |-> "reset", size |-> 0, blk |-> 0, ok |-> TRUE])
  /\ UNCHANGED <<used, live>>

Step(t) ==
  \/ \E sz \in Sizes : StartAlloc(t, sz, FALSE) \/ StartAlloc(t, sz, TRUE)
  \/ AAdd(t) \/ AMax(t) \/ AParentOk(t) \/ AParentFail(t) \/ AUndo(t)
  \/ \E b \in Blocks : StartDealloc(t, b)
  \/ DParent(t) \/ DSub(t)
  \/ \E b \in Blocks, sz \in Sizes : StartRealloc(t, b, sz)
  \/ RAdd(t) \/ RMax(t) \/ RParentOk(t) \/ RParentFail(t) \/ RSubOld(t) \/ RUndo(t)
  \/ StartReset(t) \/ MLoad(t) \/ MStore(t)

Next == \E t \in Threads : Step(t)

Spec == Init /\ [][Next]_vars

-----------------------------------------------------------------------------
(* Property C19 *)

TypeOK == /\ used \in Nat /\ max \in Nat
          /\ \A b \in Blocks : live[b] \in Nat

\* tracked usage = live allocations + charges of operations still in flight;
\* in particular tracked usage = total live size whenever no operation is in flight
Accounting == used = LiveTotal + InFlight

\* an operation succeeds only if the resulting usage is within the limit
WithinLimit == LiveTotal <= Limit

\* the reported peak is never less than the largest usage reached since the last reset
PeakOK == max >= peakLive

\* a refused operation leaves the block table unchanged (stated on the step that completes it)
RefusalClean ==
  [][\A t \in Threads : (pc[t] \in {"a_undo", "r_undo"} /\ pc'[t] = "idle") => live' = live]_vars

\* refinement of the abstract atomic object
Abs == INSTANCE AllocAbs WITH alive <- live, apeak <- peakLive
Refines == Abs!Spec

=============================================================================
