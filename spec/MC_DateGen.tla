----------------------------- MODULE MC_DateGen -----------------------------
(***************************************************************************)
(* Generator for property C14.  A staged machine:                          *)
(*   PickDate -> PickTime -> PickOffset -> PickWriter (the instant is      *)
(*   written as a literal text in one documented pattern) -> PickForm (a   *)
(*   query around the literal).  Every complete query text is printed as   *)
(*   <<"CASE", json>>.                                                     *)
(* Modes: "grid" (boundary instants x offsets x writers; a literal is kept *)
(*   when its hash falls on residue 0 modulo K, the seed shifts the hash;  *)
(*   durations, zones, offsets and anchors of the query forms rotate with  *)
(*   the hash), "dur" (the anchor literals x every duration text x the     *)
(*   arithmetic forms), "bad" (one field of a literal pushed out of range: *)
(*   the literal must be refused, or is soft / silent as the mutation      *)
(*   says; a soft literal - second 60, minute 60, hour 24, a wrong weekday *)
(*   - is also put into the arithmetic forms: refused, or the laws hold),  *)
(*   "partial" (literals that write a time only, or an incomplete date:    *)
(*   year and ISO week, month and day without a year).                     *)
(* The invariant RoundTrip is a theorem about the specification itself:    *)
(* every generated literal has, under DateTime!Readings, exactly the       *)
(* reading it was written from (grid, dur), respectively the class the     *)
(* mutation intends (bad).                                                 *)
(***************************************************************************)
EXTENDS DateTime, TLC, Json

CONSTANTS Mode, Seed, K, FormsPer,
          Years,        \* set of years
          Days,         \* set of <<month, day>>
          Times,        \* set of <<hour, minute, second, fraction digits>>
          Offsets,      \* sequence of <<kind (0 none, 1 fixed, 2 named zone), seconds (kind 2: index into Zones)>>
          Writers,      \* set of writer names
          DurTexts,     \* sequence of duration texts (code points)
          AnchorLits,   \* sequence of literal texts (without the # marks), used by "diff" and mode "dur"
          ConvOffsets,  \* sequence of offset texts like "+05:30"
          Zones         \* sequence of zone names

VARIABLES stage, x, lit, q, form

vars == <<stage, x, lit, q, form>>

-----------------------------------------------------------------------------
(* text helpers *)
RECURSIVE PadNum(_, _)
PadNum(n, w) == IF w = 0 THEN <<>> ELSE PadNum(n \div 10, w - 1) \o <<48 + (n % 10)>>
RECURSIVE NumText(_)
NumText(n) == IF n < 10 THEN <<48 + n>> ELSE NumText(n \div 10) \o <<48 + (n % 10)>>
FracText(fr) == IF fr = <<>> THEN <<>> ELSE <<46>> \o [i \in 1..Len(fr) |-> 48 + fr[i]]
YearText(y) == IF y < 0 THEN <<45>> \o PadNum(-y, 4) ELSE PadNum(y, 4)
Cap(s) == <<s[1] - 32>> \o Tail(s)
Upper(s) == [i \in 1..Len(s) |-> IF s[i] >= 97 /\ s[i] <= 122 THEN s[i] - 32 ELSE s[i]]
SPC == <<32>>
COL == <<58>>
DSH == <<45>>
HASH == <<35>>

\* offset styles: 1 = +hh:mm, 2 = +hhmm, 3 = +h:mm (when the hour has one digit)
OffText(style, off) ==
  LET a == IF off < 0 THEN -off ELSE off
      sg == IF off < 0 THEN <<45>> ELSE <<43>>
      hh == a \div 3600
      mm == (a % 3600) \div 60
  IN CASE style = 2 -> sg \o PadNum(hh, 2) \o PadNum(mm, 2)
       [] style = 3 /\ hh < 10 -> sg \o NumText(hh) \o COL \o PadNum(mm, 2)
       [] OTHER -> sg \o PadNum(hh, 2) \o COL \o PadNum(mm, 2)
OffSuffix(c, style) == IF c.offraw # <<>> THEN SPC \o c.offraw
                       ELSE IF c.ok = 0 THEN <<>> ELSE IF c.ok = 2 THEN SPC \o Zones[c.off] ELSE SPC \o OffText(style, c.off)

\* fraction styles: 1 = as given, 2 = padded to nine digits
FracStyle(fr, style) == IF fr = <<>> \/ style = 1 \/ Len(fr) >= 9 THEN fr ELSE fr \o [i \in 1..(9 - Len(fr)) |-> 0]
Time24Full(c, fs) == PadNum(c.hh, 2) \o COL \o PadNum(c.mi, 2) \o COL \o PadNum(c.ss, 2) \o FracText(FracStyle(c.fr, fs))
Time24Short(c, fs) == IF c.ss = 0 /\ c.fr = <<>> THEN PadNum(c.hh, 2) \o COL \o PadNum(c.mi, 2) ELSE Time24Full(c, fs)
Hour12(c) == IF c.h12 >= 0 THEN c.h12 ELSE IF c.hh % 12 = 0 THEN 12 ELSE c.hh % 12
Merid(c) == IF c.hh >= 12 THEN DW_pm ELSE DW_am
Time12Full(c, fs) == PadNum(Hour12(c), 2) \o COL \o PadNum(c.mi, 2) \o COL \o PadNum(c.ss, 2) \o FracText(FracStyle(c.fr, fs))
Time12Short(c, fs) == IF c.ss = 0 /\ c.fr = <<>> THEN PadNum(Hour12(c), 2) \o COL \o PadNum(c.mi, 2) ELSE Time12Full(c, fs)
Weekday(c) == IF c.wd > 0 THEN c.wd ELSE WeekdayOf(DaysFromCivil(c.y, c.mo, c.dd))
Ordinal(c) == IF c.ord >= 0 THEN c.ord ELSE DaysFromCivil(c.y, c.mo, c.dd) - DaysBeforeYear(c.y) + 1
\* era: years <= 0 are written "n BC" with n = 1 - year by the month-name writers
EraYear(c) == IF c.y <= 0 THEN NumText(1 - c.y) ELSE YearText(c.y)
EraSuffix(c, ad) == IF c.y <= 0 THEN SPC \o Upper(DW_bc) ELSE IF ad THEN SPC \o Upper(DW_ad) ELSE <<>>
NoTime(c) == c.hh = 0 /\ c.mi = 0 /\ c.ss = 0 /\ c.fr = <<>> /\ c.ok = 0

Write(w, c) ==
  CASE w = "isoT" ->    \* year-monthnum-fullday'T'hour24:min:sec[ offset]
         YearText(c.y) \o DSH \o PadNum(c.mo, 2) \o DSH \o PadNum(c.dd, 2) \o DW_T \o Time24Full(c, 1) \o OffSuffix(c, 1)
    [] w = "iso" ->     \* year-monthnum-fullday hour24:min[:sec][ offset]
         YearText(c.y) \o DSH \o PadNum(c.mo, 2) \o DSH \o PadNum(c.dd, 2) \o SPC \o Time24Short(c, 2) \o OffSuffix(c, 2)
    [] w = "isodate" -> \* year-monthnum-fullday
         YearText(c.y) \o DSH \o PadNum(c.mo, 2) \o DSH \o PadNum(c.dd, 2)
    [] w = "ord" ->     \* year-ordinal hour24:min:sec[ offset]
         YearText(c.y) \o DSH \o PadNum(Ordinal(c), 3) \o SPC \o Time24Full(c, 1) \o OffSuffix(c, 3)
    [] w = "mdy12" ->   \* monthname day, year hour12:min[:sec] meridiem[ offset][ adbc]
         DW_MonthFull[c.mo] \o SPC \o NumText(c.dd) \o DW_comma \o SPC \o EraYear(c) \o SPC \o Time12Short(c, 1)
           \o SPC \o Merid(c) \o OffSuffix(c, 3) \o EraSuffix(c, FALSE)
    [] w = "mdy24" ->   \* Monthname day year hour24:min:sec[ offset][ adbc]
         Cap(DW_MonthAbbr[c.mo]) \o SPC \o PadNum(c.dd, 2) \o SPC \o EraYear(c) \o SPC \o Time24Full(c, 2) \o OffSuffix(c, 1)
           \o EraSuffix(c, c.dd = 1)
    [] w = "mdy" ->     \* monthname day, year
         Cap(DW_MonthFull[c.mo]) \o SPC \o NumText(c.dd) \o DW_comma \o SPC \o EraYear(c) \o EraSuffix(c, FALSE)
    [] w = "ctime" ->   \* weekday monthname day hour24:min:sec fullyear
         Cap(DW_DayAbbr[Weekday(c)]) \o SPC \o Cap(DW_MonthAbbr[c.mo]) \o SPC \o NumText(c.dd) \o SPC \o Time24Full(c, 1)
           \o SPC \o PadNum(c.y, 4)
    [] w = "ymd12" ->   \* year MONTHNAME day hour12:min:sec MERIDIEM[ offset]
         YearText(c.y) \o SPC \o Upper(DW_MonthFull[c.mo]) \o SPC \o NumText(c.dd) \o SPC \o Time12Full(c, 2) \o SPC
           \o Upper(Merid(c)) \o OffSuffix(c, 2)
    [] w = "ymd24" ->   \* year monthname day hour24:min[:sec][ offset]
         YearText(c.y) \o SPC \o DW_MonthAbbr[c.mo] \o SPC \o PadNum(c.dd, 2) \o SPC \o Time24Short(c, 1) \o OffSuffix(c, 1)

Applicable(w, c) ==
  CASE w \in {"isodate", "mdy"} -> NoTime(c)
    [] w = "ctime" -> c.ok = 0 /\ c.y >= 0
    [] w \in {"isoT", "iso", "ord", "ymd12", "ymd24"} -> TRUE
    [] OTHER -> TRUE

ExpInst(c) == InstantOf(DaysFromCivil(c.y, c.mo, c.dd), c.hh * 3600 + c.mi * 60 + c.ss - (IF c.ok = 1 THEN c.off ELSE 0), FracNanos(c.fr))

\* literals with a time only, or an incomplete date (mode "partial")
PartialWriters == {"week", "weekt", "md", "mdt", "named", "namedt24", "namedt12", "tod24", "tod12"}
DayNumber(c) == DaysFromCivil(c.y, c.mo, c.dd)
WeekText(c) == PadNum(IsoYearOf(DayNumber(c)), 4) \o DSH \o DW_W \o PadNum(IsoWeekOf(DayNumber(c)), 2)
WritePartial(w, c) ==
  CASE w = "week" ->      \* year-'W'isoweek
         WeekText(c)
    [] w = "weekt" ->     \* year-'W'isoweek hour24:min[:sec][ offset]
         WeekText(c) \o SPC \o Time24Short(c, 1) \o OffSuffix(c, 1)
    [] w = "md" ->        \* --monthnum-day
         DSH \o DSH \o PadNum(c.mo, 2) \o DSH \o NumText(c.dd)
    [] w = "mdt" ->       \* --monthnum-day hour24:min:sec[ offset]
         DSH \o DSH \o PadNum(c.mo, 2) \o DSH \o PadNum(c.dd, 2) \o SPC \o Time24Full(c, 1) \o OffSuffix(c, 2)
    [] w = "named" ->     \* monthname day
         DW_MonthFull[c.mo] \o SPC \o NumText(c.dd)
    [] w = "namedt24" ->  \* Monthname day hour24:min[:sec][ offset]
         Cap(DW_MonthAbbr[c.mo]) \o SPC \o NumText(c.dd) \o SPC \o Time24Short(c, 1) \o OffSuffix(c, 1)
    [] w = "namedt12" ->  \* monthname day hour12:min:sec meridiem[ offset]
         DW_MonthAbbr[c.mo] \o SPC \o PadNum(c.dd, 2) \o SPC \o Time12Full(c, 2) \o SPC \o Merid(c) \o OffSuffix(c, 3)
    [] w = "tod24" ->     \* hour24:min[:sec][ offset]
         Time24Short(c, 1) \o OffSuffix(c, 1)
    [] w = "tod12" ->     \* hour12:min:sec MERIDIEM[ offset]
         Time12Full(c, 1) \o SPC \o Upper(Merid(c)) \o OffSuffix(c, 2)
PartialApplicable(w, c) ==
  CASE w \in {"week", "md", "named"} -> NoTime(c) /\ (w = "week" => c.y >= 1)
    [] w = "weekt" -> c.y >= 1
    [] w \in {"tod24", "tod12"} -> c.ok # 2       \* a time of today in a named zone may fall into a gap of that zone
    [] OTHER -> TRUE

C0 == [y |-> 0, mo |-> 0, dd |-> 0, hh |-> 0, mi |-> 0, ss |-> 0, fr |-> <<>>, ok |-> 0, off |-> 0,
       h12 |-> -1, wd |-> 0, ord |-> -1, oi |-> 0, mut |-> "none", expect |-> "one", offraw |-> <<>>]

WriterIndex(w) == CASE w = "isoT" -> 1 [] w = "iso" -> 2 [] w = "isodate" -> 3 [] w = "ord" -> 4 [] w = "mdy12" -> 5
                    [] w = "mdy24" -> 6 [] w = "mdy" -> 7 [] w = "ctime" -> 8 [] w = "ymd12" -> 9 [] w = "ymd24" -> 10
                    [] w = "week" -> 11 [] w = "weekt" -> 12 [] w = "md" -> 13 [] w = "mdt" -> 14 [] w = "named" -> 15
                    [] w = "namedt24" -> 16 [] w = "namedt12" -> 17 [] w = "tod24" -> 18 [] w = "tod12" -> 19
Abs(n) == IF n < 0 THEN -n ELSE n
\* the rotation of durations / anchors / zones / forms uses a multiplicative mix of the hash (all values < 2^31)
Mix(h) == (h * 7919) % 1000003
Hash(c, w) == Abs(c.y) * 7 + c.mo * 31 + c.dd * 13 + c.hh * 3 + Len(c.fr) * 5 + c.oi * 17 + WriterIndex(w) * 11 + Seed

-----------------------------------------------------------------------------
(* query forms *)
Rot(seq, h) == seq[(h % Len(seq)) + 1]
Lit(t) == HASH \o t \o HASH
LP == <<40>>
RP == <<41>>
PLUS == <<32, 43, 32>>
MINUS == <<32, 45, 32>>
ARROW == <<32, 45, 62, 32>>
QUO == <<34>>

Forms == <<"addsub", "plus", "subadd", "minus", "diff", "convoff", "convtz", "rdiff">>
MakeQuery(f, t, h) ==
  CASE f = "lit" -> Lit(t)
    [] f = "addsub" -> LP \o Lit(t) \o PLUS \o Rot(DurTexts, h) \o RP \o MINUS \o Lit(t)
    [] f = "subadd" -> LP \o Lit(t) \o MINUS \o Rot(DurTexts, h) \o RP \o PLUS \o Rot(DurTexts, h)
    [] f = "plus" -> Lit(t) \o PLUS \o Rot(DurTexts, h)
    [] f = "minus" -> Lit(t) \o MINUS \o Rot(DurTexts, h)
    [] f = "diff" -> Lit(t) \o MINUS \o Lit(Rot(AnchorLits, h))
    [] f = "rdiff" -> Lit(Rot(AnchorLits, h)) \o MINUS \o Lit(t)
    [] f = "convoff" -> Lit(t) \o ARROW \o Rot(ConvOffsets, h)
    [] f = "convtz" -> Lit(t) \o ARROW \o QUO \o Rot(Zones, h) \o QUO

-----------------------------------------------------------------------------
(* mutations (mode "bad"): one field pushed out of range.  expect: "refuse", "soft", "silent" *)
Mutations == {"mo13", "mo00", "dd32", "dd00", "feb30", "feb29", "apr31", "hh24", "hh25", "h13", "h00", "mi60", "mi61",
              "ss61", "ss60", "ss60f", "ss99f", "frac10", "off24", "offm24", "off99", "off2500", "offmin60", "offmin99",
              "wd", "ord366", "ord000", "ord367"}
MutApplies(m, w, c) ==
  CASE m \in {"mo13", "mo00"} -> w \in {"isoT", "iso", "isodate"}
    [] m = "dd00" -> w \in {"isoT", "iso", "isodate", "mdy", "mdy24", "ymd24"}
    [] m \in {"dd32", "feb30", "apr31"} -> w \notin {"ord"}
    [] m = "feb29" -> w \notin {"ord"} /\ ~IsLeap(c.y)
    [] m \in {"hh24", "hh25"} -> w \in {"isoT", "iso", "ord", "mdy24", "ctime", "ymd24"}
    [] m \in {"h13", "h00"} -> w \in {"mdy12", "ymd12"}
    [] m \in {"mi60", "mi61"} -> w \notin {"isodate", "mdy"}
    [] m \in {"ss61", "ss60", "ss60f", "ss99f", "frac10"} -> w \in {"isoT", "ord", "mdy24", "ctime", "ymd12"}
    [] m \in {"off24", "offm24", "off99", "off2500", "offmin60", "offmin99"} ->
         w \in {"isoT", "iso", "ord", "mdy12", "mdy24", "ymd12", "ymd24"}
    [] m = "wd" -> w = "ctime"
    [] m = "ord366" -> w = "ord" /\ ~IsLeap(c.y)
    [] m \in {"ord000", "ord367"} -> w = "ord"
Mutate(m, c) ==
  CASE m = "mo13" -> [c EXCEPT !.mo = 13, !.dd = 1, !.expect = "refuse"]
    [] m = "mo00" -> [c EXCEPT !.mo = 0, !.dd = 1, !.expect = "refuse"]
    [] m = "dd32" -> [c EXCEPT !.mo = 1, !.dd = 32, !.wd = 1, !.expect = "refuse"]
    [] m = "dd00" -> [c EXCEPT !.mo = 1, !.dd = 0, !.wd = 1, !.expect = "refuse"]
    [] m = "feb30" -> [c EXCEPT !.mo = 2, !.dd = 30, !.wd = 1, !.expect = "refuse"]
    [] m = "feb29" -> [c EXCEPT !.mo = 2, !.dd = 29, !.wd = 1, !.expect = "refuse"]
    [] m = "apr31" -> [c EXCEPT !.mo = 4, !.dd = 31, !.wd = 1, !.expect = "refuse"]
    [] m = "hh24" -> [c EXCEPT !.hh = 24, !.expect = "soft"]
    [] m = "hh25" -> [c EXCEPT !.hh = 25, !.expect = "refuse"]
    [] m = "h13" -> [c EXCEPT !.h12 = 13, !.expect = "refuse"]
    [] m = "h00" -> [c EXCEPT !.h12 = 0, !.expect = "refuse"]
    [] m = "mi60" -> [c EXCEPT !.mi = 60, !.expect = "soft"]
    [] m = "mi61" -> [c EXCEPT !.mi = 61, !.expect = "refuse"]
    [] m = "ss61" -> [c EXCEPT !.ss = 61, !.fr = <<>>, !.expect = "refuse"]
    [] m = "ss60" -> [c EXCEPT !.ss = 60, !.fr = <<>>, !.expect = IF c.ok = 2 THEN "silent" ELSE "soft"]
    [] m = "ss60f" -> [c EXCEPT !.ss = 60, !.fr = <<5>>, !.expect = IF c.ok = 2 THEN "silent" ELSE "soft"]
    [] m = "ss99f" -> [c EXCEPT !.ss = 99, !.fr = <<5>>, !.expect = "refuse"]
    [] m = "frac10" -> [c EXCEPT !.fr = <<1, 2, 3, 4, 5, 6, 7, 8, 9, 0>>, !.expect = "win"]
    [] m = "off24" -> [c EXCEPT !.ok = 1, !.off = 86400, !.expect = "refuse"]
    [] m = "offm24" -> [c EXCEPT !.ok = 1, !.off = -86400, !.expect = "refuse"]
    [] m = "off99" -> [c EXCEPT !.ok = 1, !.off = 99 * 3600, !.expect = "refuse"]
    [] m = "off2500" -> [c EXCEPT !.ok = 1, !.off = 25 * 3600, !.expect = "refuse"]
    \* +hhmm with minutes of 60 and more: no offset
    [] m = "offmin60" -> [c EXCEPT !.ok = 1, !.off = 0, !.offraw = <<43, 48, 49, 54, 48>>, !.expect = "refuse"]
    [] m = "offmin99" -> [c EXCEPT !.ok = 1, !.off = 0, !.offraw = <<45, 48, 49, 57, 57>>, !.expect = "refuse"]
    [] m = "wd" -> [c EXCEPT !.wd = (WeekdayOf(DaysFromCivil(c.y, c.mo, c.dd)) % 7) + 1, !.expect = "soft"]
    [] m = "ord366" -> [c EXCEPT !.ord = 366, !.expect = "refuse"]
    [] m = "ord000" -> [c EXCEPT !.ord = 0, !.expect = "refuse"]
    [] m = "ord367" -> [c EXCEPT !.ord = 367, !.expect = "refuse"]

-----------------------------------------------------------------------------
Init == stage = "date" /\ x = C0 /\ lit = <<>> /\ q = <<>> /\ form = "none"

PickDate == /\ stage = "date" /\ Mode # "dur"
            /\ \E y \in Years : \E md \in Days :
                 /\ ValidCivil(y, md[1], md[2])
                 /\ x' = [x EXCEPT !.y = y, !.mo = md[1], !.dd = md[2]]
            /\ stage' = "time" /\ UNCHANGED <<lit, q, form>>
PickTime == /\ stage = "time"
            /\ \E t \in Times : x' = [x EXCEPT !.hh = t[1], !.mi = t[2], !.ss = t[3], !.fr = t[4]]
            /\ stage' = "offset" /\ UNCHANGED <<lit, q, form>>
PickOffset == /\ stage = "offset"
              /\ \E i \in DOMAIN Offsets : x' = [x EXCEPT !.ok = Offsets[i][1], !.off = Offsets[i][2], !.oi = i,
                                                          !.expect = IF Offsets[i][1] = 2 THEN "zoned" ELSE "one"]
              /\ stage' = "writer" /\ UNCHANGED <<lit, q, form>>
\* grid: write the instant in one pattern; keep the literal when its hash falls on residue 0
PickWriter == /\ stage = "writer" /\ Mode = "grid"
              /\ \E w \in Writers :
                   /\ Applicable(w, x) /\ Hash(x, w) % K = 0
                   /\ lit' = Write(w, x) /\ form' = w
              /\ stage' = "form" /\ UNCHANGED <<x, q>>
\* bad: mutate one field, then write
PickMutation == /\ stage = "writer" /\ Mode = "bad"
                /\ \E w \in Writers : \E m \in Mutations :
                     /\ Applicable(w, x) /\ MutApplies(m, w, x)
                     /\ x' = [Mutate(m, x) EXCEPT !.mut = m]
                     /\ lit' = Write(w, Mutate(m, x)) /\ form' = w
                /\ stage' = "form" /\ UNCHANGED q
PickForm == /\ stage = "form" /\ Mode = "grid"
            /\ LET h == Mix(Hash(x, form)) IN
               \E j \in 0..FormsPer :
                 q' = MakeQuery(IF j = 0 THEN "lit" ELSE Forms[((h + j - 1) % Len(Forms)) + 1], lit, (h \div 8) + j * 131)
            /\ stage' = "done" /\ UNCHANGED <<x, lit, form>>
\* partial: a time only, or an incomplete date
PickPartial == /\ stage = "writer" /\ Mode = "partial"
               /\ \E w \in PartialWriters :
                    /\ PartialApplicable(w, x)
                    /\ x' = [x EXCEPT !.mut = w, !.expect = "partial"]
                    /\ lit' = WritePartial(w, x) /\ form' = w
               /\ stage' = "form" /\ UNCHANGED q
\* the literal alone; a soft literal also inside the arithmetic forms (FormsPer durations / anchors each)
SoftForms == {"addsub", "subadd", "plus", "minus", "diff", "rdiff"}
BadForm == /\ stage = "form" /\ Mode \in {"bad", "partial"}
           /\ \/ q' = Lit(lit)
              \/ /\ x.expect = "soft"
                 /\ \E fm \in SoftForms : \E j \in 1..FormsPer : q' = MakeQuery(fm, lit, Mix(Hash(x, form)) + j)
           /\ stage' = "done" /\ UNCHANGED <<x, lit, form>>
\* dur: every anchor literal x every duration text x the arithmetic forms
DurForm == /\ stage = "date" /\ Mode = "dur"
           /\ \E a \in DOMAIN AnchorLits : \E d \in DOMAIN DurTexts : \E f \in {"addsub", "plus", "subadd", "minus"} :
                /\ q' = MakeQuery(f, AnchorLits[a], d - 1)
                /\ lit' = AnchorLits[a]
           /\ stage' = "done" /\ UNCHANGED <<x, form>>

Next == DurForm \/ PickDate \/ PickTime \/ PickOffset \/ PickWriter \/ PickMutation \/ PickPartial \/ PickForm \/ BadForm
Spec == Init /\ [][Next]_vars

-----------------------------------------------------------------------------
Summary == LitSummary(Lex(Lit(lit))[1].toks)
RoundTrip ==
  (stage = "form") =>
    \E s \in {Summary} :
      CASE x.expect = "one" -> /\ ~s.silent /\ s.ninvalid = 0 /\ {r.inst : r \in s.valid} = {ExpInst(x)}
                               /\ \A r \in s.valid : r.c = "fixed" /\ ~r.soft /\ r.win = 0
        [] x.expect = "zoned" -> /\ ~s.silent /\ s.ninvalid = 0 /\ {r.inst : r \in s.valid} = {ExpInst(x)}
                                 /\ \A r \in s.valid : r.c = "zoned" /\ r.win = 0
        [] x.expect = "refuse" -> ~s.silent /\ s.valid = {} /\ s.partial = {}
        [] x.expect = "partial" ->
             /\ ~s.silent /\ s.valid = {} /\ s.ninvalid = 0 /\ Cardinality(s.partial) = 1
             /\ \A pc \in s.partial :
                  /\ pc.secs = (x.hh * 3600) + (x.mi * 60) + x.ss /\ pc.ns = FracNanos(x.fr)
                  /\ pc.ok = x.ok /\ (x.ok = 1 => pc.off = x.off)
                  /\ CASE form \in {"week", "weekt"} ->
                            /\ pc.wk = IsoWeekOf(DayNumber(x)) /\ pc.hy /\ pc.y = IsoYearOf(DayNumber(x))
                            /\ pc.mo = 0 /\ pc.dd = 0 /\ ~pc.nodate
                            /\ PCFits(pc, <<x.y, x.mo, x.dd, x.hh, x.mi, x.ss, FracNanos(x.fr)>>, IF x.ok = 1 THEN x.off ELSE 0)
                       [] form \in {"tod24", "tod12"} -> pc.nodate /\ ~pc.hy /\ pc.mo = 0 /\ pc.dd = 0 /\ pc.wk = 0
                       [] OTHER -> pc.mo = x.mo /\ pc.dd = x.dd /\ ~pc.hy /\ pc.wk = 0 /\ ~pc.nodate
        [] x.expect = "soft" -> ~s.silent /\ s.valid # {} /\ \A r \in s.valid : r.soft
        [] x.expect = "win" -> ~s.silent /\ s.valid # {} /\ \A r \in s.valid : r.win = 1 /\ r.soft
        [] x.expect = "silent" -> s.silent

Emit == (stage = "done") => PrintT(<<"CASE", ToJson([q |-> q, mut |-> x.mut])>>)
=============================================================================
