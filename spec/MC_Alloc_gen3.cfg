SPECIFICATION Spec
CONSTANTS
  Threads <- MCThreads1
  Limit = 8
  Sizes = {1, 4, 8, 9}
  MaxOps = 3
  Blocks = {1, 2, 3}
  ParentMayFail = FALSE
  ReallocTracksPeak = TRUE
  ResetOps = TRUE
  KeepHistory = TRUE
INVARIANTS TypeOK Accounting WithinLimit PeakOK EmitCase
PROPERTIES RefusalClean Refines
CHECK_DEADLOCK FALSE
