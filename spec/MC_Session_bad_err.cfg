SPECIFICATION MCSpec
CONSTANTS
  MaxLen = 3
  Fault = "err"
  Queries <- MCQueries
  NoAns <- MCNoAns
  Reply <- MCReply
  Plain <- MCPlain
INVARIANTS Purity PurityRel
PROPERTIES DbConst AnsRule OffNeverSet
CHECK_DEADLOCK FALSE
