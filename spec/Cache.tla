------------------------------- MODULE Cache -------------------------------
(***************************************************************************)
(* Refreshing the currency cache (cli/src/config.rs: cached, read_if_      *)
(* current, download_to_file, force_refresh_currency, load), shaped like   *)
(* the code: one action per file-system step (open / create temp / write / *)
(* fsync / rename / unlink) plus the decisions in between (transfer ends,  *)
(* status check, validation of the downloaded document, fall back to the   *)
(* stale file, load).  The process may be killed in every state (Crash); a *)
(* second start with the server down follows every first run (NextStart),  *)
(* and after that a third run against a healthy server with the cache aged *)
(* past cache_duration (Recovery): whatever the earlier runs left behind,  *)
(* it must install the new contents.                                       *)
(*                                                                         *)
(* A 200 answer is framed by Content-Length ("ok", "cut", "stall": a short *)
(* body is a transfer error for the client) or delimited by the end of the *)
(* connection ("okclose", "cutclose": no Content-Length, no chunks - the   *)
(* client sees an orderly end of the body wherever the server stopped, the *)
(* transfer "succeeds").  Only the CONTENT tells a cut close-delimited     *)
(* body from a complete one: the document does not parse.  Hence Validate  *)
(* between the status check and the rename.                                *)
(*                                                                         *)
(* File contents are [kind, len]: "old" / "garbage" = what was in the      *)
(* cache before, "new" = a prefix of the body a 200 answer carries (len =  *)
(* NewLen is the complete body), "err" = body of a non-200 answer, "empty" *)
(* = just truncated.  Lengths are chunks in the model-checking configs and *)
(* bytes in trace validation (Trace_Cache.tla).                            *)
(*                                                                         *)
(* Property C20 is stated at the bottom: Atomic, FailKeeps,                *)
(* SuccessVisible, StartsAnyway (+ FallsBack, ChangeOnlyOnSuccess).        *)
(* The CONSTANT switches describe protocols the code must NOT implement;   *)
(* TLC shows each of them violates the property (MC_Cache_v*.cfg).         *)
(***************************************************************************)
EXTENDS Integers, Sequences, FiniteSets, TLC

CONSTANTS NewLen,        \* length of the complete new body (> 0)
          ErrLen,        \* length of the body sent with a non-200 status (> 0)
          Cuts,          \* positions after which a cutting / stalling server stops sending (subset of 0..NewLen-1)
          Codes,         \* non-200 status codes
          ChunkSizes,    \* admissible sizes of one write
          NetMayFail,    \* BOOLEAN: the transfer may also fail early / against a well-behaved server
          MayLeaveLitter,\* BOOLEAN: a failed refresh may leave its temp file behind (not a violation)
          CloseDelimited,\* BOOLEAN: the server may also answer without Content-Length ("okclose" / "cutclose")
          \* ---- protocols that are NOT the code's (each must violate the property) ----
          WriteInPlace,              \* body is written straight into the cache path (File::create)
          PersistBeforeStatusCheck,  \* rename first, look at the status afterwards
          TruncatedIsSuccess,        \* a transfer error after the headers is ignored
          SkipValidation,            \* whatever arrived with status 200 is renamed into place unread
          FixedTempName,             \* the temp file has one fixed name and is created with O_EXCL
          NoStaleFallback,           \* a failed refresh does not fall back to the stale file
          AbortOnRefreshError        \* a failed refresh aborts the start

VARIABLES prior,    \* "absent" | "fresh" | "stale" | "garbage" | "garbage_fresh"   (chosen in Init, then constant)
          server,   \* [mode, k, code]                              (chosen in Init, then constant)
          entry,    \* "startup" | "fetch"                          (chosen in Init, then constant)
          cache,    \* contents of <cache>/rink/currency.json
          age,      \* "fresh" | "stale" | "none": its mtime against cache_duration
          tmp,      \* contents of this run's temp file, NoFile if none
          litter,   \* number of temp files left behind
          pc, run,  \* program counter of the running process; 1 = the run under test, 2 = the next start (server
                    \* down), 3 = a later run against a healthy server
          sent,     \* body bytes handed to the write callback so far
          status,   \* response code seen by the client (0 = none)
          refresh,  \* "none" | "ok" | "failed": what download_to_file returned in this run
          used,     \* "none" | "old" | "new": the currency data this start loaded
          fellback, \* this start used the stale file after a failed refresh
          started,  \* this start reached the point where it answers queries
          r1        \* summary of run 1, kept for the properties that speak about the next start

vars == <<prior, server, entry, cache, age, tmp, litter, pc, run, sent, status, refresh, used, fellback, started, r1>>

Absent  == [kind |-> "absent",  len |-> 0]
NoFile  == [kind |-> "none",    len |-> 0]
Empty   == [kind |-> "empty",   len |-> 0]
Old     == [kind |-> "old",     len |-> NewLen]
Garbage == [kind |-> "garbage", len |-> 1]
NewC    == [kind |-> "new",     len |-> NewLen]

Priors == {"absent", "fresh", "stale", "garbage", "garbage_fresh"}
\* "garbage": unreadable JSON, old enough to be refreshed; "garbage_fresh": unreadable JSON with a recent mtime
PriorOf(p) == CASE p = "absent"  -> Absent
                [] p \in {"garbage", "garbage_fresh"} -> Garbage
                [] OTHER         -> Old
AgeOf(p)   == CASE p = "absent" -> "none"
                [] p \in {"fresh", "garbage_fresh"} -> "fresh"
                [] OTHER        -> "stale"
PriorC == PriorOf(prior)

Refused == [mode |-> "refused", k |-> 0, code |-> 0]
Servers ==
  {[mode |-> "ok", k |-> NewLen, code |-> 200]}
  \cup {[mode |-> "cut",   k |-> c, code |-> 200] : c \in Cuts}
  \cup {[mode |-> "stall", k |-> c, code |-> 200] : c \in Cuts \cup {-1}}   \* -1: not even headers
  \cup {[mode |-> "status", k |-> ErrLen, code |-> c] : c \in Codes}
  \cup {Refused}
  \cup (IF CloseDelimited
        THEN {[mode |-> "okclose", k |-> NewLen, code |-> 200]}
             \cup {[mode |-> "cutclose", k |-> c, code |-> 200] : c \in Cuts}
        ELSE {})

Healthy == [mode |-> "ok", k |-> NewLen, code |-> 200]
Srv == CASE run = 1 -> server
         [] run = 2 -> Refused                    \* the next start finds the server down
         [] OTHER   -> Healthy                    \* the run after that finds it in good health
Ent == IF run = 2 THEN "startup" ELSE entry       \* run 3 enters where run 1 did

LengthFramed == Srv.mode \in {"ok", "cut", "stall", "status"}
Succeeds     == {"ok", "okclose"}                 \* the server behaviours that deliver the complete new body

BodyKind  == IF Srv.mode = "status" THEN "err" ELSE "new"
BodyLimit == IF Srv.k < 0 THEN 0 ELSE Srv.k
HeadersSeen == Srv.mode \in {"ok", "cut", "status", "okclose", "cutclose"} \/ (Srv.mode = "stall" /\ Srv.k >= 0)
Valid(c) == c.kind \in {"old", "new"} /\ c.len = NewLen
\* the currency document parses: every proper prefix of it does not (its last token closes the outermost array)
Parses(c) == c.kind = "new" /\ c.len = NewLen
NoR1 == [refresh |-> "none", used |-> "none", fellback |-> FALSE, started |-> FALSE, crashed |-> FALSE, aged |-> FALSE]

-----------------------------------------------------------------------------
InitWith(p, s, e) ==
  /\ prior = p /\ server = s /\ entry = e
  /\ cache = PriorOf(p) /\ age = AgeOf(p)
  /\ tmp = NoFile /\ litter = 0
  /\ pc = IF e = "startup" THEN "cached" ELSE "download"
  /\ run = 1 /\ sent = 0 /\ status = 0
  /\ refresh = "none" /\ used = "none" /\ fellback = FALSE /\ started = FALSE
  /\ r1 = NoR1

\* the same as an action (Trace_Cache starts one recorded run after the other)
Restart(p, s, e) ==
  /\ prior' = p /\ server' = s /\ entry' = e
  /\ cache' = PriorOf(p) /\ age' = AgeOf(p)
  /\ tmp' = NoFile /\ litter' = 0
  /\ pc' = IF e = "startup" THEN "cached" ELSE "download"
  /\ run' = 1 /\ sent' = 0 /\ status' = 0
  /\ refresh' = "none" /\ used' = "none" /\ fellback' = FALSE /\ started' = FALSE
  /\ r1' = NoR1

Init == \E p \in Priors, s \in Servers, e \in {"startup", "fetch"} :
           InitWith(p, s, e)

Fixed == UNCHANGED <<prior, server, entry, run, r1>>

(* ---- cached(): File::open + read_if_current   (config.rs: cached, read_if_current) ---- *)
ReadIfCurrent ==
  /\ pc = "cached"
  /\ pc' = IF cache.kind # "absent" /\ age = "fresh" THEN "load" ELSE "download"
  /\ Fixed /\ UNCHANGED <<cache, age, tmp, litter, sent, status, refresh, used, fellback, started>>

(* ---- download_to_file: tempfile_in(cache dir) ---- *)
AfterFail == IF Ent = "fetch" THEN "done" ELSE "failed"

CreateTemp ==
  /\ pc = "download"
  /\ IF FixedTempName /\ litter > 0
     THEN /\ pc' = AfterFail /\ refresh' = "failed"             \* O_EXCL: "File exists" - a killed run left the name taken
          /\ UNCHANGED <<cache, age, tmp, sent>>
     ELSE /\ IF WriteInPlace
             THEN cache' = Empty /\ age' = "fresh" /\ tmp' = tmp      \* File::create(path): truncates the cache itself
             ELSE tmp' = Empty /\ cache' = cache /\ age' = age
          /\ sent' = 0 /\ pc' = "transfer" /\ refresh' = refresh
  /\ Fixed /\ UNCHANGED <<litter, status, used, fellback, started>>

(* ---- write callback: one call per piece of body received ---- *)
WriteChunk(n) ==
  /\ pc = "transfer" /\ n > 0
  /\ Srv.mode # "refused" /\ HeadersSeen
  /\ sent + n <= BodyLimit
  /\ sent' = sent + n
  /\ IF WriteInPlace
     THEN cache' = [kind |-> BodyKind, len |-> sent + n] /\ tmp' = tmp
     ELSE tmp' = [kind |-> BodyKind, len |-> sent + n] /\ cache' = cache
  /\ Fixed /\ UNCHANGED <<age, litter, pc, status, refresh, used, fellback, started>>

(* ---- easy.perform() returns ---- *)
TransferEnds(r) ==
  /\ pc = "transfer"
  /\ \/ /\ r = "ok"                     \* everything announced by Content-Length has arrived, or the server
        \* closed a body that is delimited by the close: complete as far as HTTP can tell, wherever it stopped
        /\ Srv.mode \in {"ok", "status", "okclose", "cutclose"} /\ sent = BodyLimit
        /\ status' = Srv.code
        /\ pc' = IF PersistBeforeStatusCheck THEN "sync" ELSE "status"
        /\ refresh' = refresh
     \/ /\ r = "err"                    \* refused, reset, cut short, timed out
        /\ \/ Srv.mode \in {"cut", "stall", "refused"} /\ sent = BodyLimit
           \/ NetMayFail
        /\ IF TruncatedIsSuccess /\ HeadersSeen
           THEN /\ status' = Srv.code
                /\ pc' = IF PersistBeforeStatusCheck THEN "sync" ELSE "status"
                /\ refresh' = refresh
           ELSE /\ status' = status
                /\ pc' = "drop"
                /\ refresh' = "failed"
  /\ Fixed /\ UNCHANGED <<cache, age, tmp, litter, sent, used, fellback, started>>

AfterOk == IF Ent = "fetch" THEN "done" ELSE "load"

(* ---- if status != 200 { return Err } ---- *)
CheckStatus ==
  /\ pc = "status"
  /\ IF status = 200
     THEN pc' = "validate" /\ refresh' = refresh
     ELSE pc' = "drop" /\ refresh' = "failed"
  /\ Fixed /\ UNCHANGED <<cache, age, tmp, litter, sent, status, used, fellback, started>>

(* ---- the downloaded file is read back and must parse as the currency document before it may replace ---- *)
(* ---- the cache; otherwise the refresh fails like any other failed download                          ---- *)
Downloaded == IF tmp # NoFile THEN tmp ELSE cache      \* (the broken protocols have it in the cache already)

Validate ==
  /\ pc = "validate"
  /\ IF SkipValidation \/ Parses(Downloaded)
     THEN IF PersistBeforeStatusCheck
          THEN pc' = AfterOk /\ refresh' = "ok"
          ELSE pc' = "sync" /\ refresh' = refresh
     ELSE pc' = "drop" /\ refresh' = "failed"
  /\ Fixed /\ UNCHANGED <<cache, age, tmp, litter, sent, status, used, fellback, started>>

(* ---- sync_all: optional as far as the property goes (crash = process kill) ---- *)
Sync ==
  /\ pc = "sync"
  /\ pc' = "persist"
  /\ Fixed /\ UNCHANGED <<cache, age, tmp, litter, sent, status, refresh, used, fellback, started>>

(* ---- temp_file.persist(path): rename(temp, cache) ---- *)
Persist ==
  /\ pc \in {"sync", "persist"}
  /\ IF WriteInPlace
     THEN UNCHANGED <<cache, age, tmp>>
     ELSE cache' = tmp /\ age' = "fresh" /\ tmp' = NoFile
  /\ IF PersistBeforeStatusCheck
     THEN pc' = "status" /\ refresh' = refresh
     ELSE pc' = AfterOk /\ refresh' = "ok"
  /\ Fixed /\ UNCHANGED <<litter, sent, status, used, fellback, started>>

(* ---- drop of the NamedTempFile on the error paths: unlink(temp) ---- *)
DropTemp ==
  /\ pc = "drop"
  /\ tmp' = NoFile /\ litter' = litter
  /\ pc' = AfterFail
  /\ Fixed /\ UNCHANGED <<cache, age, sent, status, refresh, used, fellback, started>>

AbandonTemp ==      \* the temp file stays behind: litter, not a violation
  /\ MayLeaveLitter
  /\ pc = "drop" /\ tmp # NoFile
  /\ tmp' = NoFile /\ litter' = litter + 1
  /\ pc' = AfterFail
  /\ Fixed /\ UNCHANGED <<cache, age, sent, status, refresh, used, fellback, started>>

(* ---- cached(): second File::open after a failed download ---- *)
FallbackStale ==
  /\ pc = "failed"
  /\ IF AbortOnRefreshError
     THEN pc' = "done" /\ UNCHANGED <<fellback, started>>                 \* `?` instead of the match in load()
     ELSE IF cache.kind # "absent" /\ ~NoStaleFallback
          THEN pc' = "load" /\ fellback' = TRUE /\ started' = started      \* "using stale version"
          ELSE pc' = "done" /\ fellback' = FALSE /\ started' = TRUE        \* "Failed to load currency data", goes on
  /\ Fixed /\ UNCHANGED <<cache, age, tmp, litter, sent, status, refresh, used>>

(* ---- file_to_string + Context::load_currency; a parse error is reported, the start goes on ---- *)
Load ==
  /\ pc = "load"
  /\ used' = IF Valid(cache) THEN cache.kind ELSE "none"
  /\ started' = TRUE
  /\ pc' = "done"
  /\ Fixed /\ UNCHANGED <<cache, age, tmp, litter, sent, status, refresh, fellback>>

(* ---- kill -9 at any moment: files stay as they are, the temp file becomes litter ---- *)
Crash ==
  /\ pc \notin {"done", "crashed"}
  /\ pc' = "crashed"
  /\ IF tmp # NoFile THEN tmp' = NoFile /\ litter' = litter + 1 ELSE UNCHANGED <<tmp, litter>>
  /\ Fixed /\ UNCHANGED <<cache, age, sent, status, refresh, used, fellback, started>>

(* ---- the next start: server down; the cache may have aged past cache_duration in between ---- *)
NextStart ==
  /\ run = 1 /\ pc \in {"done", "crashed"}
  /\ \E aged \in BOOLEAN :
        /\ age' = IF aged /\ age = "fresh" THEN "stale" ELSE age
        /\ aged => age = "fresh"
        /\ r1' = [refresh |-> refresh, used |-> used, fellback |-> fellback, started |-> started,
                  crashed |-> (pc = "crashed"), aged |-> aged]
  /\ run' = 2 /\ pc' = "cached"
  /\ sent' = 0 /\ status' = 0 /\ refresh' = "none" /\ used' = "none" /\ fellback' = FALSE /\ started' = FALSE
  /\ UNCHANGED <<prior, server, entry, cache, tmp, litter>>

(* ---- some time later: the server is healthy again and the cache, if there is one, is past cache_duration. ---- *)
(* ---- Nothing the earlier runs left behind (a temp file of a killed download, ...) may decide this refresh ---- *)
Recovery ==
  /\ run = 2 /\ pc \in {"done", "crashed"}
  /\ age' = IF cache.kind = "absent" THEN "none" ELSE "stale"
  /\ run' = 3 /\ pc' = IF entry = "startup" THEN "cached" ELSE "download"
  /\ sent' = 0 /\ status' = 0 /\ refresh' = "none" /\ used' = "none" /\ fellback' = FALSE /\ started' = FALSE
  /\ UNCHANGED <<prior, server, entry, cache, tmp, litter, r1>>

Step == \/ ReadIfCurrent \/ CreateTemp
        \/ \E n \in ChunkSizes : WriteChunk(n)
        \/ TransferEnds("ok") \/ TransferEnds("err")
        \/ CheckStatus \/ Validate \/ Sync \/ Persist \/ DropTemp \/ AbandonTemp \/ FallbackStale \/ Load

Next == Step \/ Crash \/ NextStart \/ Recovery

Spec == Init /\ [][Next]_vars

-----------------------------------------------------------------------------
(* Property C20 *)

TypeOK ==
  /\ prior \in Priors /\ entry \in {"startup", "fetch"}
  /\ cache.len \in 0..(IF NewLen > ErrLen THEN NewLen ELSE ErrLen)
  /\ run \in {1, 2, 3} /\ litter \in 0..3
  /\ refresh \in {"none", "ok", "failed"} /\ used \in {"none", "old", "new"}

\* the refresh verdict of the run under test, also while the next start is running
Refresh1 == IF run = 1 THEN refresh ELSE r1.refresh

\* the cache file holds exactly the previous contents or exactly the complete new contents - in every
\* state, hence also after a kill in any state
Atomic == cache = PriorC \/ cache = NewC

\* after a failed refresh the cache is unchanged (until a later refresh succeeds: run 3)
FailKeeps == (run <= 2 /\ Refresh1 = "failed") => cache = PriorC

\* ... and it changes only through a refresh that succeeded
ChangeOnlyOnSuccess == (run <= 2 /\ cache # PriorC) => Refresh1 = "ok"

\* a refresh succeeds only against a server that delivered the complete new body
SuccessIsComplete == Refresh1 = "ok" => server.mode \in Succeeds

\* a successful refresh is seen by this start (if it is one) and by the next start
SuccessVisible ==
  /\ Refresh1 = "ok" => cache = NewC
  /\ (pc = "done" /\ Ent = "startup" /\ refresh = "ok") => used = "new"
  /\ (run = 2 /\ pc = "done" /\ r1.refresh = "ok") => used = "new"

\* whatever happened to the refresh - or to the whole previous process - a start succeeds
StartsAnyway == (pc = "done" /\ Ent = "startup") => started

\* ... and uses the cached rates whenever a readable cache file exists (stale fallback)
FallsBack ==
  /\ (pc = "done" /\ Ent = "startup" /\ Valid(cache)) => used = cache.kind
  /\ (pc = "done" /\ Ent = "startup" /\ refresh = "failed" /\ Valid(cache)) => fellback

\* a refresh against a healthy server installs the new contents, whatever happened before (kills included);
\* stated for the deterministic network (with NetMayFail this very transfer may fail as well)
Recovers ==
  (run = 3 /\ pc = "done" /\ ~NetMayFail) =>
      /\ cache = NewC /\ refresh = "ok"
      /\ (Ent = "startup" => used = "new")

\* no run gets stuck
NoStuck == pc \notin {"done", "crashed"} => ENABLED Step
=============================================================================
