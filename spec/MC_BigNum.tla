------------------------------ MODULE MC_BigNum ------------------------------
(* Self-check of BigNum.tla against TLC's native integers and against algebraic
   identities on large values.  Run at the start of every check that relies on it. *)
EXTENDS BigNum, TLC

R == -70..70
Big1 == NPow(<<7>>, 300)          \* ~ 842 bits
Big2 == NAddSmall(NPow(<<3>>, 211), 5)
Big3 == NPow(<<2, 1>>, 40)        \* 4098^40

TC8(x) == x % 256
FromTC8(u) == IF u >= 128 THEN u - 256 ELSE u
RefBit(op, x, y) == FromTC8(BitOp(op, TC8(x), TC8(y), 8))

SmallOK ==
  \A a \in R, b \in R :
    /\ ZToInt(ZAdd(ZFromInt(a), ZFromInt(b))) = a + b
    /\ ZToInt(ZSub(ZFromInt(a), ZFromInt(b))) = a - b
    /\ ZToInt(ZMul(ZFromInt(a * 37), ZFromInt(b * 113))) = a * 37 * b * 113
    /\ ZCmp(ZFromInt(a), ZFromInt(b)) = (IF a < b THEN -1 ELSE IF a > b THEN 1 ELSE 0)
    /\ (b # 0 => LET q == ZToInt(ZDivTrunc(ZFromInt(a * 4099), ZFromInt(b)))
                     r == ZToInt(ZRemTrunc(ZFromInt(a * 4099), ZFromInt(b)))
                 IN /\ q * b + r = a * 4099
                    /\ (r = 0 \/ (r < 0) = (a < 0))
                    /\ (IF r < 0 THEN -r ELSE r) < (IF b < 0 THEN -b ELSE b))
    /\ (a \in -64..63 /\ b \in -64..63 =>
          /\ ZToInt(ZAnd(ZFromInt(a), ZFromInt(b))) = RefBit(1, a, b)
          /\ ZToInt(ZOr(ZFromInt(a), ZFromInt(b))) = RefBit(2, a, b)
          /\ ZToInt(ZXor(ZFromInt(a), ZFromInt(b))) = RefBit(3, a, b))

MidOK ==
  \A a \in {0, 1, 4095, 4096, 4097, 65535, 16777215, 16777216, 1000000007, 2147483647},
     b \in {1, 2, 4095, 4096, 4097, 46341, 999983, 16777217, 2147483647} :
    /\ NToInt(NDiv(NFromInt(a), NFromInt(b))) = a \div b
    /\ NToInt(NMod(NFromInt(a), NFromInt(b))) = a % b
    /\ NFromInt(NToInt(NFromInt(a))) = NFromInt(a)
    /\ (a >= b => NToInt(NSub(NFromInt(a), NFromInt(b))) = a - b)

BigOK ==
  /\ NDivMod(NAdd(NMul(Big1, Big2), Big3), Big1) = <<NAdd(Big2, NDiv(Big3, Big1)), NMod(Big3, Big1)>>
  /\ NDiv(NMul(Big1, Big3), Big3) = Big1
  /\ NMod(NMul(Big1, Big3), Big3) = <<>>
  /\ NSub(NAdd(Big1, Big2), Big2) = Big1
  /\ NAdd(NAnd(Big1, Big2), NOr(Big1, Big2)) = NAdd(Big1, Big2)
  /\ NXor(Big1, Big2) = NSub(NOr(Big1, Big2), NAnd(Big1, Big2))
  /\ NMul(NPow(<<7>>, 150), NPow(<<7>>, 150)) = Big1
  /\ NGcd(NMul(Big2, <<30>>), NMul(Big2, <<42>>)) = NMul(Big2, <<6>>)
  /\ NFromDigits(<<1, 0, 0, 0, 0, 0, 0, 0, 0, 0, 0, 0, 0>>, 10) = NPow(<<10>>, 12)
  /\ NPow2(100) = NPow(<<2>>, 100)
  /\ NFromDigits(<<15, 15, 15, 0, 1, 2, 10>>, 16) = NFromInt(268370218)
  /\ NFromDigits(<<1, 7, 7, 7, 7, 0, 1>>, 8) = NFromInt(524225)
  /\ NFromDigits(<<1, 0, 1, 1, 0, 0, 0, 0, 0, 0, 0, 0, 0, 1>>, 2) = NFromInt(11265)
  /\ NFromDigits(<<2, 1, 4, 7, 4, 8, 3, 6, 4, 7>>, 10) = NFromInt(2147483647)
  /\ NFromDigits(<<4, 0, 9, 6>>, 10) = <<0, 1>>
  /\ NFromDigits(<<7>>, 10) = <<7>>
  /\ LET x == Z(TRUE, Big1)
         y == Z(FALSE, Big2)
     IN /\ ZEq(ZAdd(ZAnd(x, y), ZOr(x, y)), ZAdd(x, y))
        /\ ZEq(ZXor(x, y), ZSub(ZOr(x, y), ZAnd(x, y)))
        /\ ZEq(ZNot(ZNot(x)), x)
  /\ QEq(QAdd(QFrac(1, 3), QFrac(1, 6)), QFrac(1, 2))
  /\ QEq(QRem(QFrac(-7, 2), QFrac(2, 1)), QFrac(-3, 2))
  /\ QEq(QPow(QFrac(-2, 3), -3), QFrac(-27, 8))
  /\ QReduce(QFrac(-6, 4)) = QFrac(-3, 2)

DivOK ==
  \A a \in {Big1, Big2, Big3, NMul(Big1, Big2), NAddSmall(NShift(<<1>>, 40), 7)},
     b \in {Big2, Big3, <<4095, 4095, 1>>, <<0, 0, 2048>>, <<1, 0, 0, 1>>, NSub(NShift(<<1>>, 20), <<1>>)} :
    LET qr == NDivMod(a, b) IN NAdd(NMul(qr[1], b), qr[2]) = a /\ NLt(qr[2], b)

ASSUME PrintT(<<"BIGNUM_SELFTEST", SmallOK, MidOK, BigOK /\ DivOK>>)
VARIABLE x
Init == x = 0
Next == UNCHANGED x
=============================================================================
