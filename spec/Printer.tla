------------------------------- MODULE Printer -------------------------------
(***************************************************************************)
(* How Rink prints expressions (Display for Expr, core/src/ast/expr.rs)    *)
(* and property C11: the printed text parses back to the same tree.        *)
(* Print(e) transcribes the printer with its precedence tables; the        *)
(* CONSTANT-free switch `fixed` selects the repaired printer (right        *)
(* operands of left-associative operators, signed factors and the subject  *)
(* of `of` parenthesised) or the original one, so that TLC can show the    *)
(* original violates RoundTrip.                                            *)
(***************************************************************************)
EXTENDS Grammar

\* Precedence: Term < Plus < Pow < Mul < Div < Add < Equals
PTermP == 0  PPlusP == 1  PPowP == 2  PMulP == 3  PDivP == 4  PAddP == 5  PEqualsP == 6

PrecFrom(op) == CASE op \in {"add", "sub"} -> PAddP
                  [] op = "pow" -> PPowP
                  [] op = "equals" -> PEqualsP
                  [] OTHER -> PDivP
PrecNext(op) == CASE op \in {"add", "sub"} -> PDivP
                  [] op = "pow" -> PTermP
                  [] op = "equals" -> PAddP
                  [] OTHER -> PMulP

S(str) == str   \* texts are code point sequences
SymbolOf(op) ==
  CASE op = "add" -> <<32, 43, 32>> [] op = "sub" -> <<32, 45, 32>> [] op = "frac" -> <<32, 47, 32>>
    [] op = "pow" -> <<94>> [] op = "equals" -> <<32, 61, 32>> [] op = "shl" -> <<32, 60, 60, 32>>
    [] op = "shr" -> <<32, 62, 62, 32>> [] op = "mod" -> <<32, 109, 111, 100, 32>>
    [] op = "and" -> <<32, 97, 110, 100, 32>> [] op = "or" -> <<32, 111, 114, 32>>
    [] op = "xor" -> <<32, 120, 111, 114, 32>>

DegreeText(d) ==
  CASE d = "celsius" -> <<176, 67>> [] d = "fahrenheit" -> <<176, 70>> [] d = "newton" -> <<176, 78>>
    [] d = "reaumur" -> <<176, 82, 233>> [] d = "romer" -> <<176, 82, 248>> [] d = "delisle" -> <<176, 68, 101>>

FuncText(f) ==
  CASE f = "sqrt" -> W_sqrt [] f = "exp" -> W_exp [] f = "ln" -> W_ln [] f = "log2" -> W_log2 [] f = "log10" -> W_log10
    [] f = "sin" -> W_sin [] f = "cos" -> W_cos [] f = "tan" -> W_tan [] f = "asin" -> W_asin [] f = "acos" -> W_acos
    [] f = "atan" -> W_atan [] f = "sinh" -> W_sinh [] f = "cosh" -> W_cosh [] f = "tanh" -> W_tanh
    [] f = "asinh" -> W_asinh [] f = "acosh" -> W_acosh [] f = "atanh" -> W_atanh [] f = "log" -> W_log
    [] f = "hypot" -> W_hypot [] f = "atan2" -> W_atan2

\* decimal digits of a natural (small values only: leaves of the enumerated trees)
RECURSIVE DigitsOf(_)
DigitsOf(n) == IF n < 10 THEN <<48 + n>> ELSE DigitsOf(n \div 10) \o <<48 + (n % 10)>>
ConstPrintable(v) == v.d = <<1>> /\ ~v.n.neg /\ NFitsInt(v.n.mag)
ConstText(v) == DigitsOf(NToInt(v.n.mag))

Wrap(cond, txt) == IF cond THEN <<40>> \o txt \o <<41>> ELSE txt
\* the printed form of e as a factor starts with a sign: -a, -a^b
RECURSIVE IsSigned(_)
IsSigned(e) == (e.k = "un" /\ e.op \in {"neg", "pos"}) \/ (e.k = "bin" /\ e.op = "pow" /\ IsSigned(e.l))

RECURSIVE Pr(_, _, _), PrSeq(_, _, _, _), PrArgs(_, _, _, _)
Pr(e, prec, fixed) ==
  CASE e.k = "unit" -> e.name
    [] e.k = "quote" -> <<39>> \o e.s \o <<39>>
    [] e.k = "const" -> ConstText(e.v)
    [] e.k = "bin" ->
         LET op == PrecFrom(e.op)
             succ == PrecNext(e.op)
             rp == IF fixed /\ e.op # "pow" THEN succ ELSE op
         IN Wrap(prec < op, Pr(e.l, succ, fixed) \o SymbolOf(e.op) \o Pr(e.r, rp, fixed))
    [] e.k = "un" ->
         IF e.op = "pos" THEN <<43>> \o Pr(e.e, PPlusP, fixed)
         ELSE IF e.op = "neg" THEN <<45>> \o Pr(e.e, PPlusP, fixed)
         ELSE Wrap(prec < PMulP, Pr(e.e, PMulP, fixed) \o <<32>> \o DegreeText(e.op))
    [] e.k = "mul" -> Wrap(prec < PMulP, PrSeq(e.es, 1, fixed, <<>>))
    [] e.k = "call" -> FuncText(e.f) \o <<40>> \o PrArgs(e.args, 1, fixed, <<>>) \o <<41>>
    [] e.k = "of" -> Wrap(prec < PAddP, e.prop \o <<32, 111, 102, 32>> \o Pr(e.e, IF fixed THEN PMulP ELSE PDivP, fixed))
    [] OTHER -> <<63>>

PrSeq(es, i, fixed, acc) ==
  IF i > Len(es) THEN acc
  ELSE LET t == Pr(es[i], PPowP, fixed)
           tt == IF i > 1 /\ fixed /\ IsSigned(es[i]) THEN <<40>> \o t \o <<41>> ELSE t
       IN PrSeq(es, i + 1, fixed, IF i = 1 THEN tt ELSE acc \o <<32>> \o tt)

PrArgs(args, i, fixed, acc) ==
  IF i > Len(args) THEN acc
  ELSE PrArgs(args, i + 1, fixed, IF i = 1 THEN Pr(args[i], PEqualsP, fixed) ELSE acc \o <<44, 32>> \o Pr(args[i], PEqualsP, fixed))

Print(e) == Pr(e, PEqualsP, TRUE)
PrintOriginal(e) == Pr(e, PEqualsP, FALSE)

\* expressions C11 speaks of: no date literals, no error nodes, literals that print exactly
RECURSIVE Printable(_), PrintableSeq(_, _)
PrintableSeq(es, i) == i > Len(es) \/ (Printable(es[i]) /\ PrintableSeq(es, i + 1))
Printable(e) ==
  CASE e.k \in {"unit", "quote"} -> TRUE
    [] e.k = "const" -> ConstPrintable(e.v)
    [] e.k = "bin" -> Printable(e.l) /\ Printable(e.r)
    [] e.k = "un" -> Printable(e.e)
    [] e.k = "mul" -> PrintableSeq(e.es, 1)
    [] e.k = "call" -> PrintableSeq(e.args, 1)
    [] e.k = "of" -> Printable(e.e)
    [] OTHER -> FALSE

\* the whole text must be consumed (the serialised form requires end of input after the expression)
ParseAll(s) == LET ts == Lex(s) r == PExpr(ts, 1) IN [e |-> r[1], done |-> Peek(ts, r[2]).k = "eof"]

RoundTrip(e) == LET p == ParseAll(Print(e)) IN p.done /\ AstEq(p.e, e)
RoundTripOriginal(e) == LET p == ParseAll(PrintOriginal(e)) IN p.done /\ AstEq(p.e, e)
=============================================================================
