---------------------------- MODULE Trace_Sandbox ----------------------------
(***************************************************************************)
(* Validates executions recorded from the real Sandbox (rv-sandbox, hook   *)
(* events of sandbox/src/parent.rs plus the caller's call/ret marks, all   *)
(* logged on the one thread that runs the caller and the parent task, so   *)
(* the log is a total order) against the actions of Sandbox.tla.           *)
(*                                                                         *)
(* One line per run: the fault sequence and the ordered events             *)
(*   call(k) spawned handshake_done request_written response(kind)         *)
(*   delivered killed ret(k, reply class, own) envkill(k)                  *)
(* `call` marks the caller entering execute (what execute then does -      *)
(* discarding the replies of abandoned requests, sending - is silent but   *)
(* only allowed after the mark); `ret` with class "abandoned" is the       *)
(* caller dropping the future; `envkill` is the outside kill of the idle   *)
(* child.  Every other event is one action of the model; the actions the   *)
(* log cannot see (child steps, OS steps, chunk-wise pipe traffic, PTake,  *)
(* PHsWrite, the restart after EPIPE) are silent and bounded by MaxSilent  *)
(* between two events.  A run is accepted  *)
(* iff some behaviour of Sandbox.tla (repaired code) produces exactly its  *)
(* event sequence with exactly its replies; then the next line starts from *)
(* a fresh initial state.  The first line no behaviour can finish is       *)
(* reported (TraceLib).                                                    *)
(***************************************************************************)
EXTENDS TraceLib, FiniteSets

VARIABLES plan, gaps, cpc, next, reqCh, respCh, taskAlive,
          ppc, cur, pw, pr, resp, brk,
          gen, cst, creq, cfr, cw, cr, expired,
          inPipe, outPipe, got, out, resent,
          l, p, sil, called

MaxSilent == 12

S == INSTANCE Sandbox WITH MaxReq <- 8,
                           Kinds <- {"ok", "slow", "panic", "overrun", "oom", "exit", "big", "abandon", "abover", "kill"},
                           GapKinds <- {0}, UniformGaps <- FALSE, PipeCap <- 2, BigChunks <- 3,
                           BreakOutAfterPanic <- TRUE, DrainAbandoned <- TRUE, RespawnOnEpipe <- TRUE

svars == <<plan, gaps, cpc, next, out, reqCh, respCh, taskAlive, ppc, cur, pw, pr, resp, brk, resent,
           gen, cst, creq, cfr, cw, cr, expired, inPipe, outPipe, got>>

PlanOf(i) == Rec[i].plan
NoGaps(i) == [k \in 1..Len(Rec[i].plan) |-> 0]   \* the real gap only removes behaviours; none is assumed
Events(i) == Rec[i].events

TInit == /\ l = 1 /\ p = 1 /\ sil = 0 /\ called = 0
         /\ IF NRec >= 1 THEN S!InitWith(PlanOf(1), NoGaps(1)) ELSE S!InitWith(<<"ok">>, <<0>>)

Silent ==
  /\ sil < MaxSilent
  /\ \/ S!PHsWrite \/ S!PTake \/ S!PWriteMore \/ S!PWriteGone \/ S!PWriteFail \/ S!PReadMore
     \/ S!Child
     \/ called = next /\ (S!CDrain \/ S!CSend)      \* inside execute, after the `call` mark
  /\ sil' = sil + 1
  /\ UNCHANGED <<l, p, called>>

ModelClass(c) == CASE c = "ok" -> "Ok" [] c = "panic" -> "Panic" [] c = "timeout" -> "Timeout"
                   [] c = "crashed" -> "Crashed" [] c = "send_failed" -> "SendFailed"
                   [] c = "recv_failed" -> "RecvFailed" [] c = "abandoned" -> "Abandoned" [] OTHER -> "Unknown"

Matches(ev) ==
  CASE ev.e = "call"            -> cpc = "idle" /\ next = ev.v /\ called' = ev.v /\ UNCHANGED svars
    [] ev.e = "envkill"         -> next = ev.v /\ S!CKill
    [] ev.e = "spawned"         -> S!PSpawn
    [] ev.e = "handshake_done"  -> S!PHsRead
    [] ev.e = "request_written" -> S!PWriteLast
    [] ev.e = "response"        -> CASE ev.v = 0 -> S!PReadLast /\ resp'.class = "Ok"
                                     [] ev.v = 1 -> S!PReadLast /\ resp'.class = "Panic"
                                     [] ev.v = 2 -> S!PReadEof
                                     [] ev.v = 3 -> S!PTimeout
                                     [] OTHER    -> FALSE
    [] ev.e = "delivered"       -> S!PDeliver
    [] ev.e = "killed"          -> S!PKill
    [] ev.e = "ret"             -> /\ next = ev.v /\ called = ev.v
                                   /\ S!CSendFail \/ S!CRecv \/ S!CRecvFail \/ S!CDrainFail \/ S!CAbandon \/ S!CAbandonEarly
                                   /\ got'[ev.v].class = ModelClass(ev.c)
                                   /\ (ev.own = 1) => got'[ev.v].of = ev.v
                                   /\ (ev.own = 0 /\ ev.c \in {"ok", "panic"}) => got'[ev.v].of # ev.v
    [] OTHER                    -> FALSE

Consume ==
  /\ l <= NRec /\ p <= Len(Events(l))
  /\ Matches(Events(l)[p])
  /\ (Events(l)[p].e # "call" => called' = called)
  /\ p' = p + 1 /\ sil' = 0 /\ l' = l

\* the whole run is explained: start the next line from a fresh initial state
NextRun ==
  /\ l <= NRec /\ p > Len(Events(l))
  /\ l' = l + 1 /\ p' = 1 /\ sil' = 0 /\ called' = 0
  /\ LET np == IF l + 1 <= NRec THEN PlanOf(l + 1) ELSE <<"ok">>
         ng == [k \in 1..Len(np) |-> 0] IN
       /\ plan' = np /\ gaps' = ng
       /\ cpc' = "idle" /\ next' = 1 /\ out' = 0
       /\ reqCh' = 0 /\ respCh' = S!NoResp /\ taskAlive' = TRUE
       /\ ppc' = "spawn" /\ cur' = 0 /\ pw' = 0 /\ pr' = 0 /\ resp' = S!NoResp /\ brk' = FALSE /\ resent' = FALSE
       /\ gen' = 0 /\ cst' = "none" /\ creq' = 0 /\ cfr' = S!NoChunk /\ cw' = 0 /\ cr' = 0 /\ expired' = FALSE
       /\ inPipe' = <<>> /\ outPipe' = <<>>
       /\ got' = <<>>

TNext == Silent \/ Consume \/ NextRun
TSpec == TInit /\ [][TNext]_<<svars, l, p, sil, called>>

Reached == Mark(l)
=============================================================================
