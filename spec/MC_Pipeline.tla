----------------------------- MODULE MC_Pipeline -----------------------------
(* design check of Pipeline.tla on a handful of requests: the machine always returns to idle,
   and only expensive requests can be given up *)
EXTENDS Pipeline, TLC
Reqs == {<<49, 43, 49>>,                                   \* 1+1
         <<49, 101, 57, 57, 57, 57, 57, 57>>,              \* 1e999999
         <<50, 94, 50, 94, 50, 94, 50, 94, 50, 94, 50>>,   \* 2^2^2^2^2^2
         <<49, 32, 60, 60, 32, 57, 57, 57, 57, 57, 57>>,   \* 1 << 999999
         <<49, 32, 109, 111, 100, 32, 48>>,                \* 1 mod 0
         <<40, 40>>}                                       \* ((
MCNext == \/ \E q \in Reqs : Submit(q)
          \/ DoParse \/ (\E o \in {"reply", "error"} : Evaluate(o)) \/ RenderText \/ RenderSpans \/ RenderJson \/ Finish \/ GiveUp
MCSpec == PInit /\ [][MCNext]_<<stage, req, outcome>> /\ WF_<<stage, req, outcome>>(MCNext)
TypeOK == stage \in Stages /\ outcome \in {"none", "reply", "error", "stopped"}
OnlyExpensiveStopped == outcome = "stopped" => Expensive(ParseQueryText(req))
CheapNeverStopped == (req = <<49, 43, 49>>) => outcome # "stopped"
ReturnsToIdle == stage # "idle" ~> stage = "idle"
=============================================================================
