----------------------------- MODULE MC_PartsGen -----------------------------
(***************************************************************************)
(* Enumerates the queries of the display check (C06).  The unit names and  *)
(* query fragments (code point tuples) come from the registry dump; the    *)
(* grids are enumerated here.                                              *)
(*                                                                         *)
(* Mode "grid":  every  <sign><m>e<3jk> <unit>^<k>  for unit in Units,     *)
(*   j in Js (10^3j runs over the SI prefix values 1e-24 .. 1e24), m in    *)
(*   Ms (just below / at / a thousand times a prefix boundary), k in Ks    *)
(*   (the boundary of a unit^k is the prefix value to the k-th power),     *)
(*   sign in Signs.  Of the (m, sign, k) combinations of one (unit, j)     *)
(*   those with  hash % Stride = 0  are emitted (Stride = 1: all).         *)
(*   (Units, Ms, Signs, Srcs, Tgts are sequences.)                         *)
(* Mode "prod":  products of at most MaxF distinct base units (in the      *)
(*   order of Units) with exponents from Exps, built one factor at a time  *)
(*   (a stack machine, so TLC's fingerprints enumerate each product once); *)
(*   the magnitude in front rotates through Ms.                            *)
(* Mode "cross": every pair  src -> tgt  of Srcs x Tgts.                   *)
(*                                                                         *)
(* Every query is printed as <<"CASE", ToJson([f, q] or [f, src, tgt])>>.  *)
(***************************************************************************)
EXTENDS Integers, Sequences, TLC, Json

CONSTANTS Mode, Units, Ms, Signs, Ks, Js, Exps, MaxF, Srcs, Tgts, Stride, Seed

VARIABLE st

RECURSIVE NatText(_)
NatText(n) == IF n < 10 THEN <<48 + n>> ELSE NatText(n \div 10) \o <<48 + (n % 10)>>
IntText(n) == IF n < 0 THEN <<45>> \o NatText(-n) ELSE NatText(n)

Init == st = [f |-> "init"]

(* ---- grid ---- *)
GridText(u, j, mi, sg, k) ==
  sg \o Ms[mi]
     \o (IF j * k = 0 THEN <<>> ELSE <<101>> \o IntText(3 * j * k))
     \o <<32>> \o Units[u]
     \o (IF k = 1 THEN <<>> ELSE <<94>> \o IntText(k))

GenGrid ==
  /\ st.f = "init"
  /\ \E u \in DOMAIN Units, j \in Js, mi \in DOMAIN Ms, si \in DOMAIN Signs, k \in Ks :
       /\ (u * 31 + (j + 8) * 7 + mi * 3 + si * 5 + k + Seed) % Stride = 0
       /\ st' = [f |-> "grid", q |-> GridText(u, j, mi, Signs[si], k)]

(* ---- products of base units: st.sel = <<<<unit index, exponent>>, ...>> ---- *)
RECURSIVE ProdText(_, _)
ProdText(sel, i) ==
  IF i > Len(sel) THEN <<>>
  ELSE <<32>> \o Units[sel[i][1]] \o (IF sel[i][2] = 1 THEN <<>> ELSE <<94>> \o IntText(sel[i][2])) \o ProdText(sel, i + 1)

RECURSIVE SelHash(_, _)
SelHash(sel, i) == IF i > Len(sel) THEN 0 ELSE sel[i][1] * 5 + sel[i][2] + 3 * SelHash(sel, i + 1)

LastIdx(sel) == IF sel = <<>> THEN 0 ELSE sel[Len(sel)][1]
GenProd ==
  /\ Mode = "prod"
  /\ LET sel == IF st.f = "init" THEN <<>> ELSE st.sel IN
     /\ Len(sel) < MaxF
     /\ \E u \in DOMAIN Units, e \in Exps :
          /\ LastIdx(sel) < u
          /\ LET s2 == Append(sel, <<u, e>>)
                 h == SelHash(s2, 1) + Seed
             IN st' = [f |-> "prod", sel |-> s2,
                       q |-> Signs[1 + (h % Len(Signs))] \o Ms[1 + (h % Len(Ms))] \o ProdText(s2, 1)]

(* ---- source -> target pairs ---- *)
GenCross ==
  /\ st.f = "init"
  /\ \E s \in DOMAIN Srcs, t \in DOMAIN Tgts :
       /\ (s * 13 + t + Seed) % Stride = 0
       /\ st' = [f |-> "cross", src |-> Srcs[s], tgt |-> Tgts[t]]

Next == CASE Mode = "grid" -> GenGrid [] Mode = "prod" -> GenProd [] Mode = "cross" -> GenCross
Spec == Init /\ [][Next]_st

Emit == st.f # "init" =>
          PrintT(<<"CASE", ToJson(IF st.f = "cross" THEN [f |-> st.f, src |-> st.src, tgt |-> st.tgt]
                                  ELSE [f |-> st.f, q |-> st.q])>>)
=============================================================================
