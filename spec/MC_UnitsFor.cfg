SPECIFICATION Spec
CONSTANTS
  MaxExp = 3
  MaxList = 3
INVARIANT Emit
CHECK_DEADLOCK FALSE
