SPECIFICATION Spec
CONSTANTS
  InitCase <- GInitCase
  BaseNames <- GBaseNames
  N = 3
  MaxOut = 3
  KindVecs <- KVFull4_3
INVARIANTS TypeOK MeasureNat TempIsStack EmittedOnce TemporariesEmpty TopoOrder CycleReported EmitGraph
PROPERTIES Progress Termination
CHECK_DEADLOCK FALSE
