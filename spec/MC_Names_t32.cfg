SPECIFICATION Spec
CONSTANTS
  MaxUnits = 3
  MaxPrefixes = 2
  MaxLen = 4
  KindMode = "parity"
INVARIANTS Theorems Emit
CHECK_DEADLOCK FALSE
