SPECIFICATION MCSpec
CONSTANTS
  MaxLen = 4
  Fault = "none"
  Queries <- MCQueries
  NoAns <- MCNoAns
  Reply <- MCReply
  Plain <- MCPlain
INVARIANTS Purity PurityRel SrcOK Emit
PROPERTIES DbConst AnsRule OffNeverSet
CHECK_DEADLOCK FALSE
