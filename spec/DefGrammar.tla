----------------------------- MODULE DefGrammar -----------------------------
(***************************************************************************)
(* The token level of definitions files (core/src/loader/gnu_units.rs):    *)
(* TLC enumerates every sequence of at most MaxLen tokens over a token     *)
(* alphabet; the text of a case is Prefix, the tokens separated by one     *)
(* blank, Suffix.  Four alphabets cover the four levels of the parser:     *)
(*   AlphaDef    definition heads: names, prefix names (`b-`, `c--`), `!`, *)
(*               `?`, `{`, `}`, `const`, numbers, newline                  *)
(*   AlphaExpr   expressions after `x `: names, numbers (incl. 0), / | ^ - *)
(*               ( ), newline                                              *)
(*   AlphaPragma `!` + category / endcategory / symbol / unknown           *)
(*               directives, quoted names, doc comments, `\` + newline     *)
(*   AlphaSubst  the inside of `s { ... }`: property names, `const`, `/`,  *)
(*               numbers (incl. 0), units, newline, `}`, doc comments      *)
(* Class(tok) names the parser path a sequence starts on (coverage of the  *)
(* enumeration is accounted per class).  What loading such a text may do   *)
(* is stated by Trace_Load.tla: return Ok or Err with messages, and leave  *)
(* a context that still answers.                                           *)
(***************************************************************************)
EXTENDS Integers, Sequences, TLC, Json

CONSTANTS Tokens,     \* sequence of [c |-> class, t |-> code points]
          Prefix, Suffix,
          MaxLen

VARIABLE toks         \* sequence of indices into Tokens

Init == toks = <<>>
Extend(i) == Len(toks) < MaxLen /\ toks' = Append(toks, i)
Next == \E i \in DOMAIN Tokens : Extend(i)
Spec == Init /\ [][Next]_toks

NL == <<10>>
Tk(c, t) == [c |-> c, t |-> t]

AlphaDef == <<Tk("name", <<97>>), Tk("longprefix", <<98, 45>>), Tk("shortprefix", <<99, 45, 45>>), Tk("bang", <<33>>),
              Tk("question", <<63>>), Tk("lbrace", <<123>>), Tk("rbrace", <<125>>), Tk("newline", NL),
              Tk("number", <<50>>), Tk("const", <<99, 111, 110, 115, 116>>)>>
AlphaExpr == <<Tk("name", <<109>>), Tk("number", <<50>>), Tk("zero", <<48>>), Tk("slash", <<47>>), Tk("pipe", <<124>>),
               Tk("caret", <<94>>), Tk("dash", <<45>>), Tk("lpar", <<40>>), Tk("rpar", <<41>>), Tk("newline", NL)>>
AlphaPragma == <<Tk("bang", <<33>>), Tk("category", <<99, 97, 116, 101, 103, 111, 114, 121>>),
                 Tk("endcategory", <<101, 110, 100, 99, 97, 116, 101, 103, 111, 114, 121>>),
                 Tk("symbol", <<115, 121, 109, 98, 111, 108>>), Tk("unknown", <<105, 110, 99, 108, 117, 100, 101>>),
                 Tk("name", <<97>>), Tk("quoted", <<34, 113, 32, 114, 34>>), Tk("newline", NL),
                 Tk("doc", <<63, 63, 32, 100, 10>>), Tk("continuation", <<92, 10>>)>>
AlphaSubst == <<Tk("name", <<112>>), Tk("name2", <<113>>), Tk("const", <<99, 111, 110, 115, 116>>), Tk("slash", <<47>>),
                Tk("number", <<50>>), Tk("zero", <<48>>), Tk("unit", <<109>>), Tk("newline", NL), Tk("rbrace", <<125>>),
                Tk("doc", <<63, 63, 32, 100, 10>>)>>

NoText == <<>>
PreExpr == <<109, 32, 33, 10, 120, 32>>                     \* "m !\nx "
PreSubst == <<109, 32, 33, 10, 115, 32, 123, 10>>           \* "m !\ns {\n"
SufSubst == <<10, 125, 10>>                                 \* "\n}\n"

Class == IF toks = <<>> THEN "empty" ELSE Tokens[toks[1]].c
ASSUME PrintT(<<"ALPHABET", ToJson([tokens |-> Tokens, prefix |-> Prefix, suffix |-> Suffix])>>)
Emit == PrintT(<<"CASE", toks>>)
=============================================================================
