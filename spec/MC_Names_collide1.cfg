SPECIFICATION Spec
CONSTANTS
  MaxUnits = 1
  MaxPrefixes = 1
  MaxLen = 4
  KindMode = "all"
  MaxAlias = 0
  MaxPAlias = 1
  MaxCollide = 1
  NN = {1, 3, 6, 10}
INVARIANTS Theorems Emit
CHECK_DEADLOCK FALSE
