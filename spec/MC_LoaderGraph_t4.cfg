SPECIFICATION Spec
CONSTANTS
  InitCase <- GInitCase
  BaseNames <- GBaseNames
  N = 4
  MaxOut = 4
  KindVecs <- KVFull4
INVARIANTS TypeOK MeasureNat TempIsStack EmittedOnce TemporariesEmpty TopoOrder CycleReported
PROPERTIES Progress
CHECK_DEADLOCK FALSE
