INIT Init
NEXT Next
