-------------------------------- MODULE Names --------------------------------
(***************************************************************************)
(* Property C07: what a unit name denotes in a database.                   *)
(*                                                                         *)
(* RELATIONAL: Resolve(db, name) is the SET of admissible denotations.     *)
(* The statement fixes the order of the four ways of reading a name        *)
(*   class 0  the name itself is a base unit or a unit            (exact)  *)
(*   class 1  prefix p + rest, rest exact:  p.value x Exact(rest) (prefix) *)
(*   class 2  name = stem + "s", stem exact                       (plural) *)
(*   class 3  name = stem + "s", stem = prefix + rest, rest exact          *)
(* and a later class is considered only when every earlier class is empty. *)
(* Within class 1 (3) several prefixes may split the name; the statement   *)
(* does not say which one wins, so every such reading is admissible.       *)
(*                                                                         *)
(* db has the shape of Eval.tla's env: base (set of names), units (name    *)
(* -> value), prefixes (sequence of [name, v]); names are code point       *)
(* sequences.  RegistryLookup (Eval.tla) is the deterministic              *)
(* transcription of Registry::lookup; TranscriptionAdmissible says it      *)
(* always picks a member of Resolve.                                       *)
(***************************************************************************)
EXTENDS Eval

IsExact(db, n) == n \in db.base \/ n \in DOMAIN db.units

\* a reading: which prefix (index into db.prefixes, 0 = none), which exactly defined stem, which class
Reading(p, stem, cls) == [pre |-> p, stem |-> stem, cls |-> cls]

ExactReadings(db, n, cls) == IF IsExact(db, n) THEN {Reading(0, n, cls)} ELSE {}

\* every prefix that starts the name and leaves an exactly defined rest.  (The rest is never empty and the
\* prefix is never the whole name: the empty name is not a unit.)
PrefixReadings(db, n, cls) ==
  {Reading(i, DropSeq(n, Len(db.prefixes[i].name)), cls) :
     i \in {j \in DOMAIN db.prefixes : /\ IsPrefixSeq(db.prefixes[j].name, n)
                                       /\ IsExact(db, DropSeq(n, Len(db.prefixes[j].name)))}}

EndsInS(n) == n # <<>> /\ n[Len(n)] = 115
Stem(n) == SubSeq(n, 1, Len(n) - 1)

\* every way the name could be read at all, whatever its rank
CandidateReadings(db, n) ==
  ExactReadings(db, n, 0) \cup PrefixReadings(db, n, 1)
  \cup (IF EndsInS(n) THEN ExactReadings(db, Stem(n), 2) \cup PrefixReadings(db, Stem(n), 3) ELSE {})

\* the admissible readings: those of the least class that has any
Readings(db, n) ==
  IF ExactReadings(db, n, 0) # {} THEN ExactReadings(db, n, 0)
  ELSE IF PrefixReadings(db, n, 1) # {} THEN PrefixReadings(db, n, 1)
  ELSE IF ~EndsInS(n) THEN {}
  ELSE IF ExactReadings(db, Stem(n), 2) # {} THEN ExactReadings(db, Stem(n), 2)
  ELSE PrefixReadings(db, Stem(n), 3)

\* what a reading denotes: the stem's value, times the prefix's value
Den(db, r) ==
  IF r.pre = 0 THEN LookupExact(db, r.stem) ELSE ScaleBy(LookupExact(db, r.stem), db.prefixes[r.pre].v)

Resolve(db, n) == {Den(db, r) : r \in Readings(db, n)}

\* equality of denotations (Q is not reduced; a float's value is not specified here, only its dimensionality)
ValEq(a, b) ==
  /\ a.t = b.t
  /\ a.t \in {"num", "float"}
  /\ DEq(a.d, b.d)
  /\ (a.t = "num" => QEq(a.v, b.v))

\* an observed value (obs = [t, v, d] with d in JSON form, or the JSON null for None) against the admissible set
ObsValue(o) == IF o.t = "num" THEN VNum(o.v, DFromJson(o.d)) ELSE VFloat(DFromJson(o.d), FALSE)
AdmissibleIn(db, R, val) == \E r \in R : ValEq(Den(db, r), val)
Admissible(db, n, val) == AdmissibleIn(db, Readings(db, n), val)

\* Canon law: canonicalising never changes the denotation.  Asserted only when canonicalize returned Some(c)
\* and the name denotes something; canonicalize(name) = None asserts nothing.
CanonOKIn(db, Rn, Rc) == Rn = {} \/ \E r1 \in Rn, r2 \in Rc : ValEq(Den(db, r1), Den(db, r2))
CanonOK(db, n, c) == CanonOKIn(db, Readings(db, n), Readings(db, c))

-----------------------------------------------------------------------------
(* Theorems, checked by TLC on a small universe (MC_Names) *)

\* a name defined exactly denotes that definition and nothing else, whatever splits or plurals also match
ExactWins(db, n) == IsExact(db, n) => Readings(db, n) = {Reading(0, n, 0)}

\* a plural reading is admissible only when the name has no exact and no prefix reading
PluralLast(db, n) ==
  (\E r \in Readings(db, n) : r.cls \in {2, 3}) =>
     (ExactReadings(db, n, 0) = {} /\ PrefixReadings(db, n, 1) = {})

\* the admissible readings are exactly the candidates of least class
LeastClass(db, n) ==
  LET C == CandidateReadings(db, n) IN
  Readings(db, n) = {r \in C : \A q \in C : r.cls <= q.cls}

\* the transcription of the code's algorithm always picks an admissible denotation (and none when there is none)
TranscriptionAdmissible(db, n) ==
  LET v == RegistryLookup(db, n) IN
  IF Readings(db, n) = {} THEN v.t = "none" ELSE v.t # "none" /\ Admissible(db, n, v)
=============================================================================
