SPECIFICATION Spec
INVARIANT Emit
CHECK_DEADLOCK FALSE
CONSTANTS
  Tokens <- AlphaDef
  Prefix <- NoText
  Suffix <- NoText
  MaxLen = 6
