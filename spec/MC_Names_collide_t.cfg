SPECIFICATION Spec
CONSTANTS
  MaxUnits = 1
  MaxPrefixes = 1
  MaxLen = 4
  KindMode = "all"
  MaxAlias = 0
  MaxPAlias = 1
  MaxCollide = 1
  NN = {1, 2, 3, 4, 5, 6, 7, 8, 9, 10, 11, 12}
INVARIANTS Theorems Emit
CHECK_DEADLOCK FALSE
