SPECIFICATION SSpec
CONSTANTS
  Threads <- SThreads2
  Limit = 8
  Sizes = {1, 4, 8, 9}
  MaxOps = 3
  Blocks = {1, 2, 3, 4}
  ParentMayFail = FALSE
  ReallocTracksPeak = TRUE
  ResetOps = FALSE
  KeepHistory = TRUE
INVARIANTS Accounting WithinLimit PeakOK EmitSched
CHECK_DEADLOCK FALSE
