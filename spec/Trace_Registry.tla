--------------------------- MODULE Trace_Registry ---------------------------
(***************************************************************************)
(* C08: the loaded database is a fixed point of its own definitions.       *)
(* Judges a dump of the real Registry (rv-load dump), given in shards      *)
(* (JSON file named by the environment variable SHARD):                    *)
(*   env    the part of the finished database the shard's definitions can  *)
(*          reach: base units, units with their stored values, the prefix  *)
(*          list in registry order, substance names                        *)
(*   defs   [name, def (AST), val (stored value)]: RegistryInv clause 1,   *)
(*          Ev(def, env) agrees with val (exact value QEq, dimensionality  *)
(*          DEq).  Definitions whose value the specification does not      *)
(*          determine exactly (floats, substances, `of`, functions) are    *)
(*          reported SILENT, counted and skipped - never an alarm.         *)
(*   struct (first shard only) the structural clauses 2-6 of RegistryInv   *)
(* A rejected definition / clause is printed and judging continues.        *)
(***************************************************************************)
EXTENDS Eval, TLC, Json, IOUtils

Shard == JsonDeserialize(IOEnv.SHARD)
Defs == Shard.defs
NDefs == Len(Defs)

VARIABLE l

ValOf(j) == IF j.t = "num" THEN VNum(j.v, DFromJson(j.d)) ELSE VFloat(DFromJson(j.d), FALSE)
SeqSet(q) == {q[i] : i \in DOMAIN q}

UnitNames == {Shard.env.units[i].name : i \in DOMAIN Shard.env.units}
JudgeEnv ==
  [base |-> SeqSet(Shard.env.base),
   units |-> [n \in UnitNames |-> ValOf(Shard.env.units[CHOOSE i \in DOMAIN Shard.env.units : Shard.env.units[i].name = n].val)],
   prefixes |-> Shard.env.prefixes,
   ans |-> VNone,
   subst |-> SeqSet(Shard.env.subst),
   closed |-> FALSE]         \* a name outside the shard's part of the database: the specification is silent

(* ---- clause 1: stored value = value of the definition in the finished database ---- *)
Verdict(d, i) ==
  \E val \in {Ev(d.def, JudgeEnv)} :
    IF Silent(val) \/ val.t \in {"float", "subst", "date", "shiftneg"} \/ d.val.t # "num" THEN PrintT(<<"SILENT", i, val.t>>)
    ELSE IF Agree(val, d.val) THEN TRUE
    ELSE PrintT(<<"REJECT", i, ToJson([name |-> d.name, spec |-> val])>>)

(* ---- clauses 2-6 ---- *)
St == Shard.struct
Base == SeqSet(St.base)
Exact == Base \cup SeqSet(St.unitnames)
Known == SeqSet(St.known)
CatIds == SeqSet(St.catids)
Real == SeqSet(St.real)
AliasNames == {St.aliases[i].name : i \in DOMAIN St.aliases}
AliasTo == [n \in AliasNames |-> St.aliases[CHOOSE i \in DOMAIN St.aliases : St.aliases[i].name = n].to]

\* the name a reading of `name` stands on (Registry::lookup: exact, prefix + exact, the same without a plural s)
RECURSIVE StemFrom(_, _)
StemFrom(name, i) ==
  IF i > Len(St.prefixes) THEN <<>>
  ELSE LET p == St.prefixes[i] IN
       IF IsPrefixSeq(p, name) /\ DropSeq(name, Len(p)) \in Exact THEN DropSeq(name, Len(p))
       ELSE StemFrom(name, i + 1)
StemWithPrefix(name) == IF name \in Exact THEN name ELSE StemFrom(name, 1)
Stem(name) ==
  IF StemWithPrefix(name) # <<>> THEN StemWithPrefix(name)
  ELSE IF name # <<>> /\ name[Len(name)] = 115 THEN StemWithPrefix(SubSeq(name, 1, Len(name) - 1))
  ELSE <<>>

\* an alias chain ends at a real definition (a base unit or a definition that is not itself an alias)
RECURSIVE Ends(_, _)
Ends(name, fuel) ==
  /\ fuel > 0
  /\ LET s == Stem(name) IN
       /\ s # <<>>
       /\ \/ s \in Real
          \/ (s \in AliasNames /\ Ends(AliasTo[s], fuel - 1))

Report(ok, clause, what) == IF ok THEN TRUE ELSE PrintT(<<"STRUCT", clause, ToJson(what)>>)

StructVerdict ==
  /\ \A i \in DOMAIN St.dims :       \* 2: declared base units only, no zero exponent, no base unit twice
       Report(DJsonOK(St.dims[i].d) /\ \A k \in DOMAIN St.dims[i].d : St.dims[i].d[k].u \in Base /\ St.dims[i].d[k].e # 0,
              "dimensionality", St.dims[i])
  /\ \A i \in DOMAIN St.quantities : \* 3: one dimensionality per quantity, one quantity per dimensionality
       Report(\A j \in DOMAIN St.quantities :
                 i # j => /\ St.quantities[i].name # St.quantities[j].name
                          /\ ~DEq(DFromJson(St.quantities[i].dims), DFromJson(St.quantities[j].dims)),
              "quantities", St.quantities[i])
  /\ \A i \in DOMAIN St.aliases :    \* 4: alias chains end
       Report(Ends(St.aliases[i].to, Len(St.aliases) + 1), "alias-chain", St.aliases[i])
  /\ \A i \in DOMAIN St.dockeys :    \* 5: docs and categories belong to existing names; category ids have display names
       Report(St.dockeys[i] \in Known, "doc-key", St.dockeys[i])
  /\ \A i \in DOMAIN St.cats :
       /\ Report(St.cats[i].name \in Known, "category-key", St.cats[i])
       /\ Report(St.cats[i].cat \in CatIds, "category-id", St.cats[i])
  /\ \A i \in DOMAIN St.prefixes :   \* 6: prefix names unique
       Report(\A j \in DOMAIN St.prefixes : St.prefixes[i] = St.prefixes[j] => i = j, "prefix-unique", St.prefixes[i])
  /\ PrintT(<<"STRUCT_DONE", Len(St.dims), Len(St.quantities), Len(St.aliases), Len(St.dockeys), Len(St.cats), Len(St.prefixes)>>)

Init == l = 0
Next == \/ l = 0 /\ (IF Shard.has_struct THEN StructVerdict ELSE TRUE) /\ l' = 1
        \/ l >= 1 /\ l <= NDefs /\ Verdict(Defs[l], l) /\ l' = l + 1
Spec == Init /\ [][Next]_l
=============================================================================
