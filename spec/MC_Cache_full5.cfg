SPECIFICATION Spec
CONSTANTS
  NewLen = 5
  ErrLen = 1
  Cuts <- MCCuts
  Codes <- MCCodes
  ChunkSizes <- MCOne
  NetMayFail = TRUE
  MayLeaveLitter = TRUE
  CloseDelimited = TRUE
  WriteInPlace = FALSE
  PersistBeforeStatusCheck = FALSE
  TruncatedIsSuccess = FALSE
  SkipValidation = FALSE
  FixedTempName = FALSE
  NoStaleFallback = FALSE
  AbortOnRefreshError = FALSE
INVARIANTS TypeOK Atomic FailKeeps ChangeOnlyOnSuccess SuccessVisible SuccessIsComplete Recovers StartsAnyway FallsBack NoStuck
CHECK_DEADLOCK FALSE
