SPECIFICATION Spec
CONSTANTS
  NewLen = 5
  ErrLen = 1
  Cuts <- MCCuts
  Codes <- MCCodes
  ChunkSizes <- MCOne
  NetMayFail = TRUE
  MayLeaveLitter = TRUE
  WriteInPlace = FALSE
  PersistBeforeStatusCheck = FALSE
  TruncatedIsSuccess = FALSE
  NoStaleFallback = FALSE
  AbortOnRefreshError = FALSE
INVARIANTS TypeOK Atomic FailKeeps ChangeOnlyOnSuccess SuccessVisible StartsAnyway FallsBack NoStuck
CHECK_DEADLOCK FALSE
