--------------------------- MODULE Trace_AllocAbs ---------------------------
(***************************************************************************)
(* Validates executions recorded from the real allocator (rv-alloc stress) *)
(* against the abstract object AllocAbs.  One line per *epoch*: the        *)
(* operations every thread issued (program order per thread, results as    *)
(* observed), then - with all threads stopped - the peak (get_max) and the *)
(* usage (reset_max; get_max).  Operations of different threads inside an  *)
(* epoch are concurrent: TLC searches for a linearization, i.e. an         *)
(* interleaving of the per-thread sequences in which every successful      *)
(* operation is an enabled AllocAbs action, the usage read at the end is   *)
(* the total live size, and the peak read is not below the largest total   *)
(* of that linearization.  No such interleaving => the line is rejected.   *)
(***************************************************************************)
EXTENDS TraceLib, FiniteSets

VARIABLES l, pos, alive, apeak

Epochs == {i \in 1..NRec : Rec[i].ev = "epoch"}
TraceBlocks == UNION {{Rec[i].ops[j].blk : j \in DOMAIN Rec[i].ops} : i \in Epochs}
TraceThreads == UNION {{Rec[i].ops[j].thr : j \in DOMAIN Rec[i].ops} : i \in Epochs}
TraceLimit == Rec[1].limit

A == INSTANCE AllocAbs WITH Limit <- TraceLimit, Sizes <- Nat, Blocks <- TraceBlocks

OpsOf(e, t) == SelectSeq(e.ops, LAMBDA o : o.thr = t)

TInit == /\ l = 1
         /\ pos = [t \in TraceThreads |-> 0]
         /\ A!Init

StepOp(t) ==
  /\ l <= NRec /\ Rec[l].ev = "epoch"
  /\ LET mine == OpsOf(Rec[l], t) IN
     /\ pos[t] < Len(mine)
     /\ LET o == mine[pos[t] + 1] IN
        /\ o.op # "corrupt"
        /\ IF o.ok
           THEN CASE o.op \in {"alloc", "allocz"} -> A!AbsAlloc(o.blk, o.size)
                  [] o.op = "realloc"             -> A!AbsRealloc(o.blk, o.size)
                  [] o.op = "dealloc"             -> A!AbsFree(o.blk)
                  [] o.op = "reset"               -> A!AbsReset
           ELSE A!AbsRefuse
  /\ pos' = [pos EXCEPT ![t] = @ + 1]
  /\ l' = l

EndEpoch ==
  /\ l <= NRec /\ Rec[l].ev = "epoch"
  /\ \A t \in TraceThreads : pos[t] = Len(OpsOf(Rec[l], t))
  /\ Rec[l].usage = A!Total           \* tracked usage = total live size at quiescence
  /\ A!Total <= TraceLimit
  /\ Rec[l].peak >= apeak             \* reported peak >= largest usage since the reset
  /\ A!AbsReset
  /\ pos' = [t \in TraceThreads |-> 0]
  /\ l' = l + 1

EndRun ==   \* every thread has freed its blocks; usage must be back to zero
  /\ l <= NRec /\ Rec[l].ev = "end"
  /\ Rec[l].usage = 0
  /\ alive' = [b \in TraceBlocks |-> 0] /\ apeak' = 0
  /\ l' = l + 1 /\ UNCHANGED pos

TNext == (\E t \in TraceThreads : StepOp(t)) \/ EndEpoch \/ EndRun
TSpec == TInit /\ [][TNext]_<<l, pos, alive, apeak>>

Reached == Mark(l)
=============================================================================
