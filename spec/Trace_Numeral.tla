---------------------------- MODULE Trace_Numeral ----------------------------
(***************************************************************************)
(* Judges what the number formatter of rink-core printed (recorded by      *)
(* rv-num) against Numeral.tla.  One line = one rational p/q with the      *)
(* numerals printed for it:                                                *)
(*                                                                         *)
(*   [p, q, checks : sequence of                                           *)
(*      [t  : the numeral (code points),                                   *)
(*       bs : the bases it may be read in (the engine passes the reply's   *)
(*            base only: fractions are numerals of the reply's base too),  *)
(*       r  : "exact"   the numeral was marked exact                       *)
(*            "approx"  it was marked approximate                          *)
(*            "strict"  it is shown behind `approx.`: a truncation that is *)
(*                      really not the value itself                        *)
(*            "present" [e, a]: a single-number reply shows an exact       *)
(*                      numeral or an `approx.` numeral (or both)          *)
(*       v  : optional, the value when it is not p/q (query legs)]]        *)
(*                                                                         *)
(* Lines are independent.  REJECT l c why : check c of line l fails;       *)
(*   why = "exact-wrong"     marked exact but does not denote the value    *)
(*         "approx-wrong"    marked approximate / shown behind `approx.`   *)
(*                           but not the value truncated toward zero       *)
(*                           within one unit of the last digit             *)
(*         "approx-on-exact" shown behind `approx.` although exact         *)
(*         "period"          stated period is not the length of the block  *)
(*         "no-numeral"      neither an exact nor an approximate numeral   *)
(*         "not-in-base"     a well-formed numeral with digits the reply's *)
(*                           base does not have                            *)
(* (short words: TLC wraps long printed tuples over several lines)         *)
(* UNSUPPORTED l c : the numeral is outside the grammar of Numeral.tla.    *)
(* CRASH l : the formatter panicked or hung.                               *)
(***************************************************************************)
EXTENDS Numeral, TLC, Json, IOUtils

Rec == ndJsonDeserialize(IOEnv.TRACE)
NRec == Len(Rec)

VARIABLE l

\* readings are taken one at a time (Numeral.tla: a reading with a four-digit exponent costs minutes)
SomeBase(ck, P(_)) == \E j \in DOMAIN ck.bs : P(ck.bs[j])

CheckOne(ck, v0, i, c) ==
  IF ck.r = "present"
  THEN (IF ck.e \/ ck.a THEN TRUE ELSE PrintT(<<"REJECT", i, c, "no-numeral">>))
  ELSE \E v \in {IF "v" \in DOMAIN ck THEN Q(ck.v.n, ck.v.d) ELSE v0} :
       IF ~SomeBase(ck, LAMBDA b : Supported(ck.t, b))
       THEN (IF \A j \in DOMAIN ck.bs : WrongBase(ck.t, ck.bs[j]) THEN PrintT(<<"REJECT", i, c, "not-in-base">>)
             ELSE PrintT(<<"UNSUPPORTED", i, c>>))
       ELSE IF ~(\A j \in DOMAIN ck.bs : PeriodOK(ck.t, ck.bs[j])) THEN PrintT(<<"REJECT", i, c, "period">>)
       ELSE CASE ck.r = "exact" ->
                   IF SomeBase(ck, LAMBDA b : ExactOK(v, ck.t, b)) THEN TRUE ELSE PrintT(<<"REJECT", i, c, "exact-wrong">>)
              [] ck.r = "approx" ->
                   IF SomeBase(ck, LAMBDA b : ApproxOK(v, ck.t, b)) THEN TRUE ELSE PrintT(<<"REJECT", i, c, "approx-wrong">>)
              [] ck.r = "strict" ->
                   IF SomeBase(ck, LAMBDA b : StrictOK(v, ck.t, b)) THEN TRUE
                   ELSE IF SomeBase(ck, LAMBDA b : ApproxOK(v, ck.t, b)) THEN PrintT(<<"REJECT", i, c, "approx-on-exact">>)
                   ELSE PrintT(<<"REJECT", i, c, "approx-wrong">>)

Verdict(ev, i) ==
  IF "crash" \in DOMAIN ev THEN PrintT(<<"CRASH", i>>)
  ELSE \E v0 \in {Q(ev.p, ev.q)} : \A c \in DOMAIN ev.checks : CheckOne(ev.checks[c], v0, i, c)

Init == l = 1
Next == l <= NRec /\ Verdict(Rec[l], l) /\ l' = l + 1
Spec == Init /\ [][Next]_l
=============================================================================
