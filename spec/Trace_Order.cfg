SPECIFICATION Spec
CONSTRAINT Reached
POSTCONDITION Verdict
CHECK_DEADLOCK FALSE
