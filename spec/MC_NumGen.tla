------------------------------ MODULE MC_NumGen ------------------------------
(***************************************************************************)
(* Enumerates the inputs of the numeral check (C05): rationals p/q, the    *)
(* base they are printed in, and the digits modes to print them with.      *)
(*                                                                         *)
(* Families of values (every one also negated where the sampling rule      *)
(* says so):                                                               *)
(*   Small     p/q in lowest terms, p in 0..SmallMax, q in 1..SmallMax     *)
(*   Boundary  (b^k + s)/(b^j + t), k, j in 1..MaxK, s, t in {-1, 1},      *)
(*             b the base the value is printed in: exact powers of the     *)
(*             base and their neighbours, in numerator and denominator     *)
(*   Period    m/d for denominators with decimal period 1, 6, 16, 22, 210  *)
(*             and 982 (3, 7, 17, 23, 3937, 983) and 1000003 (period far   *)
(*             beyond the digit budget), also scaled by 10^3               *)
(*   Magnitude m * 10^e, e in {-10, -9, -8, 8, 9, 10}: both sides of the   *)
(*             1e9 / 1e-9 switch to exponent notation                      *)
(*                                                                         *)
(*   Big       (a^k + s)/(c^j + t) for a in {2, 7, 10}, k in BigKs,        *)
(*             c in {3, 10}, j in {0, 50, 400}: values of hundreds to      *)
(*             thousands of bits (exponent notation with long exponents)   *)
(*             by the stride StrideBig                                     *)
(*                                                                         *)
(*   Long      (m * b^L + s)/q for L in LongLs (beyond 1000), m in {1,       *)
(*             b - 1, 1000003}, s in {-1, 0, 1}, q in {1, 3, 7, 983}, b the  *)
(*             base the value is printed in: the integer part is longer than *)
(*             every built-in digit budget (6 digits, 1000 digits) in that   *)
(*             base; integers, terminating and recurring fractions behind    *)
(*             it.  EVERY digits mode, by the stride StrideLongInt (bases    *)
(*             2, 4, 8, 16) / StrideLongSlow (the others).                   *)
(*   Run       numerals printed ONE AFTER ANOTHER by the same worker: ten    *)
(*             steps in rotating bases (2, 7, 10, 16, 36), five values of n  *)
(*             digits then five of n + 1 digits in the base they are printed *)
(*             in (lead * b^(len-1) + 1, lead in {1, b - 1}, optionally      *)
(*             + 1/3), n in RunLens, every rotation; modes default,          *)
(*             digits 3, full.  The law is per numeral (what is printed      *)
(*             must not depend on what was printed before); the engine       *)
(*             replays the steps of a run in order of `pos` in one process.  *)
(*                                                                         *)
(* The default mode is printed for every value; the other modes for the    *)
(* values selected by a stride over a hash of the value (StrideCheap for   *)
(* sci / eng / frac / digits 0, 1, 5; StrideMid for digits 50; StrideLong  *)
(* for full digits, whose numerals run to a thousand digits).              *)
(*                                                                         *)
(* Every case is printed as <<"CASE", json>> with p, q as BigNum limbs.    *)
(***************************************************************************)
EXTENDS BigNum, TLC, Json

CONSTANTS Bases, Seed, SmallMax, MaxK, StrideCheap, StrideMid, StrideLong, StrideNeg, BigKs, StrideBig,
          LongBases, LongLs, StrideLongInt, StrideLongSlow, RunLens

VARIABLE c

RECURSIVE Gcd(_, _)
Gcd(a, b) == IF b = 0 THEN a ELSE Gcd(b, a % b)

CheapModes == {<<"sci", 0>>, <<"eng", 0>>, <<"frac", 0>>, <<"digits", 0>>, <<"digits", 1>>, <<"digits", 5>>}

\* h: a small hash of the value's parameters, rotated by the seed
ModesFor(h) ==
  {<<"default", 0>>}
  \cup (IF (h + Seed) % StrideCheap = 0 THEN CheapModes ELSE {})
  \cup (IF (h + 3 * Seed) % StrideMid = 0 THEN {<<"digits", 50>>} ELSE {})
  \cup (IF (h + 7 * Seed) % StrideLong = 0 THEN {<<"full", 0>>} ELSE {})

NegFor(h) == IF (h + Seed) % StrideNeg = 0 THEN {FALSE, TRUE} ELSE {FALSE}

CaseM(fam, neg, pmag, q, b, modes) == [f |-> fam, p |-> Z(neg, pmag), q |-> q, base |-> b, modes |-> modes]
Case(fam, neg, pmag, q, b, h) == CaseM(fam, neg, pmag, q, b, ModesFor(h + (IF neg THEN 1 ELSE 0)))

Init == c = [f |-> "init"]

Small(b) ==
  \E p \in 0..SmallMax, q \in 1..SmallMax :
    /\ Gcd(p, q) = 1
    /\ \E neg \in NegFor(p * 131 + q * 7 + b) :
         c' = Case("small", neg, NFromInt(p), NFromInt(q), b, p * 131 + q * 7 + b)

Boundary(b) ==
  \E k \in 1..MaxK, j \in 1..MaxK, s \in {-1, 1}, t \in {-1, 1} :
    LET bk == NPow(<<b>>, k)
        bj == NPow(<<b>>, j)
        num == IF s = 1 THEN NAddSmall(bk, 1) ELSE NSub(bk, <<1>>)
        den == IF t = 1 THEN NAddSmall(bj, 1) ELSE NSub(bj, <<1>>)
        h == k * 53 + j * 17 + s + 2 * t + b
    IN \E neg \in NegFor(h) : c' = Case("boundary", neg, num, den, b, h)

PeriodDens == {3, 7, 17, 23, 3937, 983, 1000003}
Period(b) ==
  \E d \in PeriodDens, m \in {1, 2, 10, 1000}, big \in BOOLEAN, neg \in BOOLEAN :
    LET num == IF big THEN NMul(NFromInt(m * d - 1), NFromInt(1000)) ELSE NFromInt(m)
        den == NFromInt(d)
    IN \* every mode; the thousand-digit form only for 1/d itself
       c' = CaseM("period", neg, num, den, b,
                  {<<"default", 0>>, <<"digits", 50>>} \cup CheapModes
                  \cup (IF m = 1 /\ ~big /\ ~neg THEN {<<"full", 0>>} ELSE {}))

Mants == {<<1, 1>>, <<1, 3>>, <<3, 1>>, <<999, 1000>>, <<1001, 1000>>, <<999999999, 1000000000>>}
Magnitude(b) ==
  \E e \in {8, 9, 10}, up \in BOOLEAN, m \in Mants, neg \in BOOLEAN :
    LET te == NPow(<<10>>, e)
        num == IF up THEN NMul(NFromInt(m[1]), te) ELSE NFromInt(m[1])
        den == IF up THEN NFromInt(m[2]) ELSE NMul(NFromInt(m[2]), te)
    IN c' = Case("magnitude", neg, num, den, b, e + m[1] + b)

\* The large powers are computed in intermediate states (a^k in "bigA", then c^j in "bigAC"), so that each is
\* evaluated once and not once per case; only the final cases are printed.
BigAs == {2, 7, 10}
BigCs == {3, 10}
BigJs == {0, 50, 400}

BigA == /\ c.f = "init"
        /\ \E a \in BigAs, k \in BigKs : c' = [f |-> "bigA", a |-> a, k |-> k, ak |-> NPow(<<a>>, k)]
BigAC == /\ c.f = "bigA"
         /\ \E cc \in BigCs, j \in BigJs :
              c' = [f |-> "bigAC", a |-> c.a, k |-> c.k, ak |-> c.ak, cc |-> cc, j |-> j, cj |-> NPow(<<cc>>, j)]
Big(b) ==
  \E s \in {-1, 1}, t \in {-1, 1} :
    LET h == c.a * 11 + c.k * 3 + c.cc + c.j * 5 + s + 2 * t + b IN
    /\ (h + Seed) % StrideBig = 0
    /\ ~(c.j = 0 /\ t = -1)                                 \* c^0 - 1 = 0
    /\ LET num == IF s = 1 THEN NAddSmall(c.ak, 1) ELSE NSub(c.ak, <<1>>)
           den == IF t = 1 THEN NAddSmall(c.cj, 1) ELSE NSub(c.cj, <<1>>)
       IN \E neg \in NegFor(h) :
            \* digits / fraction modes print every integer digit: only for the smallest of these values
            c' = CaseM("big", neg, num, den, b,
                       IF c.k <= 64 /\ c.j <= 50 THEN ModesFor(h)
                       ELSE {<<"default", 0>>} \cup (IF (h + Seed) % StrideCheap = 0 THEN {<<"sci", 0>>, <<"eng", 0>>} ELSE {}))

\* Long: b^L is computed once per (base, L) in an intermediate state
AllModes == {<<"default", 0>>, <<"digits", 50>>, <<"full", 0>>} \cup CheapModes
LongB == /\ c.f = "init"
         /\ \E b \in LongBases, L \in LongLs : c' = [f |-> "longB", b |-> b, L |-> L, bl |-> NPow(<<b>>, L)]
Long ==
  \E m \in {1, c.b - 1, 1000003}, s \in {-1, 0, 1}, q \in {1, 3, 7, 983} :
    LET h == c.b + c.L * 3 + m * 7 + s * 5 + q IN
    \* reading a thousand digits back costs the judge seconds unless the base is a power of two: those bases are sampled more thinly
    /\ (h + Seed) % (IF c.b \in {2, 4, 8, 16} THEN StrideLongInt ELSE StrideLongSlow) = 0
    /\ LET mb == NMul(c.bl, NFromInt(m))
           num == IF s = 1 THEN NAddSmall(mb, 1) ELSE IF s = -1 THEN NSub(mb, <<1>>) ELSE mb
       IN \E neg \in NegFor(h) : c' = CaseM("long", neg, num, NFromInt(q), c.b, AllModes)

\* Run: step `pos` of the run <<n, rot, top, third>>
RunBases == <<2, 7, 10, 16, 36>>
RunModes == {<<"default", 0>>, <<"digits", 3>>, <<"full", 0>>}
Run ==
  \E n \in RunLens, rot \in 0..4, top \in BOOLEAN, third \in BOOLEAN, i \in 1..10 :
    LET b == RunBases[((rot + i - 1) % 5) + 1]
        len == IF i <= 5 THEN n ELSE n + 1
        int == NAddSmall(NMulSmall(NPow(<<b>>, len - 1), IF top THEN b - 1 ELSE 1), 1)   \* len digits in base b
    IN c' = [f |-> "run", p |-> Z(FALSE, IF third THEN NAddSmall(NMulSmall(int, 3), 1) ELSE int),
             q |-> IF third THEN <<3>> ELSE <<1>>, base |-> b, modes |-> RunModes,
             run |-> <<n, rot, top, third>>, pos |-> i]

\* one action per family (the coverage gate of the engine wants each of them taken)
GenSmall == c.f = "init" /\ \E b \in Bases : Small(b)
GenBoundary == c.f = "init" /\ \E b \in Bases : Boundary(b)
GenPeriod == c.f = "init" /\ \E b \in Bases : Period(b)
GenMagnitude == c.f = "init" /\ \E b \in Bases : Magnitude(b)
GenBig == c.f = "bigAC" /\ \E b \in Bases : Big(b)
GenLong == c.f = "longB" /\ Long
GenRun == c.f = "init" /\ Run
Next == GenSmall \/ GenBoundary \/ GenPeriod \/ GenMagnitude \/ BigA \/ BigAC \/ GenBig \/ LongB \/ GenLong \/ GenRun
Spec == Init /\ [][Next]_c

Emit == c.f \notin {"init", "bigA", "bigAC", "longB"} => PrintT(<<"CASE", ToJson(c)>>)
=============================================================================
