SPECIFICATION Spec
CONSTANTS
  NewLen = 3
  ErrLen = 1
  Cuts <- MCCuts
  Codes <- MCCodes
  ChunkSizes <- MCOne
  NetMayFail = FALSE
  MayLeaveLitter = FALSE
  CloseDelimited = TRUE
  WriteInPlace = FALSE
  PersistBeforeStatusCheck = FALSE
  TruncatedIsSuccess = FALSE
  SkipValidation = FALSE
  FixedTempName = FALSE
  NoStaleFallback = FALSE
  AbortOnRefreshError = FALSE
INVARIANTS TypeOK Atomic FailKeeps ChangeOnlyOnSuccess SuccessVisible SuccessIsComplete Recovers StartsAnyway FallsBack NoStuck EmitCase
CHECK_DEADLOCK FALSE
