SPECIFICATION Spec
CONSTANTS
  Threads <- MCThreads2
  Limit = 4
  Sizes = {1, 3, 5}
  MaxOps = 2
  Blocks = {1, 2, 3}
  ParentMayFail = TRUE
  ReallocTracksPeak = TRUE
  ResetOps = FALSE
  KeepHistory = FALSE
INVARIANTS TypeOK Accounting WithinLimit PeakOK
PROPERTIES RefusalClean Refines
CHECK_DEADLOCK FALSE
