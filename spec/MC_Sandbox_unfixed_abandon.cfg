CONSTANTS
  MaxReq = 3
  Kinds <- AbandonOnly
  GapKinds <- Gaps01
  UniformGaps = FALSE
  PipeCap = 2
  BigChunks = 3
  BreakOutAfterPanic = TRUE
  DrainAbandoned = FALSE
  RespawnOnEpipe = TRUE
CHECK_DEADLOCK FALSE
SPECIFICATION Spec
INVARIANTS NoStale
