CONSTANTS
  MaxReq = 3
  Kinds <- AllKinds
  GapKinds <- Gaps01
  UniformGaps = FALSE
  PipeCap = 2
  BigChunks = 3
  BreakOutAfterPanic = FALSE
  DrainAbandoned = FALSE
  RespawnOnEpipe = FALSE
CHECK_DEADLOCK FALSE
SPECIFICATION Spec
VIEW View
INVARIANTS TypeOK OneReplyEach OwnReply Isolation NoStale ViewSound
