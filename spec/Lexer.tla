-------------------------------- MODULE Lexer --------------------------------
(***************************************************************************)
(* The query lexer (core/src/parsing/text_query.rs:93-467) as a function   *)
(* from text (a sequence of Unicode code points) to a sequence of tokens.  *)
(* Supported alphabet: ASCII plus the code points listed in IsAlnumX and   *)
(* the symbols the lexer itself singles out (degree sign, U+2103, U+2109,  *)
(* U+2192, U+2212, U+2215, U+2009).  Supported(s) says whether a text is   *)
(* inside that alphabet; outside it the specification is silent.           *)
(*                                                                         *)
(* Tokens are records with a field k (kind); number tokens keep their      *)
(* digit sequences (values 0..35), the value is computed by Grammar.tla.   *)
(***************************************************************************)
EXTENDS Integers, Sequences

END == -1
Ch(s, i) == IF i >= 1 /\ i <= Len(s) THEN s[i] ELSE END

IsDigit(c) == c >= 48 /\ c <= 57
IsUpper(c) == c >= 65 /\ c <= 90
IsLower(c) == c >= 97 /\ c <= 122
IsHex(c) == IsDigit(c) \/ (c >= 97 /\ c <= 102) \/ (c >= 65 /\ c <= 70)
IsSep(c) == c = 95 \/ c = 8201                  \* '_' and U+2009 THIN SPACE
\* non-ASCII letters the specification knows to be alphanumeric
IsAlnumX(c) == c \in {170, 181, 186, 192, 193, 196, 197, 201, 214, 216, 220, 223, 224, 225, 228, 229,
                      233, 246, 248, 252, 937, 945, 946, 947, 948, 956, 960}
IsAlnum(c) == IsDigit(c) \/ IsUpper(c) \/ IsLower(c) \/ IsAlnumX(c)
IsIdentCont(c) == IsAlnum(c) \/ c = 95 \/ c = 36
\* Rust char::is_whitespace restricted to the supported alphabet
IsWs(c) == c \in {32, 9, 10, 11, 12, 13, 133, 160, 8201}

SupportedChar(c) == (c >= 32 /\ c <= 126) \/ c = 9 \/ c = 10 \/ IsAlnumX(c)
                    \/ c \in {176, 8451, 8457, 8594, 8722, 8725, 8201}
Supported(s) == \A i \in 1..Len(s) : SupportedChar(s[i])

DigitVal(c) == IF IsDigit(c) THEN c - 48 ELSE IF c >= 97 THEN c - 87 ELSE c - 55
ValidDigit(c, base) == CASE base = 10 -> IsDigit(c)
                         [] base = 16 -> IsHex(c)
                         [] base = 8  -> c >= 48 /\ c <= 55
                         [] base = 2  -> c = 48 \/ c = 49

\* digits of the given base with separators skipped: <<digit values, next index>>
RECURSIVE ScanDigits(_, _, _, _)
ScanDigits(s, i, base, acc) ==
  LET c == Ch(s, i) IN
  IF c # END /\ ValidDigit(c, base) THEN ScanDigits(s, i + 1, base, Append(acc, DigitVal(c)))
  ELSE IF c # END /\ IsSep(c) THEN ScanDigits(s, i + 1, base, acc)
  ELSE <<acc, i>>

T(k) == [k |-> k]
Err(msg) == [k |-> "error", msg |-> msg]

ToLower(c) == IF IsUpper(c) THEN c + 32 ELSE c

(* identifiers and keywords; names are compared as code point sequences *)
S_per == <<112, 101, 114>>
S_to == <<116, 111>>
S_in == <<105, 110>>
S_mod == <<109, 111, 100>>
S_and == <<97, 110, 100>>
S_or == <<111, 114>>
S_xor == <<120, 111, 114>>

DegreeOf(b) ==
  CASE b \in {<<100,101,103,67>>, <<176,67>>, <<99,101,108,115,105,117,115>>, <<8451>>} -> "celsius"
    [] b \in {<<100,101,103,70>>, <<176,70>>, <<102,97,104,114,101,110,104,101,105,116>>, <<8457>>} -> "fahrenheit"
    [] b \in {<<100,101,103,82,233>>, <<176,82,233>>, <<100,101,103,82,101>>, <<176,82,101>>,
              <<114,233,97,117,109,117,114>>, <<114,101,97,117,109,117,114>>} -> "reaumur"
    [] b \in {<<100,101,103,82,248>>, <<176,82,248>>, <<100,101,103,82,111>>, <<176,82,111>>,
              <<114,248,109,101,114>>, <<114,111,109,101,114>>} -> "romer"
    [] b \in {<<100,101,103,68,101>>, <<176,68,101>>, <<100,101,108,105,115,108,101>>} -> "delisle"
    [] b \in {<<100,101,103,78>>, <<176,78>>, <<100,101,103,110,101,119,116,111,110>>} -> "newton"
    [] OTHER -> "none"

WordToken(b) ==
  IF DegreeOf(b) # "none" THEN [k |-> "degree", deg |-> DegreeOf(b)]
  ELSE IF b = S_per THEN T("slash")
  ELSE IF b = S_to \/ b = S_in THEN T("arrow")
  ELSE IF b = S_mod THEN T("mod")
  ELSE IF b = S_and THEN T("and")
  ELSE IF b = S_or THEN T("or")
  ELSE IF b = S_xor THEN T("xor")
  ELSE [k |-> "ident", s |-> b]

RECURSIVE ScanIdent(_, _, _)
ScanIdent(s, i, acc) ==
  LET c == Ch(s, i) IN
  IF c # END /\ IsIdentCont(c) THEN ScanIdent(s, i + 1, Append(acc, c)) ELSE <<acc, i>>

RECURSIVE SkipLine(_, _)     \* after '//': consume up to and including the newline
SkipLine(s, i) == IF Ch(s, i) = END THEN i ELSE IF Ch(s, i) = 10 THEN i + 1 ELSE SkipLine(s, i + 1)

\* block comment; i points at the '*' after '/'.  <<token, next index>>
RECURSIVE ScanBlock(_, _)
ScanBlock(s, i) ==
  LET c == Ch(s, i) IN
  IF c = 42 /\ Ch(s, i + 1) = 47 THEN <<T("comment"), i + 2>>
  ELSE IF (c = END) \/ Ch(s, i + 1) = END THEN <<Err("Expected `*/`, got EOF"), IF c = END THEN i ELSE i + 1>>
  ELSE ScanBlock(s, i + 1)

\* single-quoted string; i points after the opening quote
RECURSIVE ScanQuote(_, _, _)
ScanQuote(s, i, acc) ==
  LET c == Ch(s, i) IN
  IF c = END THEN <<Err("Unexpected newline or EOF"), i>>
  ELSE IF c = 10 THEN <<Err("Unexpected newline or EOF"), i + 1>>
  ELSE IF c = 92 THEN
       LET d == Ch(s, i + 1) IN
       IF d = 39 THEN ScanQuote(s, i + 2, Append(acc, 39))
       ELSE IF d = 110 THEN ScanQuote(s, i + 2, Append(acc, 10))
       ELSE IF d = 116 THEN ScanQuote(s, i + 2, Append(acc, 9))
       ELSE IF d = END THEN <<Err("Unexpected EOF"), i + 1>>
       ELSE <<Err("Invalid escape sequence"), i + 2>>
  ELSE IF c = 39 THEN <<[k |-> "quote", s |-> acc], i + 1>>
  ELSE ScanQuote(s, i + 1, Append(acc, c))

\* double-quoted identifier; i points after the opening quote
RECURSIVE ScanDQuote(_, _, _)
ScanDQuote(s, i, acc) ==
  LET c == Ch(s, i) IN
  IF c = END THEN <<[k |-> "ident", s |-> acc], i>>
  ELSE IF c = 92 THEN (IF Ch(s, i + 1) = END THEN <<[k |-> "ident", s |-> acc], i + 1>>
                       ELSE ScanDQuote(s, i + 2, Append(acc, Ch(s, i + 1))))
  ELSE IF c = 34 THEN <<[k |-> "ident", s |-> acc], i + 1>>
  ELSE ScanDQuote(s, i + 1, Append(acc, c))

RECURSIVE ScanHexRun(_, _, _)
ScanHexRun(s, i, acc) == IF Ch(s, i) # END /\ IsHex(Ch(s, i)) THEN ScanHexRun(s, i + 1, Append(acc, DigitVal(Ch(s, i))))
                         ELSE <<acc, i>>
RECURSIVE HexValue(_, _, _)   \* value capped well below 2^31 (anything above 0x10FFFF is invalid anyway)
HexValue(ds, i, acc) == IF i > Len(ds) THEN acc
                        ELSE IF acc > 1114111 THEN acc ELSE HexValue(ds, i + 1, acc * 16 + ds[i])

\* \uXXXX escape; i points after the 'u'
ScanUnicode(s, i) ==
  LET r == ScanHexRun(s, i, <<>>)
      v == HexValue(r[1], 1, 0)
  IN IF r[1] = <<>> THEN <<Err("Invalid unicode escape"), r[2]>>
     ELSE IF v > 1114111 \/ (v >= 55296 /\ v <= 57343) THEN <<Err("Invalid unicode scalar"), r[2]>>
     ELSE <<[k |-> "ident", s |-> <<v>>], r[2]>>

(* date literal #...#; i points after the opening '#'.  Tokens: records with field d *)
RECURSIVE SkipWs(_, _)
SkipWs(s, i) == IF Ch(s, i) # END /\ IsWs(Ch(s, i)) THEN SkipWs(s, i + 1) ELSE i
RECURSIVE ScanDecRun(_, _, _)
ScanDecRun(s, i, acc) == IF Ch(s, i) # END /\ IsDigit(Ch(s, i)) THEN ScanDecRun(s, i + 1, Append(acc, Ch(s, i) - 48))
                         ELSE <<acc, i>>
RECURSIVE ScanDateLit(_, _, _)
ScanDateLit(s, i, acc) ==
  LET c == Ch(s, i) IN
  IF c # END /\ c \notin {35, 58, 45, 43, 32} /\ ~IsDigit(c) THEN ScanDateLit(s, i + 1, Append(acc, c)) ELSE <<acc, i>>
RECURSIVE ScanDate(_, _, _)
ScanDate(s, i, acc) ==
  LET c == Ch(s, i) IN
  IF c = END THEN <<acc, i>>
  ELSE IF c = 35 THEN <<acc, i + 1>>
  ELSE IF c = 58 THEN ScanDate(s, i + 1, Append(acc, [d |-> "colon"]))
  ELSE IF c = 45 THEN ScanDate(s, i + 1, Append(acc, [d |-> "dash"]))
  ELSE IF c = 43 THEN ScanDate(s, i + 1, Append(acc, [d |-> "plus"]))
  ELSE IF IsWs(c) THEN ScanDate(s, SkipWs(s, i + 1), Append(acc, [d |-> "space"]))
  ELSE IF IsDigit(c) THEN
       LET r == ScanDecRun(s, i, <<>>) IN
       IF Ch(s, r[2]) = 46
       THEN LET f == ScanDecRun(s, r[2] + 1, <<>>)
            IN ScanDate(s, f[2], Append(acc, [d |-> "number", int |-> r[1], hasfrac |-> TRUE, frac |-> f[1]]))
       ELSE ScanDate(s, r[2], Append(acc, [d |-> "number", int |-> r[1], hasfrac |-> FALSE, frac |-> <<>>]))
  ELSE LET r == ScanDateLit(s, i + 1, <<c>>) IN ScanDate(s, r[2], Append(acc, [d |-> "literal", s |-> r[1]]))

TrimDate(toks) ==
  LET a == IF toks # <<>> /\ toks[1].d = "space" THEN Tail(toks) ELSE toks
  IN IF a # <<>> /\ a[Len(a)].d = "space" THEN SubSeq(a, 1, Len(a) - 1) ELSE a

(* numbers; i points at the first character x (a digit or '.') *)
ScanNumber(s, i) ==
  LET x == s[i] IN
  IF x = 48 /\ Ch(s, i + 1) = 120 THEN
     LET r == ScanDigits(s, i + 2, 16, <<>>) IN
     IF r[1] = <<>> THEN <<Err("Malformed hexadecimal literal: No digits after 0x"), r[2]>>
     ELSE <<[k |-> "hex", ds |-> r[1]], r[2]>>
  ELSE IF x = 48 /\ Ch(s, i + 1) = 111 THEN
     LET r == ScanDigits(s, i + 2, 8, <<>>) IN
     IF r[1] = <<>> THEN <<Err("Malformed octal literal: No digits after 0o"), r[2]>>
     ELSE <<[k |-> "oct", ds |-> r[1]], r[2]>>
  ELSE IF x = 48 /\ Ch(s, i + 1) = 98 THEN
     LET r == ScanDigits(s, i + 2, 2, <<>>) IN
     IF r[1] = <<>> THEN <<Err("Malformed binary literal: No digits after 0b"), r[2]>>
     ELSE <<[k |-> "bin", ds |-> r[1]], r[2]>>
  ELSE
     LET ip == IF x # 46 THEN ScanDigits(s, i + 1, 10, <<x - 48>>) ELSE <<<<0>>, i + 1>>
         j == ip[2]
         hasfrac == x = 46 \/ Ch(s, j) = 46
         fp == IF hasfrac THEN ScanDigits(s, IF x # 46 THEN j + 1 ELSE j, 10, <<>>) ELSE <<<<>>, j>>
     IN IF hasfrac /\ fp[1] = <<>>
        THEN <<Err("Malformed number literal: No digits after decimal point"), fp[2]>>
        ELSE
          LET m == fp[2] IN
          IF Ch(s, m) # END /\ ToLower(Ch(s, m)) = 101 THEN
             LET m1 == m + 1
                 m2 == IF Ch(s, m1) # END /\ ToLower(Ch(s, m1)) = 101 THEN m1 + 1 ELSE m1
                 neg == Ch(s, m2) = 45
                 m3 == IF Ch(s, m2) = 45 \/ Ch(s, m2) = 43 THEN m2 + 1 ELSE m2
                 ep == ScanDigits(s, m3, 10, <<>>)
             IN IF ep[1] = <<>> /\ ~neg
                THEN <<Err("Malformed number literal: No digits after exponent"), ep[2]>>
                ELSE <<[k |-> "dec", int |-> ip[1], hasfrac |-> hasfrac, frac |-> fp[1],
                        hasexp |-> TRUE, expneg |-> neg, exp |-> ep[1]], ep[2]>>
          ELSE <<[k |-> "dec", int |-> ip[1], hasfrac |-> hasfrac, frac |-> fp[1],
                  hasexp |-> FALSE, expneg |-> FALSE, exp |-> <<>>], m>>

\* one token starting at i (s[i] exists and is not a blank): <<token, next index>>
NextToken(s, i) ==
  LET c == s[i]
      n == Ch(s, i + 1)
  IN CASE c = 10 -> <<T("nl"), i + 1>>
       [] c = 40 -> <<T("lpar"), i + 1>>
       [] c = 41 -> <<T("rpar"), i + 1>>
       [] c = 43 -> <<T("plus"), i + 1>>
       [] c = 59 -> <<T("semi"), i + 1>>
       [] c = 37 -> <<T("percent"), i + 1>>
       [] c = 61 -> <<T("eq"), i + 1>>
       [] c = 94 -> <<T("caret"), i + 1>>
       [] c = 44 -> <<T("comma"), i + 1>>
       [] c = 124 \/ c = 8725 -> <<T("pipe"), i + 1>>
       [] c = 58 -> <<T("colon"), i + 1>>
       [] c = 8594 -> <<T("arrow"), i + 1>>
       [] c = 60 /\ n = 60 -> <<T("shl"), i + 2>>
       [] c = 62 /\ n = 62 -> <<T("shr"), i + 2>>
       [] c = 42 -> IF n = 42 THEN <<T("caret"), i + 2>> ELSE <<T("star"), i + 1>>
       [] c = 45 -> IF n = 62 THEN <<T("arrow"), i + 2>> ELSE <<T("minus"), i + 1>>
       [] c = 8722 -> <<T("minus"), i + 1>>
       [] c = 47 -> IF n = 47 THEN <<T("comment"), SkipLine(s, i + 2)>>
                    ELSE IF n = 42 THEN ScanBlock(s, i + 1)
                    ELSE <<T("slash"), i + 1>>
       [] IsDigit(c) \/ c = 46 -> ScanNumber(s, i)
       [] c = 92 -> IF n = 117 THEN ScanUnicode(s, i + 2)
                    ELSE <<Err("Unexpected \\"), IF n = END THEN i + 1 ELSE i + 2>>
       [] c = 39 -> ScanQuote(s, i + 1, <<>>)
       [] c = 35 -> LET r == ScanDate(s, i + 1, <<>>) IN <<[k |-> "date", toks |-> TrimDate(r[1])], r[2]>>
       [] c = 34 -> ScanDQuote(s, i + 1, <<>>)
       [] OTHER -> LET r == ScanIdent(s, i + 1, <<c>>) IN <<WordToken(r[1]), r[2]>>

RECURSIVE LexFrom(_, _, _)
LexFrom(s, i, acc) ==
  IF i > Len(s) THEN Append(acc, T("eof"))
  ELSE IF s[i] = 32 \/ s[i] = 9 THEN LexFrom(s, i + 1, acc)
  ELSE LET r == NextToken(s, i) IN LexFrom(s, r[2], Append(acc, r[1]))

\* what `rink_core::eval` does first: trim (Rust str::trim removes Unicode white space)
RECURSIVE TrimL(_)
TrimL(s) == IF s # <<>> /\ IsWs(s[1]) THEN TrimL(Tail(s)) ELSE s
RECURSIVE TrimR(_)
TrimR(s) == IF s # <<>> /\ IsWs(s[Len(s)]) THEN TrimR(SubSeq(s, 1, Len(s) - 1)) ELSE s
Trim(s) == TrimR(TrimL(s))

Lex(s) == LexFrom(s, 1, <<>>)
LexLine(s) == Lex(Trim(s))
=============================================================================
