------------------------------- MODULE Formula -------------------------------
(***************************************************************************)
(* Chemical formulas (property C16, last sentence).                        *)
(*                                                                         *)
(*   formula ::= (Symbol Count?)+                                          *)
(*   Symbol  ::= an upper-case letter followed by all the lower-case       *)
(*               letters after it; it must be a known element symbol       *)
(*   Count   ::= a run of decimal digits whose value is at most 2^32 - 1   *)
(*               (leading zeros allowed, zero allowed)                     *)
(*                                                                         *)
(* Text is a sequence of code points.  The molar mass of a formula is the  *)
(* count-weighted sum of the molar masses of its symbols, as exact         *)
(* rationals (BigNum).  Anything else is "not a formula".                  *)
(***************************************************************************)
EXTENDS BigNum

FIsUpper(c) == c >= 65 /\ c <= 90
FIsLower(c) == c >= 97 /\ c <= 122
FIsDigit(c) == c >= 48 /\ c <= 57

\* end (exclusive) of the run of characters satisfying a class, starting at i
RECURSIVE LowerRun(_, _), DigitRun(_, _)
LowerRun(s, i) == IF i <= Len(s) /\ FIsLower(s[i]) THEN LowerRun(s, i + 1) ELSE i
DigitRun(s, i) == IF i <= Len(s) /\ FIsDigit(s[i]) THEN DigitRun(s, i + 1) ELSE i

CountMax == NSub(NPow2(32), <<1>>)        \* 2^32 - 1

\* the terms [sym |-> text, n |-> natural] of a formula, or <<>> when the text is not a formula
\* (a formula has at least one term, so the empty sequence is free to mean "not a formula")
RECURSIVE FTerms(_, _, _, _)
FTerms(s, i, syms, acc) ==
  IF i > Len(s) THEN acc
  ELSE IF ~FIsUpper(s[i]) THEN <<>>
  ELSE LET j == LowerRun(s, i + 1)
           sym == SubSeq(s, i, j - 1)
           k == DigitRun(s, j)
       IN IF sym \notin syms THEN <<>>
          ELSE IF k = j THEN FTerms(s, k, syms, Append(acc, [sym |-> sym, n |-> <<1>>]))
          ELSE LET n == NFromDigits([d \in 1..(k - j) |-> s[j + d - 1] - 48], 10) IN
               IF ~NLe(n, CountMax) THEN <<>>
               ELSE FTerms(s, k, syms, Append(acc, [sym |-> sym, n |-> n]))

Terms(s, syms) == IF s = <<>> THEN <<>> ELSE FTerms(s, 1, syms, <<>>)
IsFormula(s, syms) == Terms(s, syms) # <<>>

\* mass(sym) : Q, the molar mass of an element symbol
RECURSIVE SumTerms(_, _, _, _)
SumTerms(ts, i, mass, acc) ==
  IF i > Len(ts) THEN acc
  ELSE SumTerms(ts, i + 1, mass, QAdd(acc, QMul(QFromZ(Z(FALSE, ts[i].n)), mass[ts[i].sym])))

\* only for IsFormula(s, DOMAIN mass)
MolarMass(s, mass) == SumTerms(Terms(s, DOMAIN mass), 1, mass, QZero)
=============================================================================
