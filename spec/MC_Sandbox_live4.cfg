CONSTANTS
  MaxReq = 4
  Kinds <- AllKinds
  GapKinds <- Gaps01
  UniformGaps = FALSE
  PipeCap = 2
  BigChunks = 3
  BreakOutAfterPanic = TRUE
CHECK_DEADLOCK FALSE
SPECIFICATION FairSpec
PROPERTIES Progress
