----------------------------- MODULE Trace_Print -----------------------------
(***************************************************************************)
(* Judge for C11.  Each line: a source text T (a fully parenthesised tree  *)
(* enumerated by TLC), the expression e the code's parser built from it,   *)
(* the text P the code printed for e, whether the code's own parser read P *)
(* back to e ("same"), and whether e survived the serde exchange form      *)
(* ("serde").  The specification parses T and P itself.                    *)
(*   REJECT: P does not parse back to e (by the specification's parser or  *)
(*           by the code's own), or the exchange form lost e, or the       *)
(*           structured form (ExprReply tokens joined by spaces) does not  *)
(*           parse back to e                                               *)
(*   SPECRT: design-level: the transcribed printer fails on e              *)
(*   NOTE:   the code's text differs from the transcription (drift)        *)
(***************************************************************************)
EXTENDS Printer, TLC, Json, IOUtils

Rec == ndJsonDeserialize(IOEnv.TRACE)
NRec == Len(Rec)
VARIABLE l

Verdict(ev, i) ==
  IF "fromast" \in DOMAIN ev THEN
     \* a tree that no source text of the query language produces (a unit whose NAME is a word of the query language, as the
     \* shipped definitions file has them: `in`, `to`, `%`): built from its JSON form, printed by the code, read back here
     (IF ~Supported(ev.printed) THEN PrintT(<<"UNSUPPORTED", i>>)
      ELSE \E p \in {ParseAll(ev.printed)} :
             IF p.done /\ AstEq(p.e, ev.ast) /\ ev.same THEN TRUE ELSE PrintT(<<"REJECT", i, "tree built from JSON">>))
  ELSE IF ~Supported(ev.q) \/ ~Supported(ev.printed) THEN PrintT(<<"UNSUPPORTED", i>>)
  ELSE
    \E es \in {ParseExprText(ev.q)} :
    /\ IF ~AstEq(es, ev.ast) THEN PrintT(<<"ASTDIFF", i>>) ELSE TRUE
    /\ IF ~Printable(es) THEN PrintT(<<"SILENT", i>>)
       ELSE /\ IF RoundTrip(es) THEN TRUE ELSE PrintT(<<"SPECRT", i>>)
            /\ IF Print(es) = ev.printed THEN TRUE ELSE PrintT(<<"NOTE", i, "printed text differs from the transcription">>)
            /\ \E p \in {ParseAll(ev.printed)} :
                 IF p.done /\ AstEq(p.e, es) /\ ev.same /\ ev.serde = "ok" THEN TRUE
                 ELSE PrintT(<<"REJECT", i, ToJson(Print(es))>>)
            \* the structured form (ExprReply: the same walk emitting a token list), read back token by token
            /\ IF "rprinted" \notin DOMAIN ev \/ ~ev.rok THEN TRUE
               ELSE IF ~Supported(ev.rprinted) THEN PrintT(<<"UNSUPPORTED", i>>)
               ELSE \E p \in {ParseAll(ev.rprinted)} :
                      IF p.done /\ AstEq(p.e, es) /\ ev.rsame THEN TRUE
                      ELSE PrintT(<<"REJECT", i, "structured form">>)

Init == l = 1
Next == l <= NRec /\ Verdict(Rec[l], l) /\ l' = l + 1
Spec == Init /\ [][Next]_l
=============================================================================
