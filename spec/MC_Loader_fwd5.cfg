SPECIFICATION Spec
CONSTANTS
  InitCase <- MCInitCase
  BaseNames <- MCBaseNames
  MaxDefs = 5
  MaxFiles = 3
  PoolSel = {2,21,28,29,30,31,32,33,34,35,36}
INVARIANTS TypeOK MeasureNat TempIsStack EmittedOnce TemporariesEmpty TopoOrder TopoOrderStrict CycleReported OrderIndependent ForwardRefsResolve FixedPointScoped EmitCase EmitDb CountAmbiguous
PROPERTIES Progress
CHECK_DEADLOCK FALSE
