SPECIFICATION Spec
CONSTANTS
  NewLen = 3
  ErrLen = 1
  Cuts <- MCCuts
  Codes <- MCCodes
  ChunkSizes <- MCOne
  NetMayFail = FALSE
  MayLeaveLitter = FALSE
  CloseDelimited = FALSE
  WriteInPlace = FALSE
  PersistBeforeStatusCheck = FALSE
  TruncatedIsSuccess = TRUE
  SkipValidation = TRUE
  FixedTempName = FALSE
  NoStaleFallback = FALSE
  AbortOnRefreshError = FALSE
INVARIANTS Atomic
CHECK_DEADLOCK FALSE
