SPECIFICATION Spec
CONSTANTS
  InitCase <- GInitCase
  BaseNames <- GBaseNames
  N = 5
  MaxOut = 2
  KindVecs <- KVFive
INVARIANTS TypeOK MeasureNat TempIsStack EmittedOnce TemporariesEmpty TopoOrder CycleReported
PROPERTIES Progress
CHECK_DEADLOCK FALSE
