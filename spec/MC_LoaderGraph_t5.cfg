SPECIFICATION Spec
CONSTANTS
  InitCase <- GInitCase
  BaseNames <- GBaseNames
  N = 5
  MaxOut = 1
  KindVecs <- KVFive2
INVARIANTS TypeOK MeasureNat TempIsStack EmittedOnce TemporariesEmpty TopoOrder CycleReported
PROPERTIES Progress
CHECK_DEADLOCK FALSE
