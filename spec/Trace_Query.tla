----------------------------- MODULE Trace_Query -----------------------------
(***************************************************************************)
(* Judge for whole-query executions on a database (C02, C03, C09, C10):    *)
(* like Trace_Eval, but names are resolved in an environment taken from a  *)
(* registry dump of the loaded context (file ENVFILE; leaf values and      *)
(* dimensionalities come from the dump, all algebra on top of them is the  *)
(* specification's), and conversions / unit lists / duration breakdowns    *)
(* are judged by Query.tla.  CLOSED=1: every name of the database is in    *)
(* the environment (unknown names are NotFound); TEXTBOOK=1: temperature   *)
(* scale operators use the textbook constants written in Eval.tla.         *)
(***************************************************************************)
EXTENDS Query, Json, IOUtils

Rec == ndJsonDeserialize(IOEnv.TRACE)
NRec == Len(Rec)
JudgeEnv == EnvFromJson(JsonDeserialize(IOEnv.ENVFILE), IOEnv.CLOSED = "1", IOEnv.TEXTBOOK = "1")

VARIABLE l

AstAgree(qa, ast) ==
  /\ ast.k = qa.k
  /\ CASE qa.k = "expr" -> AstEq(qa.e, ast.e)
       [] qa.k = "convert" ->
            /\ AstEq(qa.e, ast.e) /\ qa.base = ast.base /\ qa.digits.m = ast.digits.m
            /\ qa.conv.c = ast.conv.c
            /\ (qa.conv.c = "expr" => AstEq(qa.conv.e, ast.conv.e))
            /\ (qa.conv.c = "degree" => qa.conv.deg = ast.conv.deg)
            /\ (qa.conv.c = "list" => qa.conv.names = ast.conv.names)
            /\ (qa.conv.c = "offset" => qa.conv.secs = ast.conv.secs)
       [] qa.k \in {"factorize", "unitsfor"} -> AstEq(qa.e, ast.e)
       [] OTHER -> TRUE

Verdict(ev, i) ==
  IF "flist" \in DOMAIN ev THEN       \* a unit list over float values / float-valued units: judged on the observed floats
     (IF FloatListLaw(ev.flist.v, ev.flist.us, ev.flist.ps) THEN TRUE ELSE PrintT(<<"REJECT", i, "float list law">>))
  ELSE IF ~Supported(ev.q) THEN PrintT(<<"UNSUPPORTED", i>>)
  ELSE
    \E qa \in {ParseQueryText(ev.q)} :
    /\ IF ev.ast.k # "none" /\ ~AstAgree(qa, ev.ast) THEN PrintT(<<"ASTDIFF", i>>) ELSE TRUE
    /\ \E val \in {IF "fexp" \in DOMAIN ev /\ qa.k = "expr" THEN PowWithObservedExponent(qa.e, ev.fexp, JudgeEnv)
                    ELSE QueryValue(qa, JudgeEnv)} :
         IF Silent(val) THEN PrintT(<<"SILENT", i>>)
         ELSE IF ev.obs.t = "crash" THEN PrintT(<<"CRASH", i>>)
         ELSE IF ev.obs.t = "def" /\ qa.k = "expr" /\ qa.e.k = "unit" THEN PrintT(<<"SILENT", i>>)
         ELSE IF QAgree(val, ev.obs, JudgeEnv)
              THEN (IF ListDrift(val, ev.obs) THEN PrintT(<<"NOTE", i, "unit list differs from successive truncated division">>) ELSE TRUE)
         ELSE PrintT(<<"REJECT", i, ToJson(val)>>)

Init == l = 1
Next == l <= NRec /\ Verdict(Rec[l], l) /\ l' = l + 1
Spec == Init /\ [][Next]_l
=============================================================================
