CONSTANTS
  MaxReq = 5
  Kinds <- AllKinds
  GapKinds <- Gaps01
  UniformGaps = FALSE
  PipeCap = 2
  BigChunks = 3
  BreakOutAfterPanic = TRUE
  DrainAbandoned = TRUE
  RespawnOnEpipe = TRUE
CHECK_DEADLOCK FALSE
SPECIFICATION Spec
VIEW View
INVARIANTS TypeOK OneReplyEach OwnReply Isolation NoStale ViewSound
