----------------------------- MODULE Trace_Date -----------------------------
(***************************************************************************)
(* Judge for property C14 (date arithmetic).  Every line is a query text,  *)
(* the AST the code's parser built and the reply of the real evaluator.    *)
(* The specification lexes and parses the text itself (Lexer, Grammar),    *)
(* reads the date literals with the documented patterns (DateTime),        *)
(* evaluates durations with its own arithmetic (Eval over BigNum; the      *)
(* values of the time units are inputs: the database is not under test     *)
(* here, they are looked up in the code's own database and handed over in  *)
(* the file IOEnv.UNITS) and computes the instant / duration the property  *)
(* determines.  Lines are independent.                                     *)
(*   REJECT l : the reply is not one the property admits                   *)
(*   CRASH  l : the property determines a value or an error, the code      *)
(*              panicked / aborted / hung                                  *)
(*   SILENT l : the property does not determine this reply                 *)
(*   ASTDIFF l: the code's AST differs from the specification's parse      *)
(*   NOTE l s : an error was admissible only because the result is near    *)
(*              the edge of the supported range ("soft")                   *)
(*                                                                         *)
(* Observation of a date reply: obs.rfc = <<y, m, d, h, mi, s, ns, off>>,  *)
(* the numeric fields of the reply's RFC 3339 string (digit extraction is  *)
(* the driver's; the calendar arithmetic is DateTime.tla's), obs.fields =  *)
(* the reply's own numeric fields; obs.exact (plain expressions only) = the *)
(* date value behind the reply: [secs since the Unix epoch (Z), ns, exact   *)
(* UTC offset, variant]; ev.zl = the zone-naming literals of the query with *)
(* the offset the code reported for each when evaluated alone.              *)
(* ev.clock (optional) = <<y, m, d, h, mi, s>>: the UTC time the harness   *)
(* set the context clock to before this query (Context::set_time).  With   *)
(* it a time-only literal and `now` are determinate; without it a          *)
(* time-only literal is judged by its written fields alone.                *)
(***************************************************************************)
EXTENDS Eval, DateTime, TLC, Json, IOUtils

Rec == ndJsonDeserialize(IOEnv.TRACE)
NRec == Len(Rec)
UnitList == JsonDeserialize(IOEnv.UNITS)       \* <<[name |-> code points, v |-> Q, d |-> dims json], ...>>

VARIABLE l

UnitNames == {UnitList[i].name : i \in DOMAIN UnitList}
UnitValue(nm) == LET u == UnitList[CHOOSE i \in DOMAIN UnitList : UnitList[i].name = nm] IN VNum(u.v, DFromJson(u.d))
JudgeEnv == [base |-> {}, units |-> [nm \in UnitNames |-> UnitValue(nm)], prefixes |-> <<>>, ans |-> VNone,
             subst |-> {}, closed |-> FALSE]

SecDim == DBase(DW_s)
VDate(inst) == [t |-> "date", inst |-> inst]
R2(v, soft) == [v |-> v, soft |-> soft]

Soften(r, s) == R2(r.v, r.soft \/ s)
\* date (+|-) duration.  b is a value of Eval that is not an error.  (Operator arguments are evaluated once.)
PlusResult(r, t) == R2(VDate(r), ~DurInRange(t) \/ ~InRange(r))
PlusAt(a, t) == PlusResult(AddDur(a.inst, t), t)
DatePlus(a, b, neg) ==
  IF b.t = "num" THEN
     (IF ~DEq(b.d, SecDim) THEN R2(VErr("generic"), FALSE)                 \* a date plus a length: refused
      ELSE IF ~WholeNanos(b.v) THEN R2(VUnknown, FALSE)                    \* not a whole number of nanoseconds
      ELSE PlusAt(a, IF neg THEN QNeg(b.v) ELSE b.v))
  ELSE IF b.t = "float" THEN (IF ~DEq(b.d, SecDim) THEN R2(VErr("generic"), FALSE) ELSE R2(VUnknown, FALSE))
  ELSE R2(VUnknown, FALSE)

DateBin(op, a, b) ==
  IF a.t = "date" /\ b.t = "date" THEN
     (IF op = "sub" THEN R2(VNum(Diff(a.inst, b.inst), SecDim), FALSE) ELSE R2(VErr("generic"), FALSE))
  ELSE IF a.t = "date" THEN DatePlus(a, b, op = "sub")
  \* duration + date: the property speaks of d + t; read as d + t, or refused
  ELSE IF b.t = "date" THEN (IF op = "add" THEN Soften(DatePlus(b, a, FALSE), TRUE) ELSE R2(VUnknown, FALSE))
  ELSE R2(BinValue(op, a, b), FALSE)

\* left operand first; the first error wins (b is not evaluated when a is an error)
DEvBin(op, a, b) == IF a.v.t = "err" THEN a
                    ELSE IF b.v.t = "err" THEN b
                    ELSE Soften(DateBin(op, a.v, b.v), a.soft \/ b.soft)

\* expressions with date literals: + and - are the operators the property speaks about, everything else is Eval's
\* zl: the literals of this query that name a zone, each with the UTC offset the code itself reported for it when it
\* was evaluated alone (the tz database is not specified): <<[lit |-> text between the # marks, off |-> seconds], ...>>
DateToksOf(text) == Lex(<<35>> \o text \o <<35>>)[1].toks
ZoneOffsetFor(toks, zl) ==
  LET hits == {i \in DOMAIN zl : DateToksOf(zl[i].lit) = toks}
  IN IF hits = {} THEN <<>> ELSE <<zl[CHOOSE i \in hits : TRUE].off>>
LitValueZ(s, toks, zl) == ValueOfSummary(s, IF LitIsZoned(s) THEN ZoneOffsetFor(toks, zl) ELSE <<>>)
\* a literal inside an expression (s: its summary; ck: the clock or <<>>):
\*  - a time-only literal with a fixed or no offset, the clock known: that time on the clock's day
\*  - exactly one reading, a soft one (second 60, minute 60, hour 24, a contradicting weekday): refused, or its
\*    arithmetic reading - the laws (d + t) - d = t, (d - t) + t = d hold for every instant a literal denotes
\*  - otherwise as LitValueZ
LitValueS(s, toks, zl, ck) ==
  IF ~s.silent /\ s.valid = {} /\ s.ninvalid = 0 /\ Cardinality(s.partial) = 1 /\ ck # <<>>
     /\ \A pc \in s.partial : pc.nodate /\ pc.ok # 2
  THEN R2(VDate(TodayInstant(CHOOSE pc \in s.partial : TRUE, ck)), FALSE)
  ELSE IF ~s.silent /\ s.partial = {} /\ s.ninvalid = 0 /\ Cardinality(s.valid) = 1
          /\ \A r \in s.valid : r.c = "fixed" /\ r.soft /\ r.win = 0
  THEN R2(VDate((CHOOSE r \in s.valid : TRUE).inst), TRUE)
  ELSE R2(LitValueZ(s, toks, zl), FALSE)

RECURSIVE DEv(_, _, _)
DEv(e, zl, ck) ==
  IF e.k = "date" THEN LitValueS(LitSummary(e.toks), e.toks, zl, ck)
  ELSE IF e.k = "unit" /\ e.name = W_now /\ ck # <<>> THEN R2(VDate(ClockInstant(ck)), FALSE)
  ELSE IF e.k = "bin" /\ e.op \in {"add", "sub"} THEN DEvBin(e.op, DEv(e.l, zl, ck), DEv(e.r, zl, ck))
  ELSE R2(Ev(e, JudgeEnv), FALSE)

-----------------------------------------------------------------------------
(* observations *)
\* the reply: obs.rfc = the numeric fields of its RFC 3339 string and the offset shown there, obs.fields = its own fields
ObsWellFormed(o) == /\ o.t = "date" /\ Len(o.rfc) = 8 /\ FieldsValid(SubSeq(o.rfc, 1, 7)) /\ OffsetValid(o.rfc[8])
                    /\ Len(o.fields) = 7 /\ \A k \in 1..7 : o.fields[k] = o.rfc[k]
ObsInstant(o) == FieldsInstant(SubSeq(o.rfc, 1, 7), o.rfc[8])
ObsLocal(o) == FieldsLocal(SubSeq(o.rfc, 1, 7))
Near(x, inst, win) == ZEq(x, inst) \/ (win = 1 /\ ZEq(x, ZAdd(inst, ZOne)))
\* A reply in a named zone shows its UTC offset rounded to minutes (RFC 3339 has no seconds there), but local mean
\* times have seconds (US/Pacific before 1883 is -7:52:58): such a reply fixes its instant only to +-30 s.
Thirty == ZMul(ZFromInt(30), ZBillion)
OffsetSlack(dz) == NIsZero(NMod(dz.mag, NBillion)) /\ NLe(dz.mag, Thirty.mag)
\* the value behind the reply, when the query is a plain expression (obs.exact): seconds since 1970-01-01T00:00:00 UTC,
\* nanoseconds, the exact UTC offset, the variant.  The Unix epoch as a day number is this specification's own.
UnixEpochSecs == ZMul(ZFromInt(DaysFromCivil(1970, 1, 1)), ZFromInt(86400))
HasExact(o) == "exact" \in DOMAIN o
ExactInstant(x) == ZAdd(ZMul(ZAdd(x.secs, UnixEpochSecs), ZBillion), ZFromInt(x.ns))
\* the reply and the value agree with each other
ReplyMatchesValue(o) ==
  /\ o.exact.ns >= 0 /\ o.exact.ns < Billion /\ OffsetValid(o.exact.off)
  /\ IF o.exact.off % 60 = 0 THEN ZEq(ObsInstant(o), ExactInstant(o.exact)) /\ o.rfc[8] = o.exact.off
     ELSE OffsetSlack(ZSub(ObsInstant(o), ExactInstant(o.exact)))
  /\ ZEq(ObsLocal(o), ZAdd(ExactInstant(o.exact), OffsetNanos(o.exact.off)))
ObsIsInstant(o, inst, win) ==
  /\ ObsWellFormed(o)
  /\ IF HasExact(o) THEN ReplyMatchesValue(o) /\ Near(ExactInstant(o.exact), inst, win)
     ELSE Near(ObsInstant(o), inst, win)
\* replies of conversions to a named zone (no value to look at): exact agreement, or whole seconds within the slack
ObsIsInstantInZone(o, inst) == ObsWellFormed(o) /\ (ZEq(ObsInstant(o), inst) \/ OffsetSlack(ZSub(ObsInstant(o), inst)))

\* a partial reading (written fields pc) against a date reply: the reply has the written fields at the written offset;
\* a time-only literal under a known clock ck: that time on the clock's day (named zone: the zone's offset is not
\* specified, the reply's local day is the clock's UTC day or a neighbour of it)
AbsInt(n) == IF n < 0 THEN -n ELSE n
PartialOk(o, pc, ck) ==
  /\ ObsWellFormed(o) /\ (HasExact(o) => ReplyMatchesValue(o))
  /\ PCFits(pc, SubSeq(o.rfc, 1, 7), o.rfc[8])
  /\ ((pc.nodate /\ ck # <<>>) =>
        IF pc.ok = 2 THEN AbsInt(DaysFromCivil(o.rfc[1], o.rfc[2], o.rfc[3]) - DaysFromCivil(ck[1], ck[2], ck[3])) <= 1
        ELSE ObsIsInstant(o, TodayInstant(pc, ck), 0))
\* second 60 shown as such (a leap second: second 59 with a nanosecond count of 10^9 and more): the display is not the
\* property's business, the value behind the reply is the instant
LeapShown(o, r) == /\ r.leap /\ r.c = "fixed" /\ o.t = "date" /\ HasExact(o) /\ o.exact.ns >= 0 /\ o.exact.ns < 2 * Billion
                   /\ Near(ExactInstant(o.exact), r.inst, r.win)

\* a whole-query literal is judged relationally: every reading the documented patterns allow is admissible
LitVerdict(toks, o, ck, i) ==
  \E s \in {LitSummary(toks)} :
  IF s.silent THEN PrintT(<<"SILENT", i>>)
  ELSE IF o.t = "crash" THEN PrintT(<<"CRASH", i>>)
  ELSE LET \* an error: nothing valid, something invalid, a soft reading, an incomplete date, a time in a named zone
           errok == (s.valid = {} /\ s.partial = {}) \/ s.ninvalid > 0 \/ (\E r \in s.valid : r.soft)
                    \/ \E pc \in s.partial : ~pc.nodate \/ pc.ok = 2
           dateok == \/ \E r \in s.valid :
                          IF r.c = "fixed" THEN ObsIsInstant(o, r.inst, r.win) \/ LeapShown(o, r)
                          ELSE /\ ObsWellFormed(o) /\ Near(ObsLocal(o), r.inst, r.win)  \* named zone: same local time
                               /\ (HasExact(o) => ReplyMatchesValue(o))
                     \/ \E pc \in s.partial : o.t = "date" /\ PartialOk(o, pc, ck)
       IN IF (o.t = "err" /\ errok) \/ dateok THEN TRUE
          ELSE PrintT(<<"REJECT", i, ToJson([valid |-> s.valid, ninvalid |-> s.ninvalid, partial |-> s.partial])>>)

\* the value of an expression against the reply
ValueVerdict(r, o, i) ==
  IF r.v.t \notin {"num", "date", "err"} THEN PrintT(<<"SILENT", i>>)
  ELSE IF o.t = "crash" THEN PrintT(<<"CRASH", i>>)
  ELSE IF r.soft /\ o.t = "err" THEN PrintT(<<"NOTE", i, "soft">>)
  ELSE IF r.v.t = "date" THEN
       (IF ObsIsInstant(o, r.v.inst, 0) THEN TRUE ELSE PrintT(<<"REJECT", i, ToJson(r.v)>>))
  ELSE IF Agree(r.v, o) THEN TRUE
  ELSE PrintT(<<"REJECT", i, ToJson(r.v)>>)

\* `date -> +hh:mm` and `date -> "Zone"`: the same instant; offsets of 24 h or more are refused
ConvVerdict(qa, o, zl, ck, i) ==
  \E r \in {DEv(qa.e, zl, ck)} :
  IF r.v.t = "err" THEN ValueVerdict(r, o, i)
  ELSE IF r.v.t # "date" THEN PrintT(<<"SILENT", i>>)
  ELSE IF o.t = "crash" THEN PrintT(<<"CRASH", i>>)
  ELSE IF qa.conv.c = "offset" /\ ~OffsetValid(qa.conv.secs) THEN
       (IF o.t = "err" THEN TRUE ELSE PrintT(<<"REJECT", i, "offset of 24 h or more must be refused">>))
  ELSE IF r.soft /\ o.t = "err" THEN PrintT(<<"NOTE", i, "soft">>)
  ELSE IF qa.conv.c = "offset" /\ ObsIsInstant(o, r.v.inst, 0) /\ o.rfc[8] = qa.conv.secs THEN TRUE
  ELSE IF qa.conv.c = "tz" /\ ObsIsInstantInZone(o, r.v.inst) THEN TRUE
  ELSE PrintT(<<"REJECT", i, ToJson(r.v)>>)

ClockOf(ev) == IF "clock" \in DOMAIN ev THEN ev.clock ELSE <<>>
Verdict(ev, i) ==
  IF ~Supported(ev.q) THEN PrintT(<<"UNSUPPORTED", i>>)
  ELSE
    \E qa \in {ParseQueryText(ev.q)} : \E ck \in {ClockOf(ev)} :
    /\ IF ev.ast.k # "none" /\ ~(ev.ast.k = qa.k /\ (qa.k = "expr" => AstEq(qa.e, ev.ast.e)))
       THEN PrintT(<<"ASTDIFF", i>>) ELSE TRUE
    /\ IF qa.k = "expr" THEN
          (IF qa.e.k = "date" THEN LitVerdict(qa.e.toks, ev.obs, ck, i)
           ELSE \E r \in {DEv(qa.e, ev.zl, ck)} : ValueVerdict(r, ev.obs, i))
       ELSE IF qa.k = "convert" /\ qa.base = 0 /\ qa.digits.m = "default" /\ qa.conv.c \in {"offset", "tz"}
            THEN ConvVerdict(qa, ev.obs, ev.zl, ck, i)
       ELSE PrintT(<<"SILENT", i>>)

Init == l = 1
Next == l <= NRec /\ Verdict(Rec[l], l) /\ l' = l + 1
Spec == Init /\ [][Next]_l
=============================================================================
