----------------------------- MODULE Trace_Names -----------------------------
(***************************************************************************)
(* Judges recorded name resolutions of the real code (rv-names) against    *)
(* Names.tla (property C07).  The database is the registry dump of the     *)
(* context the names were resolved in (IOEnv.ENV: JSON with base, units,   *)
(* prefixes; names are code point sequences, numbers limb arrays).  Every  *)
(* line of IOEnv.TRACE is one name:                                        *)
(*    n      the name                                                      *)
(*    l      Context::lookup(n)                (absent: None)              *)
(*    canon  Context::canonicalize(n)          (absent: None)              *)
(*    cl     Context::lookup(canon)            (absent: None)              *)
(* Lines are independent; a rejected line is reported and judging goes on: *)
(*    <<"REJECT", line, what>>   what = "lookup" | "canon" | "canonlookup"  *)
(*    <<"NOTE", line, k>>        the name has k >= 2 candidate readings    *)
(***************************************************************************)
EXTENDS Names, TLC, Json, IOUtils

Rec == ndJsonDeserialize(IOEnv.TRACE)
NRec == Len(Rec)
Env == JsonDeserialize(IOEnv.ENV)

ValueOfJson(val) == IF val.t = "num" THEN VNum(val.v, DFromJson(val.d)) ELSE VFloat(DFromJson(val.d), FALSE)

UnitNames == {Env.units[i].name : i \in DOMAIN Env.units}
DB == [base |-> {Env.base[i] : i \in DOMAIN Env.base},
       units |-> [n \in UnitNames |-> ValueOfJson(Env.units[CHOOSE i \in DOMAIN Env.units : Env.units[i].name = n].val)],
       prefixes |-> [i \in DOMAIN Env.prefixes |-> [name |-> Env.prefixes[i].name, v |-> Env.prefixes[i].v]],
       ans |-> VNone, subst |-> {}, closed |-> TRUE]

VARIABLE l

Has(ev, f) == f \in DOMAIN ev

\* R: the admissible readings of the name whose observed lookup is ev[f]
LookupOK(R, ev, f) == IF Has(ev, f) THEN AdmissibleIn(DB, R, ObsValue(ev[f])) ELSE R = {}

\* (bound once each: TLC re-evaluates definitions at every use)
Verdict(ev, i) ==
  \E Rn \in {Readings(DB, ev.n)} :
  /\ IF LookupOK(Rn, ev, "l") THEN TRUE ELSE PrintT(<<"REJECT", i, "lookup">>)
  /\ IF Has(ev, "canon") /\ Rn # {}
     THEN \E Rc \in {IF ev.canon = ev.n THEN Rn ELSE Readings(DB, ev.canon)} :
          /\ IF CanonOKIn(DB, Rn, Rc) THEN TRUE ELSE PrintT(<<"REJECT", i, "canon">>)
          /\ IF LookupOK(Rc, ev, "cl") THEN TRUE ELSE PrintT(<<"REJECT", i, "canonlookup">>)
     ELSE TRUE
  /\ \E k \in {Cardinality(CandidateReadings(DB, ev.n))} : IF k >= 2 THEN PrintT(<<"NOTE", i, k>>) ELSE TRUE

Init == l = 1
Next == l <= NRec /\ Verdict(Rec[l], l) /\ l' = l + 1
Spec == Init /\ [][Next]_l
=============================================================================
