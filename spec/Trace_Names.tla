----------------------------- MODULE Trace_Names -----------------------------
(***************************************************************************)
(* Judges recorded name resolutions of the real code (rv-names) against    *)
(* Names.tla (property C07).  The database is the registry dump of the     *)
(* context the names were resolved in (IOEnv.ENV: JSON with base, units,   *)
(* prefixes; names are code point sequences, numbers limb arrays).  Every  *)
(* line of IOEnv.TRACE is one name:                                        *)
(*    n      the name                                                      *)
(*    l      Context::lookup(n)                (absent: None)              *)
(*    canon  Context::canonicalize(n)          (absent: None)              *)
(*    cl     Context::lookup(canon)            (absent: None)              *)
(* A line may carry its own database (field db, same shape as the          *)
(* environment): observations made on many small databases are judged in   *)
(* one run, each against the database it was made on.                      *)
(* Lines are independent; a rejected line is reported and judging goes on: *)
(*    <<"REJECT", line, what>>   what = "lookup" | "canon" | "canonlookup"  *)
(*    <<"NOTE", line, k>>        the name has k >= 2 candidate readings    *)
(***************************************************************************)
EXTENDS Names, TLC, Json, IOUtils

Rec == ndJsonDeserialize(IOEnv.TRACE)
NRec == Len(Rec)
Env == JsonDeserialize(IOEnv.ENV)

ValueOfJson(val) == IF val.t = "num" THEN VNum(val.v, DFromJson(val.d)) ELSE VFloat(DFromJson(val.d), FALSE)

DBOfJson(e) ==
  [base |-> {e.base[i] : i \in DOMAIN e.base},
   units |-> [n \in {e.units[i].name : i \in DOMAIN e.units} |->
                ValueOfJson(e.units[CHOOSE i \in DOMAIN e.units : e.units[i].name = n].val)],
   prefixes |-> [i \in DOMAIN e.prefixes |-> [name |-> e.prefixes[i].name, v |-> e.prefixes[i].v]],
   ans |-> VNone, subst |-> {}, closed |-> TRUE]
DB == DBOfJson(Env)

VARIABLE l

Has(ev, f) == f \in DOMAIN ev

\* R: the admissible readings of the name whose observed lookup is ev[f]
LookupOK(db, R, ev, f) == IF Has(ev, f) THEN AdmissibleIn(db, R, ObsValue(ev[f])) ELSE R = {}

\* (bound once each: TLC re-evaluates definitions at every use)
VerdictOn(db, ev, i) ==
  \E Rn \in {Readings(db, ev.n)} :
  /\ IF LookupOK(db, Rn, ev, "l") THEN TRUE ELSE PrintT(<<"REJECT", i, "lookup">>)
  /\ IF Has(ev, "canon") /\ Rn # {}
     THEN \E Rc \in {IF ev.canon = ev.n THEN Rn ELSE Readings(db, ev.canon)} :
          /\ IF CanonOKIn(db, Rn, Rc) THEN TRUE ELSE PrintT(<<"REJECT", i, "canon">>)
          /\ IF LookupOK(db, Rc, ev, "cl") THEN TRUE ELSE PrintT(<<"REJECT", i, "canonlookup">>)
     ELSE TRUE
  /\ \E k \in {Cardinality(CandidateReadings(db, ev.n))} : IF k >= 2 THEN PrintT(<<"NOTE", i, k>>) ELSE TRUE

Verdict(ev, i) ==
  IF Has(ev, "db") THEN \E db \in {DBOfJson(ev.db)} : VerdictOn(db, ev, i) ELSE VerdictOn(DB, ev, i)

Init == l = 1
Next == l <= NRec /\ Verdict(Rec[l], l) /\ l' = l + 1
Spec == Init /\ [][Next]_l
=============================================================================
