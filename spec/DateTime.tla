------------------------------ MODULE DateTime ------------------------------
(***************************************************************************)
(* Instants, durations and date literals (property C14).                   *)
(*                                                                         *)
(*  * An instant is a BigNum integer Z: nanoseconds since                  *)
(*    0001-01-01T00:00:00 UTC in the proleptic Gregorian calendar          *)
(*    (astronomical year numbering: year 0 exists, years before it are     *)
(*    negative).  The calendar is written here (DaysFromCivil, 400/100/4   *)
(*    rule) and owes nothing to chrono.  Day counts, seconds of a day and  *)
(*    nanoseconds of a second are native integers (|year| <= 300000 keeps  *)
(*    every one of them below 2^31); everything larger is BigNum.          *)
(*  * A duration is a BigNum rational Q of seconds.                        *)
(*  * AddDur(d, t) is defined only when t is a whole number of nanoseconds *)
(*    and the result is inside the supported range; Diff(d1, d2) is the    *)
(*    exact rational number of seconds.                                    *)
(*  * The documented literal patterns (core/datepatterns.txt) are          *)
(*    transcribed as data (Patterns); a literal is read by every pattern   *)
(*    in every way its optional groups allow (Readings), each reading is   *)
(*    classified (Classify): an instant, a local time in a named zone (the *)
(*    tz database is not specified: the UTC offset is taken from the       *)
(*    observation), invalid (matches a pattern but denotes nothing: Feb    *)
(*    30, offset of 24 h or more), or silent (depends on the current time, *)
(*    or the documentation does not fix a meaning).  "soft" readings       *)
(*    (minute 60, hour 24, second 60, a contradicting weekday, more than   *)
(*    nine fractional digits) admit an error as well as the arithmetic     *)
(*    reading (second 60 = the first second of the next minute: the        *)
(*    calendar of the property has no leap seconds).                       *)
(*  * A literal never denotes an instant outside what its written fields   *)
(*    allow.  A reading that writes a time but no date ("today" patterns)  *)
(*    or only a part of a date (year and ISO week, month and day without a *)
(*    year) is "partial": it carries the written fields as constraints     *)
(*    (PC); admissible is an instant that has these fields at the written  *)
(*    offset - for an incomplete date also an error - and, when the clock  *)
(*    of the context is known, a time-only literal denotes that time on    *)
(*    the clock's day at the written offset (TodayInstant).                *)
(*  * UTC offsets are valid iff |offset| < 24 h; both spellings (+hh:mm,   *)
(*    +hhmm) have minutes below 60.                                        *)
(***************************************************************************)
EXTENDS BigNum, Lexer, TzNames, DateWords, FiniteSets

-----------------------------------------------------------------------------
(* the proleptic Gregorian calendar *)

IsLeap(y) == (y % 4 = 0 /\ y % 100 # 0) \/ y % 400 = 0
DaysInMonth(y, m) == IF m \in {4, 6, 9, 11} THEN 30
                     ELSE IF m = 2 THEN (IF IsLeap(y) THEN 29 ELSE 28)
                     ELSE 31
DaysInYear(y) == IF IsLeap(y) THEN 366 ELSE 365
ValidCivil(y, m, d) == m >= 1 /\ m <= 12 /\ d >= 1 /\ d <= DaysInMonth(y, m)

\* days from 0001-01-01 to y-01-01 (negative for y < 1); \div is floor division
DaysBeforeYear(y) == LET p == y - 1 IN 365 * p + (p \div 4) - (p \div 100) + (p \div 400)
RECURSIVE DaysBeforeMonth(_, _)
DaysBeforeMonth(y, m) == IF m <= 1 THEN 0 ELSE DaysBeforeMonth(y, m - 1) + DaysInMonth(y, m - 1)
DaysFromCivil(y, m, d) == DaysBeforeYear(y) + DaysBeforeMonth(y, m) + (d - 1)
DaysFromOrdinal(y, o) == DaysBeforeYear(y) + (o - 1)
\* 0001-01-01 is a Monday.  1 = Monday ... 7 = Sunday
WeekdayOf(days) == (days % 7) + 1

\* the inverse, used by the self-test and by the generator (not by the judge)
RECURSIVE YearOfFrom(_, _)
YearOfFrom(days, y) == IF DaysBeforeYear(y) > days THEN YearOfFrom(days, y - 1)
                       ELSE IF DaysBeforeYear(y + 1) <= days THEN YearOfFrom(days, y + 1)
                       ELSE y
YearOf(days) == YearOfFrom(days, (days \div 366) + 1)      \* the estimate is never too large by much
RECURSIVE MonthOfFrom(_, _, _)
MonthOfFrom(y, rest, m) == IF rest < DaysInMonth(y, m) THEN <<m, rest + 1>> ELSE MonthOfFrom(y, rest - DaysInMonth(y, m), m + 1)
CivilFromDays(days) == LET y == YearOf(days)
                           md == MonthOfFrom(y, days - DaysBeforeYear(y), 1)
                       IN <<y, md[1], md[2]>>

\* ISO 8601 week dates: a week belongs to the year its Thursday lies in; week 1 holds the year's first Thursday
IsoThursday(days) == days - WeekdayOf(days) + 4
IsoYearOf(days) == YearOf(IsoThursday(days))
IsoWeekOf(days) == ((IsoThursday(days) - DaysBeforeYear(IsoYearOf(days))) \div 7) + 1

-----------------------------------------------------------------------------
(* instants and durations *)

Billion == 1000000000
ZBillion == ZFromInt(Billion)
NBillion == NFromInt(Billion)
\* days since 0001-01-01, seconds (may be negative or exceed a day: offsets), nanoseconds
InstantOf(days, secs, ns) ==
  ZAdd(ZMul(ZAdd(ZMul(ZFromInt(days), ZFromInt(86400)), ZFromInt(secs)), ZBillion), ZFromInt(ns))
CivilInstant(y, m, d, hh, mi, ss, ns, off) == InstantOf(DaysFromCivil(y, m, d), hh * 3600 + mi * 60 + ss - off, ns)

OffsetValid(off) == off > -86400 /\ off < 86400

\* the supported range.  The code's calendar type reaches about +-262 000 years and its duration type
\* i64::MAX/1000 seconds ("Number is out of range"); the property says "within the supported range"
\* without fixing the edges, so the specification decides results only well inside:
\*   |instant| <= 200 000 * 366 days  and  |duration| <= 9 223 372 036 854 775 s.
\* Outside, an error is admissible as well as the exact result (never a wrong result).
MaxInstant == ZMul(ZMul(ZFromInt(200000 * 366), ZFromInt(86400)), ZBillion)
MaxDurSecs == Q(Z(FALSE, NFromDigits(<<9,2,2,3,3,7,2,0,3,6,8,5,4,7,7,5>>, 10)), <<1>>)
InRange(inst) == NLe(inst.mag, MaxInstant.mag)
DurInRange(t) == QLe(QAbs(t), MaxDurSecs)

\* t (rational seconds) as nanoseconds
DurNanos(t) == Q(ZMul(t.n, ZBillion), t.d)
WholeNanos(t) == QIsInt(DurNanos(t))
\* d + t; only meaningful when WholeNanos(t)
AddDur(d, t) == ZAdd(d, QToZ(DurNanos(t)))
AddDurDefined(d, t) == WholeNanos(t) /\ DurInRange(t) /\ InRange(AddDur(d, t))
\* d1 - d2 in seconds
Diff(d1, d2) == Q(ZSub(d1, d2), NBillion)

-----------------------------------------------------------------------------
(* observations: the fields of a reply as the code reports them, in the reply's own zone *)
\* f = <<year, month, day, hour, minute, second, nanosecond>>, off = UTC offset in seconds
FieldsValid(f) == /\ Len(f) = 7
                  /\ f[1] >= -300000 /\ f[1] <= 300000
                  /\ ValidCivil(f[1], f[2], f[3])
                  /\ f[4] >= 0 /\ f[4] <= 23 /\ f[5] >= 0 /\ f[5] <= 59 /\ f[6] >= 0 /\ f[6] <= 59
                  /\ f[7] >= 0 /\ f[7] < Billion
FieldsInstant(f, off) == CivilInstant(f[1], f[2], f[3], f[4], f[5], f[6], f[7], off)
FieldsLocal(f) == FieldsInstant(f, 0)

-----------------------------------------------------------------------------
(* the documented patterns, as data.  Elements: dash, colon, space, lit(text), m(what), opt(sub-pattern) *)
PE(e, w, s, p) == [e |-> e, w |-> w, s |-> s, p |-> p]
PDash == PE("dash", "", <<>>, <<>>)
PColon == PE("colon", "", <<>>, <<>>)
PSpace == PE("space", "", <<>>, <<>>)
PLit(s) == PE("lit", "", s, <<>>)
PM(w) == PE("m", w, <<>>, <<>>)
POpt(p) == PE("opt", "", <<>>, p)

\* hour24:min[:sec][ offset]
Time24 == <<PM("hour24"), PColon, PM("min"), POpt(<<PColon, PM("sec")>>), POpt(<<PSpace, PM("offset")>>)>>
\* hour12:min[:sec] meridiem[ offset]
Time12 == <<PM("hour12"), PColon, PM("min"), POpt(<<PColon, PM("sec")>>), PSpace, PM("meridiem"),
            POpt(<<PSpace, PM("offset")>>)>>
OptAdbc == POpt(<<PSpace, PM("adbc")>>)
OptYear == POpt(<<POpt(<<PLit(DW_comma)>>), PSpace, PM("year")>>)

Patterns == <<
  \* ISO 8601 formats
  \*   year-monthnum-fullday['T'hour24:min[:sec][ offset]]
  <<PM("year"), PDash, PM("monthnum"), PDash, PM("fullday"), POpt(<<PLit(DW_T)>> \o Time24)>>,
  \*   year-monthnum-fullday[ hour24:min[:sec][ offset]]
  <<PM("year"), PDash, PM("monthnum"), PDash, PM("fullday"), POpt(<<PSpace>> \o Time24)>>,
  \*   year-'W'isoweek[ hour24:min[:sec][ offset]]
  <<PM("year"), PDash, PLit(DW_W), PM("isoweek"), POpt(<<PSpace>> \o Time24)>>,
  \*   year-ordinal[ hour24:min[:sec][ offset]]
  <<PM("year"), PDash, PM("ordinal"), POpt(<<PSpace>> \o Time24)>>,
  \*   --monthnum-day[ hour24:min[:sec][ offset]]
  <<PDash, PDash, PM("monthnum"), PDash, PM("day"), POpt(<<PSpace>> \o Time24)>>,
  \* Dates like "January 1, 1970"
  \*   monthname day[[','] year][ hour12:min[:sec] meridiem[ offset]][ adbc]
  <<PM("monthname"), PSpace, PM("day"), OptYear, POpt(<<PSpace>> \o Time12), OptAdbc>>,
  \*   monthname day[[','] year][ hour24:min[:sec][ offset]][ adbc]
  <<PM("monthname"), PSpace, PM("day"), OptYear, POpt(<<PSpace>> \o Time24), OptAdbc>>,
  \* ctime dates
  \*   weekday monthname day[ hour24:min[:sec]] fullyear
  <<PM("weekday"), PSpace, PM("monthname"), PSpace, PM("day"),
    POpt(<<PSpace, PM("hour24"), PColon, PM("min"), POpt(<<PColon, PM("sec")>>)>>), PSpace, PM("fullyear")>>,
  \* Astronomical dates like "1970 January 1"
  \*   year monthname day[ hour12:min[:sec] meridiem[ offset]][ adbc]
  <<PM("year"), PSpace, PM("monthname"), PSpace, PM("day"), POpt(<<PSpace>> \o Time12), OptAdbc>>,
  \*   year monthname day[ hour24:min[:sec][ offset]][ adbc]
  <<PM("year"), PSpace, PM("monthname"), PSpace, PM("day"), POpt(<<PSpace>> \o Time24), OptAdbc>>,
  \* Today dates
  \*   hour12:min[:sec] meridiem[ offset]
  Time12,
  \*   hour24:min[:sec][ offset]
  Time24 >>

-----------------------------------------------------------------------------
(* fields collected while a pattern reads a literal *)
F0 == [y |-> 0, hy |-> FALSE, mo |-> 0, dd |-> 0, ord |-> 0, wk |-> 0, wd |-> 0, h12 |-> -1, pm |-> -1, mi |-> -1,
       s |-> -1, ns |-> 0, nsx |-> FALSE, ok |-> 0, off |-> 0, tz |-> <<>>, unspec |-> FALSE, soft |-> FALSE]

DTok(toks, i) == IF i >= 1 /\ i <= Len(toks) THEN toks[i] ELSE [d |-> "eof"]
IsNumTok(t) == t.d = "number" /\ ~t.hasfrac
RECURSIVE DValFrom(_, _, _)
DValFrom(ds, i, acc) == IF i > Len(ds) THEN acc ELSE DValFrom(ds, i + 1, acc * 10 + ds[i])
DVal(ds) == DValFrom(ds, 1, 0)                      \* only for at most 9 digits
RECURSIVE DStrip(_)
DStrip(ds) == IF ds # <<>> /\ ds[1] = 0 THEN DStrip(Tail(ds)) ELSE ds
LowerSeq(s) == [k \in 1..Len(s) |-> ToLower(s[k])]
IndexIn(seq, x) == IF \E k \in DOMAIN seq : seq[k] = x THEN CHOOSE k \in DOMAIN seq : seq[k] = x ELSE 0
MonthNumber(s) == LET lw == LowerSeq(s) IN IF IndexIn(DW_MonthAbbr, lw) # 0 THEN IndexIn(DW_MonthAbbr, lw) ELSE IndexIn(DW_MonthFull, lw)
WeekdayNumber(s) == LET lw == LowerSeq(s) IN IF IndexIn(DW_DayAbbr, lw) # 0 THEN IndexIn(DW_DayAbbr, lw) ELSE IndexIn(DW_DayFull, lw)

One(i, f) == {[i |-> i, f |-> f]}
\* a number token without fraction, exactly w digits, value in lo..hi
FixedNum(t, w, lo, hi) == IsNumTok(t) /\ Len(t.int) = w /\ DVal(t.int) >= lo /\ DVal(t.int) <= hi

\* fractional seconds: up to 9 digits are nanoseconds; more digits cannot be represented (nsx: the first nine
\* are kept; an error, or a result within one nanosecond, is admissible); no digit at all: not specified
FracNanos(fr) == LET n == IF Len(fr) > 9 THEN 9 ELSE Len(fr) IN DVal(SubSeq(fr, 1, n)) * (10 ^ (9 - n))

\* one pattern word reads the literal from position i: the set of [i (next position), f (fields)]
Elem(w, toks, i, f) ==
  LET t == DTok(toks, i) IN
  CASE w = "year" ->
         LET signed == t.d \in {"dash", "plus"}
             nt == IF signed THEN DTok(toks, i + 1) ELSE t
             nx == IF signed THEN i + 2 ELSE i + 1
         IN IF ~IsNumTok(nt) THEN {}
            ELSE IF Len(DStrip(nt.int)) > 4 THEN One(nx, [f EXCEPT !.unspec = TRUE, !.hy = TRUE])   \* beyond +-9999: silent
            ELSE One(nx, [f EXCEPT !.hy = TRUE, !.y = IF t.d = "dash" THEN -DVal(DStrip(nt.int)) ELSE DVal(DStrip(nt.int))])
    [] w = "fullyear" -> IF FixedNum(t, 4, 0, 9999) THEN One(i + 1, [f EXCEPT !.hy = TRUE, !.y = DVal(t.int)]) ELSE {}
    [] w = "monthnum" -> IF FixedNum(t, 2, 1, 12) THEN One(i + 1, [f EXCEPT !.mo = DVal(t.int)]) ELSE {}
    [] w = "fullday" -> IF FixedNum(t, 2, 1, 31) THEN One(i + 1, [f EXCEPT !.dd = DVal(t.int)]) ELSE {}
    [] w = "day" ->      \* any number of digits
         IF IsNumTok(t) /\ Len(DStrip(t.int)) <= 2 /\ DVal(DStrip(t.int)) >= 1 /\ DVal(DStrip(t.int)) <= 31
         THEN One(i + 1, [f EXCEPT !.dd = DVal(DStrip(t.int))]) ELSE {}
    [] w = "ordinal" -> IF FixedNum(t, 3, 1, 366) THEN One(i + 1, [f EXCEPT !.ord = DVal(t.int)]) ELSE {}
    [] w = "isoweek" ->  \* a week, not a day: the date stays partial
         IF FixedNum(t, 2, 1, 53) THEN One(i + 1, [f EXCEPT !.wk = DVal(t.int)]) ELSE {}
    [] w = "hour24" ->   \* hour 24 (ISO 8601:2004 allowed 24:00 for the end of a day): an error, or the arithmetic reading
         IF FixedNum(t, 2, 0, 23) THEN One(i + 1, [f EXCEPT !.h12 = DVal(t.int) % 12, !.pm = DVal(t.int) \div 12])
         ELSE IF FixedNum(t, 2, 24, 24) THEN One(i + 1, [f EXCEPT !.h12 = 0, !.pm = 2, !.soft = TRUE])
         ELSE {}
    [] w = "hour12" -> IF FixedNum(t, 2, 1, 12) THEN One(i + 1, [f EXCEPT !.h12 = DVal(t.int) % 12]) ELSE {}
    [] w = "min" ->      \* minute 60 names no minute of the hour: an error, or the arithmetic reading
         IF FixedNum(t, 2, 0, 59) THEN One(i + 1, [f EXCEPT !.mi = DVal(t.int)])
         ELSE IF FixedNum(t, 2, 60, 60) THEN One(i + 1, [f EXCEPT !.mi = 60, !.soft = TRUE])
         ELSE {}
    [] w = "sec" ->
         \* second 60 (a leap second; the calendar of the property has none): an error, or the arithmetic reading
         IF t.d # "number" \/ Len(t.int) # 2 \/ DVal(t.int) > 60 THEN {}
         ELSE IF ~t.hasfrac THEN One(i + 1, [f EXCEPT !.s = DVal(t.int), !.soft = f.soft \/ DVal(t.int) = 60])
         ELSE IF t.frac = <<>> THEN One(i + 1, [f EXCEPT !.unspec = TRUE])
         ELSE One(i + 1, [f EXCEPT !.s = DVal(t.int), !.ns = FracNanos(t.frac), !.nsx = Len(t.frac) > 9,
                                   !.soft = f.soft \/ DVal(t.int) = 60])
    [] w = "meridiem" ->
         IF t.d = "literal" /\ LowerSeq(t.s) = DW_am THEN One(i + 1, [f EXCEPT !.pm = 0])
         ELSE IF t.d = "literal" /\ LowerSeq(t.s) = DW_pm THEN One(i + 1, [f EXCEPT !.pm = 1])
         ELSE {}
    [] w = "adbc" ->
         IF t.d = "literal" /\ LowerSeq(t.s) \in {DW_ad, DW_ce} THEN One(i + 1, f)
         ELSE IF t.d = "literal" /\ LowerSeq(t.s) \in {DW_bc, DW_bce}
              THEN One(i + 1, IF f.hy THEN [f EXCEPT !.y = 1 - f.y] ELSE f)               \* 1 BC is year 0
         ELSE {}
    [] w = "monthname" -> IF t.d = "literal" /\ MonthNumber(t.s) # 0 THEN One(i + 1, [f EXCEPT !.mo = MonthNumber(t.s)]) ELSE {}
    [] w = "weekday" -> IF t.d = "literal" /\ WeekdayNumber(t.s) # 0 THEN One(i + 1, [f EXCEPT !.wd = WeekdayNumber(t.s)]) ELSE {}
    [] w = "offset" ->
         IF t.d = "literal" THEN (IF t.s \in TZNames THEN One(i + 1, [f EXCEPT !.ok = 2, !.tz = t.s]) ELSE {})
         ELSE IF t.d \in {"plus", "dash"} /\ IsNumTok(DTok(toks, i + 1)) THEN
              LET sg == IF t.d = "plus" THEN 1 ELSE -1
                  h == DTok(toks, i + 1).int
                  m == DTok(toks, i + 3)
              IN IF Len(h) = 4 THEN        \* +hhmm; minutes of 60 and more are no offset in either spelling
                    (IF DVal(h) % 100 > 59 THEN {}
                     ELSE One(i + 2, [f EXCEPT !.ok = 1, !.off = sg * ((DVal(h) \div 100) * 3600 + (DVal(h) % 100) * 60)]))
                 ELSE IF DTok(toks, i + 2).d = "colon" /\ FixedNum(m, 2, 0, 59) THEN     \* +h:mm, +hh:mm
                    (IF Len(h) > 3 THEN One(i + 4, [f EXCEPT !.unspec = TRUE])
                     ELSE One(i + 4, [f EXCEPT !.ok = 1, !.off = sg * (DVal(h) * 3600 + DVal(m.int) * 60)]))
                 ELSE {}
         ELSE {}
    [] OTHER -> {}

\* every way the pattern pat (from element j) reads toks from position i: set of [i, f]
RECURSIVE MatchFrom(_, _, _, _, _)
MatchFrom(pat, j, toks, i, f) ==
  IF j > Len(pat) THEN One(i, f)
  ELSE LET el == pat[j] IN
       CASE el.e = "opt" ->
              (UNION {MatchFrom(pat, j + 1, toks, r.i, r.f) : r \in MatchFrom(el.p, 1, toks, i, f)})
              \cup MatchFrom(pat, j + 1, toks, i, f)
         [] el.e = "m" -> UNION {MatchFrom(pat, j + 1, toks, r.i, r.f) : r \in Elem(el.w, toks, i, f)}
         [] el.e = "lit" -> IF DTok(toks, i).d = "literal" /\ DTok(toks, i).s = el.s THEN MatchFrom(pat, j + 1, toks, i + 1, f) ELSE {}
         [] OTHER -> IF DTok(toks, i).d = el.e THEN MatchFrom(pat, j + 1, toks, i + 1, f) ELSE {}

FullMatches(pat, toks) == {r.f : r \in {x \in MatchFrom(pat, 1, toks, 1, F0) : x.i = Len(toks) + 1}}

-----------------------------------------------------------------------------
(* what a complete reading denotes.  c: "fixed" (inst), "zoned" (inst = the local time as if UTC, tz),
   "invalid", "silent", "partial" (pc: the written fields); win: 1 when digits beyond nanoseconds were dropped;
   soft: an error is admissible too; leap: second 60 was written *)
\* the written fields of a partial reading: year (hy: written), month, day, ISO week, weekday, the time of day in
\* seconds (0 when no time was written, as for complete dates) and nanoseconds, the offset (ok: 0 none = UTC,
\* 1 fixed, 2 named zone), nodate: no date field at all (the "today" patterns)
PC0 == [hy |-> FALSE, y |-> 0, mo |-> 0, dd |-> 0, wk |-> 0, wd |-> 0, secs |-> 0, ns |-> 0, ok |-> 0, off |-> 0, nodate |-> FALSE]
RD(c, inst, win, soft, tz) == [c |-> c, inst |-> inst, win |-> win, soft |-> soft, tz |-> tz, leap |-> FALSE, pc |-> PC0]
RSilent == RD("silent", ZZero, 0, FALSE, <<>>)
RInvalid == RD("invalid", ZZero, 0, FALSE, <<>>)
RPartial(f, secs) ==
  [RD("partial", ZZero, 0, FALSE, f.tz) EXCEPT
     !.pc = [hy |-> f.hy, y |-> f.y, mo |-> f.mo, dd |-> f.dd, wk |-> f.wk, wd |-> f.wd, secs |-> secs, ns |-> f.ns,
             ok |-> f.ok, off |-> IF f.ok = 1 THEN f.off ELSE 0,
             nodate |-> ~f.hy /\ f.mo = 0 /\ f.dd = 0 /\ f.wk = 0 /\ f.wd = 0]]

Classify(f) ==
  LET hasdate == f.hy /\ f.wk = 0 /\ ((f.mo > 0 /\ f.dd > 0) \/ f.ord > 0)
      hastime == f.h12 >= 0 /\ f.pm >= 0 /\ f.mi >= 0
      notime == f.h12 < 0 /\ f.pm < 0 /\ f.mi < 0 /\ f.s < 0
      secs == IF hastime THEN ((f.pm * 12 + f.h12) * 60 + f.mi) * 60 + (IF f.s < 0 THEN 0 ELSE f.s) ELSE 0
  IN IF f.unspec \/ ~(hastime \/ notime) THEN RSilent                       \* not documented
     ELSE IF ~hasdate THEN                                                  \* no date, or a part of one
          (IF f.soft \/ f.nsx \/ f.ord > 0 THEN RSilent
           ELSE IF f.ok = 1 /\ ~OffsetValid(f.off) THEN RInvalid
           ELSE RPartial(f, secs))
     ELSE IF (f.ord > 0 /\ f.ord > DaysInYear(f.y)) \/ (f.ord = 0 /\ ~ValidCivil(f.y, f.mo, f.dd)) THEN RInvalid
     ELSE LET days == IF f.ord > 0 THEN DaysFromOrdinal(f.y, f.ord) ELSE DaysFromCivil(f.y, f.mo, f.dd)
              \* a weekday that contradicts the date: an error, or the date (a reader may ignore the weekday)
              wdbad == f.wd # 0 /\ WeekdayOf(days) # f.wd
          IN IF f.ok = 1 /\ ~OffsetValid(f.off) THEN RInvalid
             ELSE IF f.ok = 2 THEN (IF f.s = 60 THEN RSilent
                                    ELSE RD("zoned", InstantOf(days, secs, f.ns), IF f.nsx THEN 1 ELSE 0, TRUE, f.tz))
             ELSE [RD("fixed", InstantOf(days, secs - f.off, f.ns), IF f.nsx THEN 1 ELSE 0, f.soft \/ f.nsx \/ wdbad, <<>>)
                     EXCEPT !.leap = f.s = 60]

\* the clock ck = <<year, month, day, hour, minute, second>> (UTC) of the context
ClockInstant(ck) == CivilInstant(ck[1], ck[2], ck[3], ck[4], ck[5], ck[6], 0, 0)
\* the day number of the clock's day as seen at the UTC offset off
ClockDay(ck, off) == DaysFromCivil(ck[1], ck[2], ck[3]) + ((ck[4] * 3600 + ck[5] * 60 + ck[6] + off) \div 86400)
\* a time-only literal (pc.nodate, no named zone): that time on the clock's day, at the written offset
TodayInstant(pc, ck) == InstantOf(ClockDay(ck, pc.off), pc.secs - pc.off, pc.ns)

\* does an instant shown as the fields f = <<year, month, day, hour, minute, second, nanosecond>> at the UTC offset ro
\* have the written fields pc at the written offset?  (named zone: the reply's own zone is taken for it)
PCFits(pc, f, ro) ==
  LET delta == IF pc.ok = 2 THEN 0 ELSE pc.off - ro
      s0 == (f[4] * 3600) + (f[5] * 60) + f[6] + delta
      days == DaysFromCivil(f[1], f[2], f[3]) + (s0 \div 86400)
      civ == CivilFromDays(days)
  IN /\ (s0 % 86400) = pc.secs /\ f[7] = pc.ns
     /\ (pc.mo > 0 => civ[2] = pc.mo)
     /\ (pc.dd > 0 => civ[3] = pc.dd)
     /\ (pc.wd # 0 => WeekdayOf(days) = pc.wd)
     \* year-'W'isoweek: that ISO week of the ISO week-numbering year, or of the calendar year, as written
     /\ (pc.wk > 0 => IsoWeekOf(days) = pc.wk /\ (~pc.hy \/ IsoYearOf(days) = pc.y \/ civ[1] = pc.y))
     /\ ((pc.wk = 0 /\ pc.hy) => civ[1] = pc.y)

\* all readings of a literal (its date tokens) by the documented patterns
Readings(toks) == UNION {{Classify(f) : f \in FullMatches(Patterns[p], toks)} : p \in DOMAIN Patterns}

\* summary used by the judge.  (Operator arguments are evaluated once; LET definitions at every use.)
SummaryOf(rs) ==
  [silent |-> \E r \in rs : r.c = "silent",
   valid |-> {r \in rs : r.c \in {"fixed", "zoned"}},
   partial |-> {r.pc : r \in {x \in rs : x.c = "partial"}},
   ninvalid |-> Cardinality({r \in rs : r.c = "invalid"}),
   nmatch |-> Cardinality(rs)]
LitSummary(toks) == SummaryOf(Readings(toks))

\* the literal as a value inside a larger expression: "date" (exactly one reading: a strict fixed instant, or a local
\* time in a named zone whose UTC offset zoff = <<seconds>> was observed), "err" (matches no pattern, or only as
\* something that denotes nothing), "unknown" otherwise
OffsetNanos(off) == ZMul(ZFromInt(off), ZBillion)
ValueOfReading(r, zoff) ==
  IF r.c = "fixed" /\ ~r.soft /\ r.win = 0 THEN [t |-> "date", inst |-> r.inst]
  ELSE IF r.c = "zoned" /\ r.win = 0 /\ zoff # <<>> /\ OffsetValid(zoff[1]) THEN [t |-> "date", inst |-> ZSub(r.inst, OffsetNanos(zoff[1]))]
  ELSE [t |-> "unknown"]
ValueOfSummary(s, zoff) ==
  IF s.silent \/ s.partial # {} THEN [t |-> "unknown"]
  ELSE IF s.valid = {} THEN [t |-> "err", c |-> "generic"]
  ELSE IF s.ninvalid = 0 /\ Cardinality(s.valid) = 1 THEN ValueOfReading(CHOOSE r \in s.valid : TRUE, zoff)
  ELSE [t |-> "unknown"]
LitValue(toks) == ValueOfSummary(LitSummary(toks), <<>>)
LitIsZoned(s) == ~s.silent /\ s.partial = {} /\ s.ninvalid = 0 /\ Cardinality(s.valid) = 1 /\ \A r \in s.valid : r.c = "zoned"
=============================================================================
