--------------------------------- MODULE Dim ---------------------------------
(***************************************************************************)
(* Dimensionalities: finite functions from base-unit names to non-zero     *)
(* integer exponents.  Every operator drops zero entries by construction   *)
(* (property C02: no base unit is ever carried with exponent zero).        *)
(***************************************************************************)
EXTENDS Integers, Sequences, FiniteSets

DEmpty == [u \in {} |-> 0]
DBase(u) == [x \in {u} |-> 1]
DOf(d, u) == IF u \in DOMAIN d THEN d[u] ELSE 0
DClean(f) == [u \in {x \in DOMAIN f : f[x] # 0} |-> f[u]]
DMul(a, b) == DClean([u \in (DOMAIN a) \cup (DOMAIN b) |-> DOf(a, u) + DOf(b, u)])
DRecip(a) == [u \in DOMAIN a |-> -a[u]]
DDiv(a, b) == DMul(a, DRecip(b))
DPow(a, k) == DClean([u \in DOMAIN a |-> a[u] * k])
DRootOK(a, k) == \A u \in DOMAIN a : a[u] % k = 0
DRoot(a, k) == [u \in DOMAIN a |-> a[u] \div k]      \* only when DRootOK(a, k)
DIsEmpty(a) == DOMAIN a = {}
DEq(a, b) == DOMAIN a = DOMAIN b /\ \A u \in DOMAIN a : a[u] = b[u]
DNoZero(a) == \A u \in DOMAIN a : a[u] # 0

\* from the JSON form [{u: name, e: int}, ...]
DFromJson(arr) == [u \in {arr[i].u : i \in DOMAIN arr} |-> arr[CHOOSE i \in DOMAIN arr : arr[i].u = u].e]
DJsonOK(arr) == \A i, j \in DOMAIN arr : arr[i].u = arr[j].u => i = j   \* no duplicate keys
=============================================================================
