------------------------------- MODULE Loader -------------------------------
(***************************************************************************)
(* The definitions loader of rink-core (core/src/loader/load.rs) as a      *)
(* state machine shaped like the code:                                     *)
(*                                                                         *)
(*   files  --Concat-->  todo  --Insert*-->  input / unmarked / docs /cats *)
(*   (cli/src/config.rs:329)  (load.rs:292-356)                            *)
(*   --Pick / VisitEnter / DepStep / VisitExit*-->  sorted                 *)
(*   (load.rs:358-360, 138-164, 109-136 with Resolver::lookup 65-107:      *)
(*    the recursion of the code is the explicit `stack` here)              *)
(*   --Evaluate*-->  db      --Post-->  docs / categories, Done            *)
(*   (load.rs:388-579)       (load.rs:581-604)                             *)
(*                                                                         *)
(* Names are sequences of code points (TLC strings are atomic and name     *)
(* resolution takes prefixes and plural endings apart).  The definition    *)
(* language of the model: a body is a product  c id1 id2 ...  of an        *)
(* integer and identifiers; kinds are base unit (optionally with a long    *)
(* name), unit, prefix (long or short), quantity, substance (a sequence of *)
(* properties, each an input and an output body), category.  Numbers are   *)
(* small rationals n/q with a dimension vector, so that the database the   *)
(* loader produces can be computed in the model.  A substance may carry a   *)
(* symbol (`!symbol`); a name that has no other reading is read as a       *)
(* chemical formula over the symbols (core/src/parsing/formula.rs).        *)
(*                                                                         *)
(* Every action is  enabling condition /\ Assign(state function), so that  *)
(* the same definitions give RunF, the loader as a function, used by       *)
(* OrderIndependent to compare the result of every input order with the    *)
(* result of the canonical order of the same set.                          *)
(***************************************************************************)
EXTENDS Integers, Sequences, FiniteSets, TLC

CONSTANTS InitCase(_, _), \* InitCase(l, f): l is the name and f the value of an initial `files` (a sequence of files,
                          \* each the sequence of definitions its text parses to)
          BaseNames    \* every name a base unit of the universe can have (dimension vectors are total over it)

VARIABLES label,      \* ghost: name of the initial state (which order, which split), forgotten by Concat
          files,      \* the parsed definition lists, one per file, not yet concatenated
          todo,       \* the concatenated list still to be inserted (load.rs: defs.defs.into_iter())
          defset,     \* ghost: the set of definitions given (for OrderIndependent)
          input,      \* Resolver.input : Id -> definition
          unmarked,   \* Resolver.unmarked
          temp,       \* Resolver.temp_marks
          sorted,     \* Resolver.sorted (emission order)
          stack,      \* the recursion of visit/eval/lookup made explicit
          errors,     \* Resolver.errors
          rdocs,      \* Resolver.docs : Id -> text
          rcats,      \* Resolver.categories : Id -> category id
          cut,        \* ghost: dependency edges on which a cycle was reported
          evalq,      \* definitions still to be evaluated, in emission order
          db,         \* the registry being built (plus Context.temporaries)
          phase

vars == <<label, files, todo, defset, input, unmarked, temp, sorted, stack, errors, rdocs, rcats, cut, evalq, db, phase>>

S == [label |-> label, files |-> files, todo |-> todo, defset |-> defset, input |-> input, unmarked |-> unmarked, temp |-> temp,
      sorted |-> sorted, stack |-> stack, errors |-> errors, rdocs |-> rdocs, rcats |-> rcats, cut |-> cut,
      evalq |-> evalq, db |-> db, phase |-> phase]

Assign(r) ==
  /\ label' = r.label /\ files' = r.files /\ todo' = r.todo /\ defset' = r.defset /\ input' = r.input /\ unmarked' = r.unmarked
  /\ temp' = r.temp /\ sorted' = r.sorted /\ stack' = r.stack /\ errors' = r.errors /\ rdocs' = r.rdocs
  /\ rcats' = r.rcats /\ cut' = r.cut /\ evalq' = r.evalq /\ db' = r.db /\ phase' = r.phase

-----------------------------------------------------------------------------
(* names, identifiers *)

NoName == <<>>
RECURSIVE SeqLess(_, _)
SeqLess(a, b) ==   \* byte-wise order of Rust strings (ASCII here)
  IF a = <<>> THEN b # <<>>
  ELSE IF b = <<>> THEN FALSE
  ELSE IF a[1] # b[1] THEN a[1] < b[1]
  ELSE SeqLess(Tail(a), Tail(b))

IsPrefixSeq(p, s) == Len(p) <= Len(s) /\ SubSeq(s, 1, Len(p)) = p
DropSeq(s, n) == SubSeq(s, n + 1, Len(s))
EndsWithS(s) == s # <<>> /\ s[Len(s)] = 115
StripS(s) == SubSeq(s, 1, Len(s) - 1)

\* namespaces in the order of `enum Namespace` (derive(Ord)): Unit < Prefix < Quantity < Category
NsUnit == 0
NsPrefix == 1
NsQuantity == 2
NsCategory == 3
Id(ns, name) == [ns |-> ns, name |-> name]
IdLess(a, b) == a.ns < b.ns \/ (a.ns = b.ns /\ SeqLess(a.name, b.name))
MinId(X) == CHOOSE x \in X : \A y \in X \ {x} : IdLess(x, y)

RECURSIVE SortIds(_)
SortIds(X) == IF X = {} THEN <<>> ELSE <<MinId(X)>> \o SortIds(X \ {MinId(X)})

NsOf(def) == CASE def.kind = "prefix" -> NsPrefix
               [] def.kind = "quantity" -> NsQuantity
               [] def.kind = "category" -> NsCategory
               [] OTHER -> NsUnit
IdOf(def) == Id(NsOf(def), def.name)

\* functions as finite maps
EmptyMap == [x \in {} |-> 0]
Put(f, k, v) == [x \in (DOMAIN f) \cup {k} |-> IF x = k THEN v ELSE f[x]]
Has(f, k) == k \in DOMAIN f

RECURSIVE Flatten(_)
Flatten(ss) == IF ss = <<>> THEN <<>> ELSE Head(ss) \o Flatten(Tail(ss))
Range(s) == {s[i] : i \in DOMAIN s}

-----------------------------------------------------------------------------
(* chemical formulas (parsing/formula.rs): element symbols - an upper case letter, optionally one lower case
   letter - each optionally followed by a count *)

IsUpper(c) == c >= 65 /\ c <= 90
IsLower(c) == c >= 97 /\ c <= 122
IsDigit(c) == c >= 48 /\ c <= 57
RECURSIVE FormulaSyms(_)
FormulaSyms(s) ==      \* [ok, syms]: the symbols of a formula in order, counts dropped (formula::symbols)
  IF s = <<>> THEN [ok |-> TRUE, syms |-> <<>>]
  ELSE IF IsUpper(s[1])
       THEN LET n == IF Len(s) >= 2 /\ IsLower(s[2]) THEN 2 ELSE 1
                r == FormulaSyms(DropSeq(s, n))
            IN [ok |-> r.ok, syms |-> <<SubSeq(s, 1, n)>> \o r.syms]
  ELSE IF IsDigit(s[1]) THEN FormulaSyms(Tail(s))
  ELSE [ok |-> FALSE, syms |-> <<>>]

\* The two links of the dependency resolver that rink-rs lacked before commits 3701c96 and 479bb55 (a reference
\* through the long name of a base unit, a reference through a chemical formula).  Configurations replace them by
\* FALSE to show that the design without them violates ForwardRefsResolve (non-vacuity of that invariant).
LinkLongNames == TRUE
LinkFormulas == TRUE

-----------------------------------------------------------------------------
(* numbers: n/q (q > 0, not reduced) with a total dimension vector *)

DZero == [b \in BaseNames |-> 0]
DBaseOf(b) == [x \in BaseNames |-> IF x = b THEN 1 ELSE 0]
Num(n, q, d) == [n |-> n, q |-> q, d |-> d]
NOne == Num(1, 1, DZero)
NMulV(a, b) == Num(a.n * b.n, a.q * b.q, [x \in BaseNames |-> a.d[x] + b.d[x]])
NDivV(a, b) ==   \* b.n # 0
  LET sgn == IF b.n < 0 THEN -1 ELSE 1
  IN Num(sgn * a.n * b.q, sgn * a.q * b.n, [x \in BaseNames |-> a.d[x] - b.d[x]])
NEqV(a, b) == a.n * b.q = b.n * a.q /\ a.d = b.d
NIsOne(a) == a.n = a.q /\ a.d = DZero

-----------------------------------------------------------------------------
(* Resolver::lookup (load.rs:65-107): which definitions a name leads to.   *)
(* lookup_exact visits the first namespace in which the name is defined;   *)
(* lookup_with_prefix then tries every prefix definition in key order and  *)
(* takes the first whose remainder is defined (visiting the remainder,     *)
(* then the prefix); lookup finally retries without a plural "s".          *)
(* A name without any of these readings is tried as a chemical formula.   *)
(* All of this looks at `input` only, never at the marks.                  *)

ExactNs(ctxns) == IF ctxns = NsQuantity THEN <<NsQuantity>> ELSE <<NsUnit, NsPrefix, NsQuantity>>

ExactTarget(inp, name, ctxns) ==     \* <<id>> or <<>>
  LET nss == ExactNs(ctxns)
      hits == {i \in DOMAIN nss : Id(nss[i], name) \in DOMAIN inp}
  IN IF hits = {} THEN <<>>
     ELSE LET i == CHOOSE j \in hits : \A h \in hits : j <= h IN <<Id(nss[i], name)>>

PrefixIds(inp, name) == SortIds({x \in DOMAIN inp : x.ns = NsPrefix /\ IsPrefixSeq(x.name, name)})

RECURSIVE FirstPrefixSplit(_, _, _, _)
FirstPrefixSplit(inp, name, ctxns, pres) ==
  IF pres = <<>> THEN <<>>
  ELSE LET rest == ExactTarget(inp, DropSeq(name, Len(Head(pres).name)), ctxns) IN
       IF rest # <<>> THEN rest \o <<Head(pres)>>
       ELSE FirstPrefixSplit(inp, name, ctxns, Tail(pres))

WithPrefixTargets(inp, name, ctxns) ==    \* [found, ids]
  LET ex == ExactTarget(inp, name, ctxns) IN
  IF ex # <<>> THEN ex ELSE FirstPrefixSplit(inp, name, ctxns, PrefixIds(inp, name))

\* Resolver::lookup_formula: the substances the symbols of a formula stand for (Resolver.symbols is keyed by
\* symbol; sets in which two substances share a symbol are not uniquely named)
SymIds(inp, sym) == {x \in DOMAIN inp : x.ns = NsUnit /\ inp[x].kind = "subst" /\ inp[x].sym = sym}
FormulaTargets(inp, name) ==
  LET f == FormulaSyms(name) IN
  IF ~f.ok \/ \E i \in DOMAIN f.syms : SymIds(inp, f.syms[i]) = {} THEN <<>>
  ELSE [i \in DOMAIN f.syms |-> MinId(SymIds(inp, f.syms[i]))]

VisitTargets(inp, name, ctxns) ==
  LET a == WithPrefixTargets(inp, name, ctxns) IN
  IF a # <<>> THEN a
  ELSE LET b == IF EndsWithS(name) THEN WithPrefixTargets(inp, StripS(name), ctxns) ELSE <<>> IN
       IF b # <<>> THEN b
       ELSE IF LinkFormulas THEN FormulaTargets(inp, name) ELSE <<>>

RECURSIVE NamesTargets(_, _, _)
NamesTargets(inp, names, ctxns) ==
  IF names = <<>> THEN <<>>
  ELSE VisitTargets(inp, Head(names), ctxns) \o NamesTargets(inp, Tail(names), ctxns)

RECURSIVE PropNames(_)
PropNames(props) == IF props = <<>> THEN <<>>
                    ELSE Head(props).inp.ids \o Head(props).out.ids \o PropNames(Tail(props))

\* identifiers a definition mentions, in the order Resolver::eval walks them (load.rs:147-158)
Mentions(def) ==
  CASE def.kind \in {"unit", "prefix", "quantity"} -> def.body.ids
    [] def.kind = "subst" -> PropNames(def.props)
    [] OTHER -> <<>>

\* the visit calls made while definition `id` is being visited
Deps(inp, id) == NamesTargets(inp, Mentions(inp[id]), id.ns)

-----------------------------------------------------------------------------
(* the registry *)

EmptyDb == [base |-> {}, longs |-> EmptyMap, units |-> EmptyMap, defs |-> EmptyMap, prefixes |-> <<>>,
            plookup |-> EmptyMap, quants |-> EmptyMap, qnames |-> EmptyMap, subst |-> EmptyMap, symbols |-> EmptyMap,
            docs |-> EmptyMap, cats |-> EmptyMap, catnames |-> EmptyMap, temps |-> EmptyMap, silent |-> FALSE]

Res(ok, v) == [ok |-> ok, v |-> v]
Fail == Res(FALSE, NOne)

\* Registry::lookup (registry.rs:43-81) behind Context::lookup (temporaries first, context.rs:75-84)
DbExact(d, name) ==
  IF name \in d.base THEN Res(TRUE, Num(1, 1, DBaseOf(name)))
  ELSE IF Has(d.units, name) THEN Res(TRUE, d.units[name])
  ELSE Fail

RECURSIVE DbPrefixFrom(_, _, _)
DbPrefixFrom(d, name, i) ==
  IF i > Len(d.prefixes) THEN Fail
  ELSE LET p == d.prefixes[i] IN
       IF IsPrefixSeq(p.name, name) /\ DbExact(d, DropSeq(name, Len(p.name))).ok
       THEN Res(TRUE, NMulV(DbExact(d, DropSeq(name, Len(p.name))).v, p.v))
       ELSE DbPrefixFrom(d, name, i + 1)

DbWithPrefix(d, name) == IF DbExact(d, name).ok THEN DbExact(d, name) ELSE DbPrefixFrom(d, name, 1)

DbLookup(d, name) ==
  IF Has(d.temps, name) THEN Res(TRUE, d.temps[name])
  ELSE IF DbWithPrefix(d, name).ok THEN DbWithPrefix(d, name)
  ELSE IF EndsWithS(name) THEN DbWithPrefix(d, StripS(name))
  ELSE Fail

\* eval_expr of a name that is no unit (runtime/eval.rs:30-58): a substance by name, by symbol, or composed from a
\* formula (formula.rs: every symbol known, no stray count, every element with a molar_mass in kg / mol)
N_kg == <<107, 103>>
N_mol == <<109, 111, 108>>
N_molar_mass == <<109, 111, 108, 97, 114, 95, 109, 97, 115, 115>>
MolarDim == [b \in BaseNames |-> IF b = N_kg THEN 1 ELSE IF b = N_mol THEN -1 ELSE 0]
HasMolarMass(d, sub) ==
  /\ Has(d.subst[sub], N_molar_mass)
  /\ {N_kg, N_mol} \subseteq BaseNames
  /\ LET p == d.subst[sub][N_molar_mass] IN [b \in BaseNames |-> p.out.d[b] - p.inp.d[b]] = MolarDim
FormulaOk(d, name) ==
  LET f == FormulaSyms(name) IN
  /\ f.ok /\ ~IsDigit(name[1])
  /\ \A i \in DOMAIN f.syms : Has(d.symbols, f.syms[i]) /\ Has(d.subst, d.symbols[f.syms[i]])
                               /\ HasMolarMass(d, d.symbols[f.syms[i]])
IsSubstance(d, name) ==
  \/ Has(d.subst, name)
  \/ (Has(d.symbols, name) /\ Has(d.subst, d.symbols[name]))
  \/ FormulaOk(d, name)

\* Context::eval of a body: [t: "num" | "err" | "other", v]
RECURSIVE EvalIds(_, _, _)
EvalIds(d, ids, acc) ==
  IF ids = <<>> THEN [t |-> "num", v |-> acc]
  ELSE LET r == DbLookup(d, Head(ids)) IN
       IF r.ok THEN EvalIds(d, Tail(ids), NMulV(acc, r.v))
       ELSE IF IsSubstance(d, Head(ids)) THEN [t |-> "other", v |-> acc]   \* a substance value: not modelled
       ELSE [t |-> "err", v |-> acc]

EvalBody(d, body) == EvalIds(d, body.ids, Num(body.c, 1, DZero))

Err(k, id) == [k |-> k, ns |-> id.ns, name |-> id.name]

\* eval_prefix (load.rs:167-208): a constant or the name of an earlier prefix
EvalPrefixBody(d, body) ==
  IF body.ids = <<>> THEN Res(TRUE, Num(body.c, 1, DZero))
  ELSE IF body.c = 1 /\ Len(body.ids) = 1 /\ Has(d.plookup, body.ids[1]) THEN Res(TRUE, d.plookup[body.ids[1]])
  ELSE Fail

\* eval_quantity (load.rs:210-279): base units and earlier quantities, constant 1 only
RECURSIVE QuantIds(_, _, _)
QuantIds(d, ids, acc) ==
  IF ids = <<>> THEN Res(TRUE, Num(1, 1, acc))
  ELSE LET x == Head(ids) IN
       IF x \in d.base THEN QuantIds(d, Tail(ids), [b \in BaseNames |-> acc[b] + DBaseOf(x)[b]])
       ELSE IF Has(d.qnames, x) THEN QuantIds(d, Tail(ids), [b \in BaseNames |-> acc[b] + d.qnames[x][b]])
       ELSE Fail
EvalQuantBody(d, body) == IF body.c # 1 THEN Fail ELSE QuantIds(d, body.ids, DZero)

\* substance properties (load.rs:476-546): result [ok, props, temps, warns]
RECURSIVE EvalProps(_, _, _, _, _)
EvalProps(d, props, acc, prev, warns) ==
  \* d carries the temporaries set so far; prev: dimension of input/output -> names seen
  IF props = <<>> THEN [ok |-> TRUE, props |-> acc, warns |-> warns]
  ELSE LET p == Head(props)
           i == EvalBody(d, p.inp)
           o == EvalBody(d, p.out)
       IN IF i.t # "num" \/ o.t # "num" THEN [ok |-> FALSE, props |-> acc, warns |-> warns]
          ELSE IF o.v.n = 0 \/ i.v.n = 0 THEN [ok |-> FALSE, props |-> acc, warns |-> warns]   \* a zero side: no ratio
          ELSE LET ratio == NDivV(i.v, o.v)
                   uniq == {p.name, p.iname, p.oname}
                   seen == IF Has(prev, ratio.d) THEN prev[ratio.d] ELSE {}
                   t1 == Put(d.temps, p.name, ratio)
                   t2 == IF NIsOne(o.v) THEN Put(t1, p.iname, i.v) ELSE t1
                   t3 == IF NIsOne(i.v) THEN Put(t2, p.oname, o.v) ELSE t2
               IN EvalProps([d EXCEPT !.temps = t3], Tail(props),
                            Put(acc, p.name, [inp |-> i.v, iname |-> p.iname, out |-> o.v, oname |-> p.oname]),
                            Put(prev, ratio.d, seen \cup uniq),
                            warns + Cardinality(seen \cap uniq))

RECURSIVE Repeat(_, _)
Repeat(x, n) == IF n = 0 THEN <<>> ELSE <<x>> \o Repeat(x, n - 1)

\* one iteration of the loop at load.rs:388-579: <<db, new errors>>
EvalDef(d, id, def) ==
  CASE def.kind = "base" ->
         LET d1 == [d EXCEPT !.base = @ \cup {def.name}] IN
         IF def.long = NoName THEN <<d1, <<>>>>
         ELSE <<[d1 EXCEPT !.longs = Put(@, def.name, def.long),
                           !.defs = Put(@, def.long, [c |-> 1, ids |-> <<def.name>>]),
                           !.units = Put(@, def.long, Num(1, 1, DBaseOf(def.name)))], <<>>>>
    [] def.kind = "unit" ->
         LET r == EvalBody(d, def.body) IN
         IF r.t = "num" THEN <<[d EXCEPT !.defs = Put(@, def.name, def.body), !.units = Put(@, def.name, r.v)], <<>>>>
         ELSE IF r.t = "other" THEN <<[d EXCEPT !.silent = TRUE], <<>>>>
         ELSE <<d, <<Err("malformed", id)>>>>
    [] def.kind = "prefix" ->
         LET r == EvalPrefixBody(d, def.body) IN
         IF r.ok THEN <<[d EXCEPT !.plookup = Put(@, def.name, r.v),
                                  !.prefixes = Append(@, [name |-> def.name, v |-> r.v]),
                                  !.units = IF def.islong THEN Put(@, def.name, r.v) ELSE @], <<>>>>
         ELSE <<d, <<Err("prefix", id)>>>>
    [] def.kind = "quantity" ->
         LET r == EvalQuantBody(d, def.body) IN
         IF r.ok THEN
            LET old == Has(d.quants, r.v.d)
                d1 == [d EXCEPT !.qnames = Put(@, def.name, r.v.d),
                                !.quants = Put(@, r.v.d, def.name),
                                !.defs = IF Has(@, def.name) THEN @ ELSE Put(@, def.name, def.body)]
            IN <<d1, IF old THEN <<Err("qconflict", id)>> ELSE <<>>>>
         ELSE <<d, <<Err("quantity", id)>>>>
    [] def.kind = "subst" ->
         LET r == EvalProps(d, def.props, EmptyMap, EmptyMap, 0) IN
         \* ctx.temporaries.clear() (load.rs:546): whatever happened
         IF r.ok THEN <<[d EXCEPT !.subst = Put(@, def.name, r.props),
                                  !.symbols = IF def.sym # NoName THEN Put(@, def.sym, def.name) ELSE @],
                        Repeat(Err("propconflict", id), r.warns)>>
         ELSE <<d, Repeat(Err("propconflict", id), r.warns) \o <<Err("subst", id)>>>>
    [] def.kind = "category" -> <<[d EXCEPT !.catnames = Put(@, def.name, def.disp)], <<>>>>
    [] OTHER -> <<d, <<Err("deferror", id)>>>>

\* load.rs:581-604, both maps walked in key order
RECURSIVE PostDocs(_, _, _, _), PostCats(_, _, _, _)
PostDocs(d, errs, ids, rd) ==
  IF ids = <<>> THEN <<d, errs>>
  ELSE LET x == Head(ids) IN
       PostDocs([d EXCEPT !.docs = Put(@, x.name, rd[x])],
                IF Has(d.docs, x.name) THEN Append(errs, Err("docconflict", x)) ELSE errs, Tail(ids), rd)
PostCats(d, errs, ids, rc) ==
  IF ids = <<>> THEN <<d, errs>>
  ELSE LET x == Head(ids) IN
       PostCats([d EXCEPT !.cats = Put(@, x.name, rc[x])],
                IF Has(d.cats, x.name) THEN Append(errs, Err("catconflict", x)) ELSE errs, Tail(ids), rc)

-----------------------------------------------------------------------------
(* the steps, as functions of the state record *)

Top(s) == s.stack[Len(s.stack)]
\* a key of `input` that is the long name of a base unit (Resolver.long_names)
IsLongKey(inp, id) == id \in DOMAIN inp /\ inp[id].kind = "base" /\ inp[id].long = id.name /\ inp[id].name # id.name
Pop(st) == SubSeq(st, 1, Len(st) - 1)
Frame(id, pc, deps) == [id |-> id, pc |-> pc, deps |-> deps]

InitF(fs) == [label |-> <<>>, files |-> fs, todo |-> <<>>, defset |-> {}, input |-> EmptyMap, unmarked |-> {}, temp |-> {},
              sorted |-> <<>>, stack |-> <<>>, errors |-> <<>>, rdocs |-> EmptyMap, rcats |-> EmptyMap,
              cut |-> {}, evalq |-> <<>>, db |-> EmptyDb, phase |-> "files"]

\* cli/src/config.rs:329-333: every file parsed on its own, the lists concatenated
EnConcat(s) == s.phase = "files"
DoConcat(s) == [s EXCEPT !.label = <<>>, !.todo = Flatten(s.files), !.defset = Range(Flatten(s.files)), !.files = <<>>,
                         !.phase = "insert"]

\* load.rs:292-356, one list entry
EnInsert(s) == s.phase = "insert" /\ s.todo # <<>>
DoInsert(s) ==
  LET def == Head(s.todo)
      id == IdOf(def)
      \* a base unit's long name is a second key for the same definition (not put into unmarked; Resolver.long_names
      \* leads from it to the base unit)
      in1 == IF def.kind = "base" /\ def.long # NoName THEN Put(s.input, Id(NsUnit, def.long), def) ELSE s.input
      dup == id \in DOMAIN in1
  IN [s EXCEPT !.todo = Tail(s.todo),
               !.input = Put(in1, id, def),
               !.rdocs = IF def.doc # "" THEN Put(@, id, def.doc) ELSE @,
               !.rcats = IF def.cat # NoName /\ id.ns = NsUnit THEN Put(@, id, def.cat) ELSE @,
               !.errors = IF dup /\ id.ns # NsCategory THEN Append(@, Err("dup", id)) ELSE @,
               !.unmarked = @ \cup {id}]

EnInsertDone(s) == s.phase = "insert" /\ s.todo = <<>>
DoInsertDone(s) == [s EXCEPT !.phase = "sort"]

\* load.rs:358-360: while let Some(name) = unmarked.iter().next() { visit(name) }
EnPick(s) == s.phase = "sort" /\ s.stack = <<>> /\ s.unmarked # {}
DoPick(s) == [s EXCEPT !.stack = <<Frame(MinId(s.unmarked), "enter", <<>>)>>]

\* load.rs:138-146: entering visit(id)
EnVisitEnter(s) == s.phase = "sort" /\ s.stack # <<>> /\ Top(s).pc = "enter"
DoVisitEnter(s) ==
  LET id == Top(s).id
      from == IF Len(s.stack) > 1 THEN s.stack[Len(s.stack) - 1].id ELSE id
  IN IF id \in s.temp
     THEN [s EXCEPT !.errors = Append(@, Err("cycle", id)), !.cut = @ \cup {<<from, id>>}, !.stack = Pop(@)]
     ELSE IF id \in s.unmarked
     THEN [s EXCEPT !.temp = @ \cup {id}, !.stack = Append(Pop(@), Frame(id, "deps", Deps(s.input, id)))]
     ELSE IF LinkLongNames /\ IsLongKey(s.input, id)
     THEN [s EXCEPT !.stack = Append(Pop(@), Frame(IdOf(s.input[id]), "enter", <<>>))]   \* a long name: visit the base unit
     ELSE [s EXCEPT !.stack = Pop(@)]        \* already emitted: nothing to do

\* load.rs:109-136 / 65-107: the next visit call made from inside the definition being visited
EnDepStep(s) == s.phase = "sort" /\ s.stack # <<>> /\ Top(s).pc = "deps" /\ Top(s).deps # <<>>
DoDepStep(s) ==
  LET t == Top(s) IN
  [s EXCEPT !.stack = Append(Append(Pop(@), Frame(t.id, "deps", Tail(t.deps))), Frame(Head(t.deps), "enter", <<>>))]

\* load.rs:160-162: leaving visit(id)
EnVisitExit(s) == s.phase = "sort" /\ s.stack # <<>> /\ Top(s).pc = "deps" /\ Top(s).deps = <<>>
DoVisitExit(s) ==
  LET id == Top(s).id IN
  [s EXCEPT !.unmarked = @ \ {id}, !.temp = @ \ {id}, !.sorted = Append(@, id), !.stack = Pop(@)]

EnSortDone(s) == s.phase = "sort" /\ s.stack = <<>> /\ s.unmarked = {}
DoSortDone(s) == [s EXCEPT !.phase = "eval", !.evalq = s.sorted]

\* load.rs:388-579, one definition
EnEvaluate(s) == s.phase = "eval" /\ s.evalq # <<>>
DoEvaluate(s) ==
  LET id == Head(s.evalq)
      r == EvalDef(s.db, id, s.input[id])
  IN [s EXCEPT !.evalq = Tail(@), !.db = r[1], !.errors = @ \o r[2]]

EnEvalDone(s) == s.phase = "eval" /\ s.evalq = <<>>
DoEvalDone(s) == [s EXCEPT !.phase = "post"]

EnPost(s) == s.phase = "post"
DoPost(s) ==
  LET a == PostDocs(s.db, s.errors, SortIds(DOMAIN s.rdocs), s.rdocs)
      b == PostCats(a[1], a[2], SortIds(DOMAIN s.rcats), s.rcats)
  IN [s EXCEPT !.db = b[1], !.errors = b[2], !.phase = "done"]

StepF(s) ==
  IF EnConcat(s) THEN DoConcat(s)
  ELSE IF EnInsert(s) THEN DoInsert(s)
  ELSE IF EnInsertDone(s) THEN DoInsertDone(s)
  ELSE IF EnPick(s) THEN DoPick(s)
  ELSE IF EnVisitEnter(s) THEN DoVisitEnter(s)
  ELSE IF EnDepStep(s) THEN DoDepStep(s)
  ELSE IF EnVisitExit(s) THEN DoVisitExit(s)
  ELSE IF EnSortDone(s) THEN DoSortDone(s)
  ELSE IF EnEvaluate(s) THEN DoEvaluate(s)
  ELSE IF EnEvalDone(s) THEN DoEvalDone(s)
  ELSE IF EnPost(s) THEN DoPost(s)
  ELSE s

RECURSIVE RunF(_)
RunF(s) == IF s.phase = "done" THEN s ELSE RunF(StepF(s))

-----------------------------------------------------------------------------
(* the state machine *)

Init ==
  /\ InitCase(label, files)
  /\ todo = <<>> /\ defset = {} /\ input = EmptyMap /\ unmarked = {} /\ temp = {} /\ sorted = <<>>
  /\ stack = <<>> /\ errors = <<>> /\ rdocs = EmptyMap /\ rcats = EmptyMap /\ cut = {} /\ evalq = <<>>
  /\ db = EmptyDb /\ phase = "files"

Concat == EnConcat(S) /\ Assign(DoConcat(S))
Insert == EnInsert(S) /\ Assign(DoInsert(S))
InsertDone == EnInsertDone(S) /\ Assign(DoInsertDone(S))
Pick == EnPick(S) /\ Assign(DoPick(S))
VisitEnter == EnVisitEnter(S) /\ Assign(DoVisitEnter(S))
DepStep == EnDepStep(S) /\ Assign(DoDepStep(S))
VisitExit == EnVisitExit(S) /\ Assign(DoVisitExit(S))
SortDone == EnSortDone(S) /\ Assign(DoSortDone(S))
Evaluate == EnEvaluate(S) /\ Assign(DoEvaluate(S))
EvalDone == EnEvalDone(S) /\ Assign(DoEvalDone(S))
Post == EnPost(S) /\ Assign(DoPost(S))

Next == Concat \/ Insert \/ InsertDone \/ Pick \/ VisitEnter \/ DepStep \/ VisitExit \/ SortDone
        \/ Evaluate \/ EvalDone \/ Post

Spec == Init /\ [][Next]_vars /\ WF_vars(Next)

Done == phase = "done"

-----------------------------------------------------------------------------
(* properties *)

AllIds == {IdOf(d) : d \in defset}        \* the definitions to be emitted (uniquely named sets: one per definition)
StackIds == {stack[i].id : i \in {j \in DOMAIN stack : stack[j].pc = "deps"}}
PosIn(seq, x) == CHOOSE i \in DOMAIN seq : seq[i] = x
Emitted == Range(sorted)

TypeOK ==
  /\ phase \in {"files", "insert", "sort", "eval", "post", "done"}
  /\ unmarked \subseteq DOMAIN input
  /\ temp \subseteq unmarked
  /\ \A i \in DOMAIN stack : stack[i].pc \in {"enter", "deps"}

\* the temp marks are exactly the definitions whose visit is in progress; nothing is left behind
TempIsStack == temp = StackIds
NoRepeat == \A i, j \in DOMAIN sorted : sorted[i] = sorted[j] => i = j
EmittedOnce == /\ NoRepeat
               /\ Emitted \cap unmarked = {}
               /\ phase \in {"eval", "post", "done"} => Emitted = DOMAIN input \cap AllIds /\ unmarked = {}
TemporariesEmpty == /\ (stack = <<>> => temp = {})
                    /\ (Done => temp = {} /\ stack = <<>> /\ db.temps = EmptyMap /\ evalq = <<>> /\ todo = <<>>)
                    /\ (phase \in {"eval", "post", "done"} => db.temps = EmptyMap)

\* When a definition is emitted, every definition it leads to (as Resolver::lookup reads its identifiers) has
\* been emitted before it, or the edge to it was reported as a dependency cycle.  (A base unit's long name is a
\* key of `input` that is never emitted: such targets are excluded here and accounted for by LongNameRefs.)
\* (Stated on the finished order: positions in `sorted` and reported edges never change once they exist, and by
\* EmittedOnce every definition is in the finished order, so an earlier violation is still one at the end.)
TopoOrder ==
  phase = "post" =>
  \A i \in DOMAIN sorted :
    \A t \in Range(Deps(input, sorted[i])) :
      t \in AllIds => \/ (t \in Emitted /\ PosIn(sorted, t) < i)
                      \/ <<sorted[i], t>> \in cut

\* The same without the exclusion: the definition *behind* every key a definition leads to (for a long name, the
\* base unit) is emitted first.  Without LinkLongNames the design does not have this property (a unit that
\* mentions a base unit by its long name is emitted first when its own name sorts first): MC_Loader_longname.cfg
\* shows the counterexample; rink-rs was repaired in commit 3701c96.
Behind(t) == IdOf(input[t])
TopoOrderStrict ==
  phase = "post" =>
  \A i \in DOMAIN sorted :
    \A t \in Range(Deps(input, sorted[i])) :
      \/ (Behind(t) \in Emitted /\ PosIn(sorted, Behind(t)) < i)
      \/ <<sorted[i], t>> \in cut

\* C12, "forward references resolve", as the property states it (no resolver in sight): a definition is refused
\* only if it would also be refused as the LAST definition of the load, evaluated when everything else the set
\* defines is in the database.  A definition refused for a name that the set does define - in whatever order,
\* file, or spelling (long name of a base unit, prefix + unit, plural, element symbol, chemical formula) - is a
\* forward reference that was not resolved.
FailKinds == {"malformed", "prefix", "quantity", "subst"}
Refused(errs, id) == \E i \in DOMAIN errs : errs[i].k \in FailKinds /\ errs[i].ns = id.ns /\ errs[i].name = id.name
ForwardRefsResolve ==
  Done => \A d \in defset : Refused(errors, IdOf(d)) => Refused(EvalDef(db, IdOf(d), d)[2], IdOf(d))

\* dependency graph over the definitions, reachability in >= 1 steps
Edge(a, b) == b \in Range(Deps(input, a))
RECURSIVE ReachSet(_, _)
ReachSet(front, seen) ==
  LET nxt == {b \in AllIds : \E a \in front : Edge(a, b)} \ seen IN
  IF nxt = {} THEN seen ELSE ReachSet(nxt, seen \cup nxt)
Reach(a) == ReachSet({a}, {})          \* nodes reachable from a by a non-empty path
OnCycle(a) == a \in Reach(a)
CycleErr(a) == \E i \in DOMAIN errors : errors[i].k = "cycle" /\ errors[i].ns = a.ns /\ errors[i].name = a.name

\* every dependency cycle is reported (for some definition on that very cycle), and nothing else is
CycleReported ==
  phase = "post" =>
    /\ \A a \in AllIds : OnCycle(a) => \E b \in AllIds : b \in Reach(a) /\ a \in Reach(b) /\ CycleErr(b)
    /\ \A a \in AllIds : CycleErr(a) => OnCycle(a)
    /\ \A e \in cut : CycleErr(e[2]) /\ Edge(e[1], e[2])

\* Termination of a sequential program: a measure that decreases lexicographically with every step.
\* (phase, list entries left, definitions not yet entered, definitions not yet emitted, stack empty, pending calls)
RECURSIVE StackWork(_)
StackWork(st) ==
  IF st = <<>> THEN 0
  ELSE 1 + 3 * Len(Head(st).deps) + (IF Head(st).pc = "enter" /\ IsLongKey(input, Head(st).id) THEN 1 ELSE 0) + StackWork(Tail(st))
PhaseRank ==
  CASE phase = "files" -> 5 [] phase = "insert" -> 4 [] phase = "sort" -> 3 [] phase = "eval" -> 2
    [] phase = "post" -> 1 [] OTHER -> 0
Measure == <<PhaseRank, Len(todo) + Len(evalq), Cardinality(unmarked \ temp), Cardinality(unmarked),
             IF phase = "sort" /\ stack = <<>> THEN 1 ELSE 0, StackWork(stack)>>
RECURSIVE LexLess(_, _)
LexLess(a, b) == a # <<>> /\ (a[1] < b[1] \/ (a[1] = b[1] /\ LexLess(Tail(a), Tail(b))))
MeasureNat == \A i \in DOMAIN Measure : Measure[i] >= 0
Progress == [][LexLess(Measure', Measure)]_vars

Termination == <>Done

\* canonical order of a set: by identifier
RECURSIVE CanonSeq(_)
CanonSeq(D) == IF D = {} THEN <<>>
               ELSE LET m == CHOOSE d \in D : \A e \in D \ {d} : IdLess(IdOf(d), IdOf(e)) IN <<m>> \o CanonSeq(D \ {m})

UniquelyNamed(D) == \A d, e \in D : d # e => /\ IdOf(d) # IdOf(e)
                                              /\ (d.kind = "base" /\ d.long # NoName => Id(NsUnit, d.long) # IdOf(e))
                                              /\ (d.kind = "subst" /\ e.kind = "subst" /\ d.sym # NoName => d.sym # e.sym)

\* C12: the database (and the reported problems) of every order and every split of a uniquely named set is the
\* one the canonical order gives
OrderIndependent ==
  (Done /\ UniquelyNamed(defset)) =>
     \E r \in {RunF(InitF(<<CanonSeq(defset)>>))} : r.db = db /\ r.errors = errors /\ r.sorted = sorted

\* C08 in the small: what is stored for a unit is what its definition evaluates to in the finished database
UnitDefs == {d \in defset : d.kind = "unit"}
FixedPoint ==
  Done => \A d \in UnitDefs :
            Has(db.units, d.name) /\ Has(db.defs, d.name) /\ db.defs[d.name] = d.body
              => \E r \in {EvalBody(db, d.body)} : r.t = "num" /\ NEqV(r.v, db.units[d.name])

\* every identifier has at most one admissible reading (exact in some namespace, prefix + name, the same
\* without a plural s): the scope in which FixedPoint is asserted (DESIGN.md, C08 scope note)
ExactCount(n) == Cardinality({ns \in {NsUnit, NsPrefix, NsQuantity} : Id(ns, n) \in DOMAIN input})
SplitCount(n) == Cardinality({p \in {x \in DOMAIN input : x.ns = NsPrefix} :
                                IsPrefixSeq(p.name, n) /\ ExactCount(DropSeq(n, Len(p.name))) > 0})
ReadingCount(n) == ExactCount(n) + SplitCount(n)
                   + (IF EndsWithS(n) THEN ExactCount(StripS(n)) + SplitCount(StripS(n)) ELSE 0)
Ambiguous == \E d \in defset : \E i \in DOMAIN Mentions(d) : ReadingCount(Mentions(d)[i]) > 1
=============================================================================
